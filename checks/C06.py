from pyvc.runner import register_modules

register_modules("C06", "contracts.C06_routing", "bounded.C06_api")
LEVEL = "other"
EXPLANATION = ("(VC) the allocator of system bytes plus the distinctness lemma; (VC) routing: HsmsProtocol._on_connection_message_received (all 36 "
               "SType x state x closing cases) and SecsIProtocol._on_connection_message_received put a message whose system bytes have a waiting "
               "requester into exactly that requester's queue, once, touch no other queue and raise no message_received - for all 2^32 system "
               "bytes and any set of open transactions; (FD) lock-discipline obligation with forced-interleaving replay, executed contracts for "
               "transaction book-keeping and dispatcher life cycle; (BND) concurrent requesters. "
               "Concurrency is covered only through these obligations, not by exploring interleavings.")
ASSUMPTIONS = ["A-QUEUE: queue.Queue is a thread-safe FIFO (seen through AbsQueue with a ghost put counter per system id)",
               "call-outs as in C05 (send_message, put_nowait, fire, decode-for-logging, state machine transitions validated by C05's FD)",
               "threading.Lock provides mutual exclusion (A-EXT)"]
