from pyvc.runner import register_modules

register_modules("C06", "contracts.C06_routing", "bounded.C06_api")
LEVEL = "other"
EXPLANATION = ("VC for the allocator of system bytes plus a distinctness lemma; lock-discipline obligation with forced-interleaving "
               "replay; executed contracts for transaction bookkeeping and dispatcher life cycle; bounded concurrent-requesters pass. "
               "Concurrency is covered only through these obligations, not by exploring interleavings.")
ASSUMPTIONS = ["A-QUEUE: queue.Queue is a thread-safe FIFO", "routing of control responses in every session state: see C05 (finite-domain)",
               "threading.Lock provides mutual exclusion (A-EXT)"]
