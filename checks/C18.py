from pyvc.runner import register_modules

register_modules("C18", "contracts.C18_machine", "bounded.C18_api")
LEVEL = "other"
EXPLANATION = ("(VC, z3) the real State.is_within (loop invariant + variant), State.enter, State.leave (recursive, used through their own "
               "contracts) and StateMachine._perform_transition for ANY hierarchy of states: the State objects are a heap region of "
               "symbolic size (struct of arrays, parent links acyclic by a decreasing ghost depth), 'ancestor-or-self' is the closure of "
               "the parent links (fixpoint equation + three lemmas proved by induction on the depth: closed, transitive, depth-monotone). "
               "Proved: a request with an unknown name or from a state that is not a source raises and changes nothing; an allowed one ends in "
               "exactly the destination, preserves 'active = current state and its ancestors', fires 'leave' exactly once on every state "
               "exited, 'enter' exactly once on every state entered and 'called' once.  StateMachine.transition: first entry with the name "
               "(tables of 0..4).  (FD) the assumptions on the region (parent assigned only in State.__init__), the three shipped machines "
               "(all steps), lock discipline.  (BND) generated machines with re-entrant handlers, concurrent triggers.")
ASSUMPTIONS = [
    "event handlers are call-outs assumed not to touch the machine (StateEventsFire / TransitionEventsFire); handlers that request transitions themselves are covered by the bounded pass only",
    "the induction schema for the three reach lemmas (strong induction on the ghost depth) is applied outside the solver; base/step are discharged by z3 (unit ReachLemmas)",
    "valid_tree (acyclic parent links inside the region) is a pre-condition justified by construction: FD obligation parent-link-assigned-only-in-State.__init__",
    "logging calls and the exception message text are not part of the contract (A-LOG)",
    "reference semantics of hierarchical machines as stated in bounded/C18_api.py (from the property statement)",
    "generated machines are a seeded sample; only the three shipped machines are enumerated exhaustively",
    "known finding D18: no mutual exclusion between concurrent triggers (recorded, not repaired: a lock around _perform_transition would block the dispatcher thread behind a handler that waits for a reply, see DESIGN.md)",
]
