from pyvc.runner import register_modules

register_modules("C18", "bounded.C18_api")
LEVEL = "exploration"
ASSUMPTIONS = [
    "reference semantics of hierarchical machines as stated in bounded/C18_api.py (from the property statement)",
    "generated machines are a seeded sample; only the three shipped machines are enumerated exhaustively",
    "known finding D18: no mutual exclusion between concurrent triggers (recorded, not repaired: a lock around _perform_transition would block the dispatcher thread behind a handler that waits for a reply, see DESIGN.md)",
]
