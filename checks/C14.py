from pyvc.runner import register_modules

register_modules("C14", "contracts.C14_items", "bounded.C14_api")
LEVEL = "proof"
ASSUMPTIONS = ["A-STRUCT / A-INT / A-SEQ as for C01"]
