from pyvc.runner import register_modules

register_modules("C04", "contracts.C04_hsms", "bounded.C04_api")
LEVEL = "proof"
ASSUMPTIONS = [
    "A-STRUCT / A-INT / A-SEQ",
    "A-EXT: threading.Condition.wait_for(pred) returns only when pred() holds; while waiting other threads may only append to the buffer (rely)",
    "A-BQ-ABS (assumed contracts BQWaitForAbs, BQLenAbs): ByteQueue seen through the ghost stream of all bytes ever appended and a read cursor; justified by BQAppend/BQPop/BQWaitFor verified on the real methods",
    "QueueBlockAbs: the dispatcher call-out is specified by its precondition (k-th call receives the decode of the k-th frame); the FIFO hand-off inside ProtocolDispatcher (queue.Queue, A-QUEUE) and thread scheduling (A-SCHED) are not verified",
    "valid frames only (assigned SType, length field >= 10): frames that fail to decode raise out of the framing loop and are outside this property",
]
