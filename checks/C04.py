from pyvc.runner import register_modules

register_modules("C04", "contracts.C04_hsms", "bounded.C04_api")
LEVEL = "proof"
ASSUMPTIONS = [
    "A-STRUCT / A-INT / A-SEQ",
    "A-BQ-ABS (assumed call-site contracts BQWaitForBufferedAbs, BQLenAbs): ByteQueue seen through the ghost stream of all bytes ever appended and a read cursor; other threads only append; justified by BQAppend/BQPop/BQWaitForBuffered verified on the real methods. The framing loop calls wait_for only with its bytes buffered (call-site obligation), so the blocking path of wait_for is not relied on here (it is under contract for C17)",
    "QueueBlockAbs: the dispatcher call-out is specified by its precondition (k-th call receives the decode of the k-th frame); the FIFO hand-off inside ProtocolDispatcher (queue.Queue, A-QUEUE) and thread scheduling (A-SCHED) are not verified",
    "valid frames only (assigned SType, length field >= 10): frames that fail to decode raise out of the framing loop and are outside this property",
]
