from pyvc.runner import register_modules

register_modules("C09", "contracts.C04_hsms", "bounded.C09_api")
LEVEL = "other"
EXPLANATION = ("Proof of a necessary condition (the receiver thread never waits for missing bytes; complete frames are delivered; the "
               "buffer cursor stays on frame boundaries) by VCs on the real framing loop, plus a bounded loopback pass over the real TCP "
               "connection classes for the liveness-flavoured clauses (disconnect handling finishes, reconnect, disable() returns), "
               "which no contract within reach expresses.")
ASSUMPTIONS = ["assumed contracts of ByteQueue in the ghost-stream view (A-BQ-ABS), as C04", "thread stop-flag hand-shakes of the TCP classes: only exercised, not verified",
               "bounded: 8 cut offsets (thorough: every offset) of a 3-frame stream"]
