from pyvc.runner import register_modules

register_modules("C09", "contracts.C04_hsms", "contracts.C09_link", "bounded.C09_api")
LEVEL = "other"
EXPLANATION = ("Proof of a necessary condition (the receiver thread never waits for missing bytes; complete frames are delivered; the "
               "buffer cursor stays on frame boundaries; the link is reported closed only after the handlers of `connected` are done, "
               "whatever they raise; the listening socket is closed before the receiver of the accepted link runs) by VCs on the "
               "real framing loop and on the real close / accept sequences of the TCP classes, plus a bounded loopback pass over the real TCP "
               "connection classes for the liveness-flavoured clauses (disconnect handling finishes, reconnect, disable() returns), "
               "which no contract within reach expresses.")
ASSUMPTIONS = ["assumed contracts of ByteQueue in the ghost-stream view (A-BQ-ABS), as C04", "thread stop-flag hand-shakes of the TCP classes: only exercised, not verified",
               "assumed POSIX / CPython contracts of socket methods and threading.Event in contracts/C09_link.py (shutdown of a listening socket "
               "fails only when it was closed before; close never raises; Event.wait() returns once the event is set); no other thread "
               "clears the gate between the wait and the two close events (sequential reading of one thread)",
               "bounded: 8 cut offsets (thorough: every offset) of a 3-frame stream"]
