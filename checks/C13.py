from pyvc.runner import register_modules

register_modules("C13", "contracts.C13_constants", "contracts.C13_alarms", "contracts.C13_replies", "bounded.C13_api")
LEVEL = "other"
EXPLANATION = ("(VC) EquipmentConstantsCapability._on_s02f15 for requests of 1..3 constants with ANY ids and integer values over ANY table of "
               "constants (symbolic map): EAC 0 exactly when every id is known and every value within limits, then all applied in order, else "
               "nothing written; constants within their limits stay within them; limits untouched.  AlarmCapability.set_alarm / clear_alarm for ANY "
               "alarm id over ANY alarm table: S5F1 exactly on a set/clear change of an alarm that is enabled now, with ALCD = code | set-bit, this "
               "ALID and its text; state and collection event exactly on a change; no other alarm touched.  "
               "S1F3 / S2F13 for requests of 1..3 ids: exactly the requested items in request order, current value if known, empty item if not.  "
               "(BND) S1F3/S1F11/S2F13/S2F29/S5F5/S5F7 replies incl. empty requests (all items), float and NaN constants, S5F3, histories: real handlers through real messages "
               "against a reference model, small id domains (stated scope).")
ASSUMPTIONS = [
    "call-outs assumed at call sites of the VC units: decode of S2F15 yields its list of (ECID, ECV) records (C03), item.get(), _set_ec_value stores the value "
    "(its application-callback variant and the mirroring of two well-known constants into the settings are not modelled), catalogue lookup / construction of the reply, "
    "send_and_waitfor_response and trigger_collection_events are recorded only",
    "A-KEY: a decoded data item used as dictionary key stands for the value it holds",
    "integer-valued constants in the VC unit; float / NaN values (D21) are covered by the bounded pass",
    "element count of the request is a case split 1..3 (bounded shape)",
    "bounded pass: small id domains and histories as stated in evidence.bounded; oracle = reference model of the property statement",
]
