from pyvc.runner import register_modules

register_modules("C13", "bounded.C13_api")
LEVEL = "exploration"
ASSUMPTIONS = ["reference model in bounded/C13_api.py (from the property statement)", "bounded scope as stated in evidence.bounded",
               "an S2F15 carrying an item the library cannot decode (F4 infinity) is answered with S2F0 and applies nothing: noted, not judged"]
