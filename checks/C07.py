from pyvc.runner import register_modules

register_modules("C07", "contracts.C07_comm", "bounded.C07_api")
LEVEL = "other"
EXPLANATION = ("(VC) the real message gate GemHandler._on_message_received (with _is_commack_accepted and the send_response wrapper inlined), one case per "
               "communication state and role, ALL stream/function/system/W-bit values, any COMMACK the peer's S1F14 denotes (or an undecodable body) and any "
               "code returned by on_commack_requested: COMMUNICATING is entered only by an S1F14 with COMMACK 0 in WAIT_CRA or by an inbound S1F13 answered "
               "with COMMACK 0; a refused or undecodable S1F14 goes to WAIT_DELAY; S1F13 is answered by exactly one S1F14 (request's system bytes, that code, "
               "the role's MDLN list); nothing reaches the stream/function callbacks unless COMMUNICATING, where every message does exactly once; "
               "GemHandler.on_connection_closed leaves COMMUNICATING on link loss; GemHandler._on_communicating starts the attempt only from NOT_COMMUNICATING. "
               "(FD) the assumed contracts of the five CommunicationStateMachine transitions are validated on real handlers from every state; every "
               "(role, state, event) step incl. T3 / delay timer expiry (virtual timers) and the retry loop are executed on real handlers.")
ASSUMPTIONS = [
    "call-outs assumed at call sites of the VC units: CommunicationStateMachine transitions (validated by FD), on_commack_requested (any code), catalogue lookup / construction of S1F14, "
    "Protocol.send_response (records the reply), StreamsFunctions.decode of an inbound S1F14 (the COMMACK its body denotes, or raises), SecsHandler._handle_stream_function (counted; its behaviour is C08)",

    "oracle: DESIGN.md Appendix A.2 (A-ORACLE)", "harness: MemConnection, SyncDispatcher, VirtualTimer",
    "stale S1F14 matching is not judged",
]
