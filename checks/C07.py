from pyvc.runner import register_modules

register_modules("C07", "bounded.C07_api")
LEVEL = "other"
EXPLANATION = ("Finite-domain contract: all (role, communication state, event) steps of the establish-communications model are "
               "executed on the real handlers with virtual timers and compared with the E30 clauses; the retry cycle is iterated. "
               "The per-step result extends to every history because the handlers read only the communication state, the link "
               "state and the pending timers.")
ASSUMPTIONS = [
    "oracle: DESIGN.md Appendix A.2 (A-ORACLE)", "harness: MemConnection, SyncDispatcher, VirtualTimer",
    "stale S1F14 matching is not judged",
]
