from pyvc.runner import register_modules

register_modules("C03", "bounded.C03_api")
LEVEL = "other"
EXPLANATION = ("Exhaustive tables over the finite catalogue (134 functions, 124 data items, YAML) plus an audit that ties every data item "
               "to the codec functions proved under C01/C02, plus a bounded generated round trip through the public API for all 134 functions.")
ASSUMPTIONS = ["yaml.safe_load", "leaf codec contracts: C01/C02; structure shapes: C19",
               "plain-value kinds follow the E5 format (A/J str, B bytes, BOOLEAN bool, U*/I* int, F* float, L list/dict); conversions the library additionally offers are not judged",
               "get() collapses single-element numeric / boolean / binary values (documented behaviour)"]
