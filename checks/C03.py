from pyvc.runner import register_modules

register_modules("C03", "contracts.C03_lookup", "bounded.C03_api")
LEVEL = "other"
EXPLANATION = ("(VC, z3) StreamsFunctions.function for ALL integers (stream, function) over the shipped catalogue: exactly the class with these numbers, "
               "None when there is none, never ambiguous; StreamsFunctions.decode: an object of exactly that class decoded from exactly the body, "
               "ValueError exactly for uncatalogued numbers (object construction and value decoding are call-outs: C01/C02/C19).  "
               "Exhaustive tables over the finite catalogue (134 functions, 124 data items, YAML) plus an audit that ties every data item "
               "to the codec functions proved under C01/C02, plus a bounded generated round trip through the public API for all 134 functions.")
ASSUMPTIONS = ["yaml.safe_load", "leaf codec contracts: C01/C02; structure shapes: C19",
               "plain-value kinds follow the E5 format (A/J str, B bytes, BOOLEAN bool, U*/I* int, F* float, L list/dict); conversions the library additionally offers are not judged",
               "get() collapses single-element numeric / boolean / binary values (documented behaviour)"]
