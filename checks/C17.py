from pyvc.runner import register_modules

register_modules("C17", "contracts.C17_line", "bounded.C17_api")
LEVEL = "other"
EXPLANATION = (
    "Per-endpoint step contracts on the real handshake loops, discharged as VCs in the ghost-stream view (every chunking "
    "of the line): SecsIProtocol._process_received_data answers each announced block EOT first, reads exactly length+3 "
    "bytes, hands the decoded block to the dispatcher (in order, once, only with EOT as the last byte on the line and a "
    "right checksum) and then writes ACK, or writes NAK without handing over and stops; "
    "SecsIProtocol._process_send_queue announces each pending block by ENQ, writes it only after the peer's EOT was "
    "consumed, resolves it with success exactly when the peer's answer is ACK, never parks in Queue.get and ends with the "
    "queue drained.  ByteQueue.pop_byte / wait_for_byte are verified on the real methods.  The composition of the two "
    "endpoints (the sender's assumption 'the peer answers EOT then one byte' is the receiver's guarantee), multi-block "
    "reassembly and the return value of send_message are covered by the bounded two-endpoint pass only."
)
ASSUMPTIONS = [
    "A-BQ-ABS: at call sites ByteQueue.wait_for / wait_for_byte / pop_byte / __len__ are used through the ghost-stream contracts "
    "(justified by the contracts verified on the real methods: front consumption, no loss, no reordering under append-only interference)",
    "A-EXT: threading.Condition.wait_for(pred) returns only when pred() holds; while waiting other threads may only append to the buffer (rely) - used by the contract of the real ByteQueue.wait_for",
    "A-EXT: Connection.send_data appends its argument to the line; queue.Queue seen through AbsQueue (empty/get with a pending counter); "
    "BlockSendInfo.resolve and ProtocolDispatcher.queue_block are call-outs whose obligations are their `requires`",
    "A-HALF-DUPLEX: no contention (the peer does not announce a block while this side sends) - the property's own premise",
    "A-SECSI-LEN: every announced block has a length byte >= 10 (a length byte < 10 makes SecsIBlock.decode raise struct.error in the "
    "receiver thread; with no T1/T2 timeouts in the code a corrupted length byte stalls the line in either direction - outside the property's premise "
    "of checksum corruption, recorded in DESIGN.md)",
    "partial correctness: a wait for bytes that never arrive blocks (no T1/T2/T4 timeouts exist in the code)",
    "PS-CONGRUENCE lemma instances (arrays that agree below n have equal prefix sums; base/step proved in C16, induction schema outside the solver)",
    "block codec / checksum: C16's verified contract of SecsIBlock.decode used at the call site",
    "bounded two-endpoint pass: scope as stated in evidence.bounded",
]
