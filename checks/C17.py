from pyvc.runner import register_modules

register_modules("C17", "bounded.C17_api")
LEVEL = "exploration"
ASSUMPTIONS = ["half-duplex conforming peer (the other real endpoint)", "bounded scope as stated in evidence.bounded", "block codec / checksum: C16; ByteQueue: C04"]
