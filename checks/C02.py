from pyvc.runner import register_modules

# C02 is decided by the decode-direction contracts (every k in 1..3, all bit patterns) of C01's codec functions,
# re-registered under C02, plus the dispatch table (FD) and the reference-decoder pass (BND).
register_modules("C02", "contracts.C02_decode", "bounded.C01_api")
LEVEL = "proof"
ASSUMPTIONS = [
    "A-STRUCT / A-INT / A-SEQ as for C01; float<->bytes conversions are uninterpreted in the array VCs, their meaning enters through LemmaFloatBounds (proved over all 2^32 / 2^64 bit patterns)",
    "nested lists: Array.decode/List.decode with abstract children are covered by the bounded reference-decoder pass, not by an unbounded VC (see evidence.bounded)",
]
