from pyvc.runner import register_modules

register_modules("C19", "bounded.C19_api")
LEVEL = "exploration"
ASSUMPTIONS = ["reference reading spec/sfdl_ref.py written from docs/firststeps/sfdl.md", "bounded scope as stated in evidence.bounded"]
