from pyvc.runner import register_modules

register_modules("C19", "contracts.C19_sfdl", "bounded.C19_api")
LEVEL = "other"
EXPLANATION = ("(VC, z3) the validator SFDLTokenizer._process_tokens / _process_list_item_token (opening, item, data-item and closing "
               "steps inlined, mutual recursion through the two contracts) for EVERY element sequence (elements = heap region of symbolic "
               "size with symbolic texts): terminates (loop variant = elements left); a call that returns has consumed one segment '<' ... '>' "
               "that is bracket-balanced, produced one token per element with as many OPEN/CLOSE tokens as brackets and accepted no unknown "
               "data item name; otherwise SFDLParseError and no other exception - so a definition with a missing closing bracket or an "
               "unknown data item name is never silently accepted.  (FD) the assumed ghost view of the element list, the 134 catalogue "
               "definitions against the reference reader.  (BND) the character-level splitting (comments, whitespace) and the shape "
               "of the structure built from the tokens (records, open arrays, key names) on generated definitions.")
ASSUMPTIONS = [
    "the character loop parse_all (text -> elements; comments, whitespace) and the structure builder (tokens -> records / arrays / key names) are not under contract: bounded and FD passes only",
    "the element list is seen through a ghost cursor: available / pop / peek are assumed at call sites and checked natively for all short lists (FD element-list-methods)",
    "getattr(data_items, <name>, None) for a symbolic name is the uninterpreted predicate has_attr_text(name); used fact: attribute names of the module are identifiers",
    "exception objects are built without running SFDLParseError.__init__ (message text / source line lookup are not part of the contract)",
    "the top-level call with tokens=None differs from the verified call only by creating the list (FD top-level-call-creates-the-token-list)",
    "reference reading spec/sfdl_ref.py written from docs/firststeps/sfdl.md", "bounded scope as stated in evidence.bounded",
]
