from pyvc.runner import register_modules

register_modules("C15", "contracts.C15_sml", "bounded.C15_api")
LEVEL = "other"
EXPLANATION = ("(VC, z3) the recursive-descent reader of SML at the TOKEN level, for every token sequence (the tokens are a heap region of "
               "symbolic size, each with a symbolic text): SMLParser.get_token / peek_token, Item._read_length, Item._read_items (any "
               "sub-reader obeying the sub-reader contract), Item._read_item (dispatch over all registered type names, upper-casing of "
               "a symbolic text over-approximated), the token loops of ItemNumber / ItemB / ItemBOOLEAN / ItemStr and Item.from_sml for "
               "Item, L, U1, F4, A, B, BOOLEAN.  Proved: every loop consumes a token per iteration (variant = tokens left) and every "
               "recursive call starts later: termination; a reader that returns has consumed a bracket-balanced segment ending in a '>' "
               "token - an item is never returned for a segment with a missing closing bracket (the reader runs into the end of the "
               "tokens and raises); otherwise an exception.  (BND) the tokenizer, the values read and the round trip of printed items.")
ASSUMPTIONS = [
    "the tokenizer (text -> tokens, SMLParser.parse_all) is not under contract: its termination and what counts as a bracket inside quotes are exercised by the bounded pass only",
    "conversions of a token text (int(), float(), strip(), encode(), upper()) are over-approximated: they raise or yield SOME value; from Python's grammar of numeric literals only 'a text that converts is not empty and contains neither < nor >' is used",
    "the sub-reader parameter of _read_items is a call-out with the contract SubParserAbs; for the reader ItemL actually passes (ItemL._read_sml_token) these clauses are obligations of the unit ListMemberReader; that ItemL passes exactly this function is read off from_sml, not a generated obligation",
    "which exception a rejected text raises is not specified (may_raise = Exception: IndexError at the end of the tokens, ValueError from a conversion, SMLParseError): any exception counts as rejection",
    "the item constructors (validation of the values read) and SMLToken.exception are call-outs that do not touch the parser",
    "reference recogniser of the SML item grammar in bounded/C15_api.py", "bounded scope as stated in evidence.bounded",
]
