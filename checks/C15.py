from pyvc.runner import register_modules

register_modules("C15", "bounded.C15_api")
LEVEL = "exploration"
ASSUMPTIONS = ["reference recogniser of the SML item grammar in bounded/C15_api.py", "bounded scope as stated in evidence.bounded"]
