from pyvc.runner import register_modules

register_modules("C08", "contracts.C08_reply", "bounded.C08_api")
LEVEL = "other"
EXPLANATION = ("(VC) the real reply logic SecsHandler._handle_stream_function (with _handle_unknown_functions, the send_response wrapper and "
               "HsmsHeader.encode inlined) for ALL streams, functions, W-bits, system bytes and bodies: never more than one reply; every reply carries the "
               "request's system bytes; no callback -> S9F5 exactly when the W-bit is set; callback returns a function -> exactly that function once; returns "
               "None -> nothing; raises -> exactly one S<stream>F0. (FD) every catalogued primary x handler, registered callbacks of each kind, sequences on one "
               "handler, executed on real handlers end to end through the protocol (uncatalogued and malformed primaries included). "
               "Known finding D24: a primary without W-bit whose callback returns a function is answered anyway.")
ASSUMPTIONS = [
    "call-outs assumed at call sites of the VC unit: the callback registry (CallbackHandler.__contains__/__getattr__, any answer), the user callback (returns a function object, None, or raises), "
    "the catalogue lookup stream_function(s, f) and the construction of a function object (C03), Protocol.send_response records the reply handed to the protocol",
    "harness for FD: MemConnection, SyncDispatcher, VirtualTimer (substitutions from outside, repository untouched)",
    "user-registered callbacks are assumed to return the matching secondary; which secondary a library handler returns is checked only as function+1",
    "known finding D24: replies are sent for primaries without W-bit when the callback returns a message",
]
