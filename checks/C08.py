from pyvc.runner import register_modules

register_modules("C08", "bounded.C08_api")
LEVEL = "other"
EXPLANATION = ("Finite-domain contract on the real handlers: every catalogued primary (and uncatalogued/malformed ones) x W-bit x "
               "{equipment, host} is injected as an HSMS frame and the frames written back are compared with the reply rule; "
               "callback behaviours (reply / None / raise) and sequences are enumerated. Bodies and system bytes are samples.")
ASSUMPTIONS = [
    "harness: MemConnection, SyncDispatcher, VirtualTimer (substitutions from outside, repository untouched)",
    "user-registered callbacks are assumed to return the matching secondary; which secondary a library handler returns is checked only as function+1",
    "known finding D24: replies are sent for primaries without W-bit when the callback returns a message",
]
