from pyvc.runner import register_modules

register_modules("C01", "contracts.C01_variables", "contracts.C01_containers", "contracts.lemmas_float", "bounded.C01_api")
LEVEL = "proof"
ASSUMPTIONS = [
    "A-STRUCT: struct.pack/unpack behave as documented (big-endian standard sizes; 'f' rounds to nearest even and raises OverflowError on overflow); float<->bytes conversions are uninterpreted functions in the array VCs, their IEEE-754 meaning enters only through the lemmas LemmaFloatBounds proved over all bit patterns",
    "A-INT/A-SEQ: Python int is unbounded (SMT Int); bytes/list/slice/index semantics as encoded in pyvc, cross-checked against CPython",
]
