from pyvc.runner import register_modules

register_modules("C11", "bounded.C11_api")
LEVEL = "other"
EXPLANATION = ("Finite-domain contract: the complete step domain of the control model (states x remembered sub-state x events x probe "
               "outcome, plus ATTEMPT_ONLINE as observed pre-state and all initial configurations) is executed on the real handler "
               "and compared with the E30 table; induction over histories because every stable state is a start state.")
ASSUMPTIONS = ["oracle: DESIGN.md Appendix A.3 (A-ORACLE)", "harness: MemConnection + scripted peer, SyncDispatcher, VirtualTimer, inline collection-event threads"]
