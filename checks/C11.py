from pyvc.runner import register_modules

register_modules("C11", "contracts.C11_control", "bounded.C11_api")
LEVEL = "other"
EXPLANATION = ("(VC) StateModelsCapability._on_s01f15 / _on_s01f17 / _get_control_state_id for every control state and _on_control_state_attempt_online for every communication state and ANY probe reply header: acknowledge codes, which transition is requested, the EQUIPMENT_OFFLINE event, success of the on-line attempt exactly on an S1F2 reply. "
               "Finite-domain contract: the complete step domain of the control model (states x remembered sub-state x events x probe "
               "outcome, plus ATTEMPT_ONLINE as observed pre-state and all initial configurations) is executed on the real handler "
               "and compared with the E30 table; induction over histories because every stable state is a start state.")
ASSUMPTIONS = ["oracle: DESIGN.md Appendix A.3 (A-ORACLE)", "harness: MemConnection + scripted peer, SyncDispatcher, VirtualTimer, inline collection-event threads"]
