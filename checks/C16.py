from pyvc.runner import register_modules

register_modules("C16", "contracts.C16_secsi", "bounded.C16_api")
LEVEL = "proof"
ASSUMPTIONS = [
    "A-STRUCT / A-INT / A-SEQ",
    "prefix_sum is specified by PS(a,0)=0, PS(a,i)=PS(a,i-1)+a[i-1] (background axiom); the induction schema used for the update law is applied outside the solver",
    "Message._split_blocks / Protocol._add_message_block: bounded only",
]
