from pyvc.runner import register_modules

register_modules("C16", "contracts.C16_secsi", "bounded.C16_api")
LEVEL = "proof"
EXPLANATION = ("SecsIHeader.encode/decode bit-exact; Block.checksum (loop invariant, every data length); Block.encode/decode (decode accepts exactly consistent "
               "length byte + right checksum, then returns header and data); single-byte corruption lemma; Message._split_blocks for bodies of up to three "
               "blocks (every boundary length 0, 1, 243..245, 487..489, 731, 732 inside the symbolic ranges): count, partition, numbering, end bit, other "
               "fields preserved; Protocol._add_message_block for 0..2 open transactions: joins exactly the message with its system bytes in arrival order, "
               "returns it exactly on the end bit and forgets it, other transactions untouched (interleaving); SecsIMessage.data = concatenation of the "
               "blocks' data, complete = end bit of the last block.  Bounded pass: all boundary lengths up to the block limit, interleavings, every corruption position.")
ASSUMPTIONS = [
    "A-STRUCT / A-INT / A-SEQ",
    "prefix_sum is specified by PS(a,0)=0, PS(a,i)=PS(a,i-1)+a[i-1] (background axiom); the induction schema used for the update law is applied outside the solver",
    "Message._split_blocks, Protocol._add_message_block, SecsIMessage.data/complete: proved for bounded shapes only (bodies of up to 3 blocks; 0..2 open transactions of 1..2 blocks), "
    "contents / lengths inside a shape / system bytes / flags symbolic; larger shapes (up to the 32767-block limit, more interleaved transactions): bounded pass",
]
