from pyvc.runner import register_modules

register_modules("C05", "contracts.C05_session", "bounded.C05_api")
LEVEL = "other"
EXPLANATION = ("(VC) the real message handler HsmsProtocol._on_connection_message_received - with the nine __handle_hsms_requests* methods, "
               "the send_*_rsp helpers and the header/message constructors inlined - is verified against the E37 step table for every "
               "(SType, session state, closing flag) and ALL header field values (2^32 system bytes, session id, stream, function, W-bit, body) "
               "and any set of open transactions: next state, exactly one matching response / Reject with the request's system bytes, "
               "Reject 'not selected' for data outside SELECTED, delivery exactly once in SELECTED, responses routed to exactly the requester. "
               "(FD) the assumed contracts of ConnectionStateMachine.select/deselect are validated on the real machine from every state; all steps "
               "incl. connect / peer close / local disable are executed on a real protocol object in both connect modes; a frame audit shows no other "
               "code writes the session state. (BND) every history up to length 6 over {connect, close, Select/Deselect/Separate.req, data} and random "
               "longer histories run against the E37 oracle - this is what notices state that survives a disconnect (caches, flags). "
               "The schedule clause (a Select.req or data message already in flight when the connection is accepted) is a forced-interleaving "
               "FD obligation; other thread interleavings are not covered.")
ASSUMPTIONS = [
    "oracle: DESIGN.md Appendix A.1 (transcription of SEMI E37 from the property statement and the code's transition comments, A-ORACLE)",
    "call-outs assumed at call sites: Protocol.send_message records the frame handed to the send path; Queue.put_nowait on the requester's queue; "
    "EventProducer.fire; StreamsFunctions.decode (only used for logging) returns or raises; ConnectionStateMachine.select/deselect as validated by FD",
    "event handlers registered by the application do not re-enter the protocol (call-out contracts have no re-entrancy)",
    "Select.req in SELECTED / Deselect.req in NOT SELECTED: the response is sent, then WrongSourceStateError escapes to the dispatcher (state unchanged); "
    "the status byte E37 asks for in these cases is not part of the property and is not judged",
    "harness for FD/BND: MemConnection, SyncDispatcher, VirtualTimer; HsmsProtocol._send_select_req_thread neutralised in the harness process",
]
