from pyvc.runner import register_modules

register_modules("C05", "bounded.C05_api")
LEVEL = "other"
EXPLANATION = ("Finite-domain step contract: all (mode, session state, closing flag, SType, open-transaction relation) steps and the "
               "connect/close/disable steps are executed on the real HsmsProtocol and compared with the E37 table; the frame audit "
               "shows no other code writes the session state, so the per-step result extends to every history by induction. "
               "System bytes and message bodies are sampled (opaque parameters); thread interleavings are not covered.")
ASSUMPTIONS = [
    "oracle: DESIGN.md Appendix A.1 (transcription of SEMI E37 from the property statement and the code's transition comments, A-ORACLE)",
    "harness: MemConnection, SyncDispatcher, VirtualTimer; HsmsProtocol._send_select_req_thread neutralised in the harness process",
    "system bytes / bodies sampled at boundary values (handlers only copy, compare and use them as dict keys)",
]
