from pyvc.runner import register_modules

register_modules("C10", "contracts.C10_tcp", "bounded.C10_api")
LEVEL = "proof"
EXPLANATION = ("TcpConnection.send_data against the assumed POSIX contract of a non-blocking stream socket (any partial count, any error): True only after "
               "the ghost wire grew by exactly `data` - every message size, every pacing (loop invariant, unbounded).  HsmsProtocol._process_send_queue "
               "against that contract of send_data: frames are cut into 1 MiB chunks handed over in order, a frame is resolved with success exactly when "
               "the wire ends with all its bytes and with failure at the first refused chunk, after which the loop stops; never parks in get() "
               "(frames of 1 B .. 3 MiB, i.e. up to 3 chunks: bounded shape).  Loopback pass on real sockets for the end-to-end statement.")
ASSUMPTIONS = ["A-EXT: POSIX contract of socket.send / select.select (SocketSendExt)",
               "A-EXT: queue.Queue through AbsQueue (empty/get with a pending counter); BlockSendInfo.resolve is a call-out whose obligations are its `requires`",
               "send_data is used by _process_send_queue through the contract proved for it (SendDataUse restates SendData's postcondition plus 'False after any prefix')",
               "frames larger than 3 MiB (more than 3 chunks): bounded pass only"]
