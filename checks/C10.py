from pyvc.runner import register_modules

register_modules("C10", "contracts.C10_tcp", "bounded.C10_api")
LEVEL = "proof"
ASSUMPTIONS = ["A-EXT: POSIX contract of socket.send / select.select (SocketSendExt)"]
