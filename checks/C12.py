from pyvc.runner import register_modules

register_modules("C12", "contracts.C12_reports", "bounded.C12_api")
LEVEL = "other"
EXPLANATION = ("(VC, bounded shapes - table sizes and request lengths are case splits, every id is symbolic so every coincidence of requested and existing "
               "ids is covered) the real handlers of CollectionEventCapability: _on_s02f33 (define / delete-one / delete-all: DRACK 0 exactly when acceptable, "
               "refused => nothing changes, accepted => exactly the E5 effect incl. removal from every link and disappearance of emptied links), "
               "_on_s02f35 (LRACK, transactionality, append in request order, new links disabled), _set_ce_state (S2F37), _build_collection_event (no failing "
               "lookup under the consistency invariant, reports in link order with current values in variable order), _on_s06f15 (always S6F16); "
               "the invariant 'every linked report is defined' is a postcondition of the two mutating handlers under itself as precondition, i.e. an "
               "inductive invariant over any request sequence within the shapes.  (BND) all request sequences of length 2 after 5 prefixes, life cycles, "
               "random sequences on a real handler through real messages against a reference model: covers larger tables, histories, the trigger path.")
ASSUMPTIONS = [
    "shapes: 0..2 defined reports, 0..2 links of 1..2 reports, requests of 0..2 entries with 0..2 ids; entries of one request name distinct reports / events",
    "call-outs assumed: decode of the request delivers its records (C03), item.get(), value getters of status variables / data values (C13), construction of the reply",
    "A-KEY: decoded data items stand for their values as dictionary keys, in list membership and in comparisons",
    "bounded pass: reference model in bounded/C12_api.py (from the property statement and E5), scope as stated in evidence.bounded",
]
