from pyvc.runner import register_modules

register_modules("C12", "bounded.C12_api")
LEVEL = "exploration"
ASSUMPTIONS = ["oracle: DESIGN.md Appendix A.4 (A-ORACLE)", "bounded scope: 2 RPTIDs, 2 CEIDs, sequences of 2..3 requests from 5 start configurations + random sequences up to 8",
               "S2F37 with a mixed known/unknown CEID list is not judged"]
