"""pyvc: verification-condition generator over the real Python source of /repo (see DESIGN.md section 2)."""
