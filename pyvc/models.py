"""Models of builtins, of str/bytes/list/dict methods and of the struct module (assumptions A-SEQ, A-STRUCT, A-CODEC)."""
from __future__ import annotations

import builtins
import struct as _struct

import z3

from . import seqops
from .core import PyRaise
from .interp_call import STRUCT_CODES, _Gen, parse_struct_format
from .interp_stmt import _ItemsView
from .values import (BoundMethod, Closure, DictCell, EnumerateV, ExcV, F32, F64, MapCell, ObjCell, OldView, Opaque, RNE,
                     RangeV, Ref, SeqCell, SeqV, Sym, Unsupported, fpval, is_scalar, kind_of, mk, sort_of, to_term)


def _type_error(msg="type"):
    return PyRaise(ExcV(TypeError, (msg,)))


# ---------------------------------------------------------------------- isinstance / type
def pytype_of(I, v):
    """The Python type an engine value would have at run time."""
    if isinstance(v, Sym):
        return {"int": int, "bool": bool, "float": float}[v.kind]
    if isinstance(v, SeqV):
        return {"bytes": bytes, "bytearray": bytearray, "list": list, "tuple": tuple, "str": str}[v.kind]
    if isinstance(v, Ref):
        cell = I.path.cell(v)
        if isinstance(cell, ObjCell):
            return cell.cls
        if isinstance(cell, SeqCell):
            return {"list": list, "bytearray": bytearray}[cell.seq.kind]
        return dict
    if isinstance(v, OldView):
        return pytype_of(I, v.ref)
    if isinstance(v, Opaque):
        return v.pytype
    if isinstance(v, ExcV):
        return v.cls
    if isinstance(v, (BoundMethod, Closure)):
        return type(lambda: 0)
    return type(v)


def m_isinstance(I, args, kw):
    v, t = args
    classes = I.iter_concrete(t) if isinstance(t, SeqV) else [t]
    pt = pytype_of(I, v)
    out = False
    for c in classes:
        if not isinstance(c, type):
            raise Unsupported(f"isinstance against {c!r}")
        try:
            if issubclass(pt, c):
                out = True
        except TypeError:
            raise Unsupported("isinstance with generic alias")
    return out


def m_type(I, args, kw):
    if len(args) != 1:
        raise Unsupported("type() with 3 arguments")
    return pytype_of(I, args[0])


def m_len(I, args, kw):
    if isinstance(args[0], Ref):
        from .values import ElemListCell
        c1 = I.path.cell(args[0])
        if isinstance(c1, ElemListCell):
            n1 = seqops.length(c1.keys)
            return n1 if isinstance(n1, int) else mk("int", n1)
    if isinstance(args[0], OldView):
        from .values import ElemListCell
        c1 = I.old_heap.get(args[0].ref.addr)
        if isinstance(c1, ElemListCell):
            n1 = seqops.length(c1.keys)
            return n1 if isinstance(n1, int) else mk("int", n1)
    if isinstance(args[0], Ref):
        from .values import RegionListCell
        c0 = I.path.cell(args[0])
        if isinstance(c0, RegionListCell):
            return mk("int", I.path.cell(c0.region).n)
        if isinstance(c0, MapCell) and c0.n is not None:
            return mk("int", c0.n)
    (v,) = args
    if isinstance(v, OldView):
        cell = I.old_heap[v.ref.addr]
        if isinstance(cell, SeqCell):
            return seqops.length(cell.seq) if isinstance(seqops.length(cell.seq), int) else mk("int", seqops.length(cell.seq))
        raise Unsupported("len of old object")
    if isinstance(v, Ref):
        cell = I.path.cell(v)
        if isinstance(cell, DictCell):
            return len(cell.d)
        if isinstance(cell, MapCell):
            raise Unsupported("len of symbolic map")
        if isinstance(cell, ObjCell):
            m = I.find_method(cell.cls, "__len__")
            if m is None:
                raise _type_error("no len")
            return I.call_value(BoundMethod(m[0], v, m[1]), [], {})
    seq = I.as_seq(v)
    if seq is not None:
        n = seqops.length(seq)
        return n if isinstance(n, int) else mk("int", n)
    if isinstance(v, (Sym,)) or v is None or isinstance(v, (int, float)):
        raise _type_error("no len")
    if isinstance(v, Opaque):
        if v.pytype is str:
            n = z3.Int(I.path.fresh_name("oplen"))
            I.path.assume(n >= 0)
            return mk("int", n)
        raise Unsupported("len of opaque")
    try:
        return len(v)
    except TypeError:
        raise _type_error("no len")


def _seq_from_iterable(I, v, kind, elemcheck=None):
    """bytes(x) / bytearray(x) / list(x) / tuple(x)."""
    seq = I.as_seq(v)
    if seq is None:
        items = I.iter_concrete(v)
        seq = SeqV(kind, seqops.elem_kind_of_items(items) if items else None, items=items)
    return seq


def _check_byte_range(I, seq):
    """ValueError if an element is outside 0..255 (bytes()/bytearray() of an int sequence)."""
    if getattr(I, "spec_depth", 0) > 0 or getattr(I, "pure_depth", 0) > 0:
        return  # specification context: total functions, ranges are the spec's responsibility
    if seq.kind in ("bytes", "bytearray"):
        return
    if seq.kind == "str":
        raise _type_error("string argument without an encoding")
    if seq.items is not None:
        for it in seq.items:
            if isinstance(it, Sym):
                if it.kind != "int" and it.kind != "bool":
                    raise _type_error("not an integer")
                if it.kind == "int" and not I.path.decide(z3.And(it.t >= 0, it.t <= 255)):
                    raise PyRaise(ExcV(ValueError, ("byte must be in range(0, 256)",)))
            elif isinstance(it, (bool, int)):
                if not 0 <= int(it) <= 255:
                    raise PyRaise(ExcV(ValueError, ("byte must be in range(0, 256)",)))
            else:
                raise _type_error("not an integer")
        return
    if seq.elem not in ("int", "bool"):
        raise _type_error("not an integer")
    if seq.elem == "int":
        ok = seqops.all_elems(seq, lambda t: z3.And(t >= 0, t <= 255))
        if not I.path.decide(ok):
            raise PyRaise(ExcV(ValueError, ("byte must be in range(0, 256)",)))


def _int_elems(seq):
    """bool elements become ints when stored into bytes."""
    if seq.items is not None:
        return SeqV(seq.kind, "int", items=[(int(i) if isinstance(i, bool) else (mk("int", to_term(i, "int")) if isinstance(i, Sym) and i.kind == "bool" else i)) for i in seq.items])
    if seq.elem == "bool":
        i = z3.Int("b2i!i")
        return SeqV(seq.kind, "int", arr=z3.Lambda([i], z3.If(z3.Select(seq.arr, i), 1, 0)), length=seq.length)
    return seq


def m_bytes(I, args, kw):
    if not args:
        return b""
    v = args[0]
    if len(args) > 1 or kw:
        if isinstance(v, str):
            return v.encode(*args[1:], **kw)
        return str_encode(I, I.as_seq(v), args[1] if len(args) > 1 else kw.get("encoding"))
    if isinstance(v, (int, Sym)) and not isinstance(v, bool) and (not isinstance(v, Sym) or v.kind == "int"):
        if isinstance(v, int):
            if v < 0:
                raise PyRaise(ExcV(ValueError, ("negative count",)))
            return bytes(v)
        if not I.path.decide(v.t >= 0):
            raise PyRaise(ExcV(ValueError, ("negative count",)))
        i = z3.Int("z!i")
        return SeqV("bytes", "int", arr=z3.K(z3.IntSort(), z3.IntVal(0)), length=v.t)
    if isinstance(v, Ref) and isinstance(I.path.cell(v), ObjCell):
        m = I.find_method(I.path.cell(v).cls, "__bytes__")
        if m:
            return I.call_value(BoundMethod(m[0], v, m[1]), [], {})
        raise Unsupported("bytes(object)")
    seq = _seq_from_iterable(I, v, "bytes")
    _check_byte_range(I, seq)
    return I.box_seq(_int_elems(seq).with_kind("bytes"))


def m_bytearray(I, args, kw):
    if not args:
        return I.path.alloc(SeqCell(SeqV("bytearray", "int", items=[])))
    v = args[0]
    if isinstance(v, int) and not isinstance(v, bool):
        return I.path.alloc(SeqCell(SeqV("bytearray", "int", items=[0] * v)))
    if isinstance(v, Sym):
        raise Unsupported("bytearray(symbolic int)")
    if len(args) > 1:
        raise Unsupported("bytearray with encoding")
    seq = _seq_from_iterable(I, v, "bytearray")
    _check_byte_range(I, seq)
    return I.path.alloc(SeqCell(_int_elems(seq).with_kind("bytearray")))


def m_list(I, args, kw):
    if not args:
        return I.path.alloc(SeqCell(SeqV("list", None, items=[])))
    v = args[0]
    if isinstance(v, _Gen):
        return I.comprehension(v.node, v.frame, "list")
    seq = I.as_seq(v)
    if seq is not None:
        if seq.kind == "str":
            if seq.items is None:
                raise Unsupported("list(symbolic str)")
            return I.path.alloc(SeqCell(SeqV("list", None, items=[seqops._as_elem(seq, x) for x in seq.items])))
        return I.path.alloc(SeqCell(seq.with_kind("list")))
    items = I.iter_concrete(v)
    return I.path.alloc(SeqCell(SeqV("list", seqops.elem_kind_of_items(items) if items else None, items=items)))


def m_tuple(I, args, kw):
    if not args:
        return SeqV("tuple", None, items=[])
    seq = I.as_seq(args[0])
    if seq is not None and seq.kind != "str":
        return seq.with_kind("tuple")
    return SeqV("tuple", None, items=I.iter_concrete(args[0]))


def m_dict(I, args, kw):
    d = {}
    if args:
        src = args[0]
        if isinstance(src, Ref) and isinstance(I.path.cell(src), DictCell):
            d.update(I.path.cell(src).d)
        else:
            for pair in I.iter_concrete(src):
                k, v = I.iter_concrete(pair)
                d[I.hashable_key(k)] = v
    d.update(kw)
    return I.path.alloc(DictCell(d))


def _int_of_text(I, v):
    """int(<symbolic text>[, base]) where the contract does not speak about the value: ValueError, or some integer - and a
    text that converts is not empty and contains neither '<' nor '>' (no integer literal of any base does)."""
    if I.path.decide(z3.Bool(I.path.fresh_name("int_of_text_fails"))):
        raise PyRaise(ExcV(ValueError, ("invalid literal for int()",)))
    arr, n, _ = seqops.as_array(v)
    i = z3.Int(I.path.fresh_name("c"))
    I.path.assume(to_term(n, "int") >= 1)
    I.path.assume(z3.ForAll([i], z3.Implies(z3.And(i >= 0, i < to_term(n, "int")), z3.And(z3.Select(arr, i) != 0x3C, z3.Select(arr, i) != 0x3E))))
    return Sym("int", z3.Int(I.path.fresh_name("int_of_text")))


def m_int(I, args, kw):
    if not args:
        return 0
    v = args[0]
    if len(args) > 1 or kw:
        base = args[1] if len(args) > 1 else kw.get("base")
        if isinstance(v, (str, bytes)) and isinstance(base, int):
            try:
                return int(v, base)
            except ValueError as exc:
                raise PyRaise(ExcV(ValueError, exc.args))
        if getattr(I, "allow_text_conversions", False) and isinstance(v, SeqV) and v.kind in ("str", "bytes"):
            return _int_of_text(I, v)
        raise Unsupported("int(symbolic, base)")
    if isinstance(v, Sym):
        if v.kind == "int":
            return v
        if v.kind == "bool":
            return mk("int", to_term(v, "int"))
        if v.kind == "float":
            # int(float): truncation; NaN/inf raise
            if not I.path.decide(z3.Not(z3.Or(z3.fpIsNaN(v.t), z3.fpIsInf(v.t)))):
                raise PyRaise(ExcV(ValueError, ("cannot convert float NaN/inf to integer",)))
            r = z3.fpToReal(z3.fpRoundToIntegral(z3.RTZ(), v.t))
            return mk("int", z3.ToInt(r))
    if isinstance(v, (SeqV, Opaque)):
        if isinstance(v, SeqV) and v.kind in ("str", "bytes"):
            p = seqops.to_py(v)
            if p is not None:
                try:
                    return int(p)
                except ValueError as exc:
                    raise PyRaise(ExcV(ValueError, exc.args))
            if getattr(I, "allow_text_conversions", False):
                # contracts that do not speak about the VALUE read from a text (C15 token readers) opt in to the
                # over-approximation: the conversion either raises ValueError or yields some integer
                return _int_of_text(I, v)
            raise Unsupported("int(symbolic text)")
        raise _type_error("int() argument")
    if isinstance(v, Ref):
        cell = I.path.cell(v)
        if isinstance(cell, ObjCell):
            for name in ("__int__", "__index__"):
                m = I.find_method(cell.cls, name)
                if m:
                    return I.call_value(BoundMethod(m[0], v, m[1]), [], {})
        raise _type_error("int() argument")
    try:
        return int(v)
    except (ValueError, TypeError, OverflowError) as exc:
        raise PyRaise(ExcV(type(exc), exc.args))


def m_float(I, args, kw):
    if not args:
        return 0.0
    v = args[0]
    if isinstance(v, Sym):
        if v.kind == "float":
            return v
        if v.kind == "int":
            # OverflowError for |v| >= 2**1024 (rounding boundary ignored: stated in A-FLOAT)
            lim = 2 ** 1024
            if not I.path.decide(z3.And(v.t > -lim, v.t < lim)):
                raise PyRaise(ExcV(OverflowError, ("int too large to convert to float",)))
            return Sym("float", to_term(v, "float"))
        return Sym("float", to_term(v, "float"))
    if isinstance(v, (SeqV, Opaque)):
        if isinstance(v, SeqV) and v.kind in ("str", "bytes"):
            p = seqops.to_py(v)
            if p is not None:
                try:
                    return float(p)
                except ValueError as exc:
                    raise PyRaise(ExcV(ValueError, exc.args))
            if getattr(I, "allow_text_conversions", False):
                # as _int_of_text: ValueError, or some float; a text that converts contains neither '<' nor '>'
                if I.path.decide(z3.Bool(I.path.fresh_name("float_of_text_fails"))):
                    raise PyRaise(ExcV(ValueError, ("could not convert string to float",)))
                arr, n, _ = seqops.as_array(v)
                i = z3.Int(I.path.fresh_name("c"))
                I.path.assume(to_term(n, "int") >= 1)
                I.path.assume(z3.ForAll([i], z3.Implies(z3.And(i >= 0, i < to_term(n, "int")), z3.And(z3.Select(arr, i) != 0x3C, z3.Select(arr, i) != 0x3E))))
                return Sym("float", z3.FP(I.path.fresh_name("float_of_text"), sort_of("float")))
            raise Unsupported("float(symbolic text)")
        raise _type_error("float() argument")
    if isinstance(v, Ref):
        raise _type_error("float() argument")
    try:
        return float(v)
    except (ValueError, TypeError, OverflowError) as exc:
        raise PyRaise(ExcV(type(exc), exc.args))


def m_bool(I, args, kw):
    if not args:
        return False
    t = I.truthy(args[0])
    return t if isinstance(t, bool) else mk("bool", t)


def m_str(I, args, kw):
    if not args:
        return ""
    v = args[0]
    if isinstance(v, str):
        return v
    if isinstance(v, SeqV) and v.kind == "str":
        return v
    if isinstance(v, (Sym, SeqV, Ref, Opaque)):
        if len(args) > 1:
            seq = I.as_seq(v)
            if seq is not None and seq.kind in ("bytes", "bytearray"):
                return str_decode(I, seq, args[1])
        return Opaque(str, "str()")
    try:
        return str(v, *args[1:], **kw)
    except Exception as exc:
        raise PyRaise(ExcV(type(exc), exc.args))


def m_repr(I, args, kw):
    v = args[0]
    if isinstance(v, (Sym, SeqV, Ref, Opaque)):
        return Opaque(str, "repr()")
    return repr(v)


def m_range(I, args, kw):
    if len(args) == 1:
        lo, hi, st = 0, args[0], 1
    elif len(args) == 2:
        lo, hi, st = args[0], args[1], 1
    else:
        lo, hi, st = args
    if isinstance(st, Sym):
        raise Unsupported("range with symbolic step")
    return RangeV(lo, hi, st)


def m_enumerate(I, args, kw):
    return EnumerateV(args[0], args[1] if len(args) > 1 else kw.get("start", 0))


def m_minmax(which):
    def f(I, args, kw):
        vals = args
        if len(args) == 1:
            vals = I.iter_concrete(args[0])
        if not vals:
            raise PyRaise(ExcV(ValueError, ("empty",)))
        cur = vals[0]
        for v in vals[1:]:
            c = I.order("<" if which == "min" else ">", v, cur)
            if isinstance(c, bool):
                cur = v if c else cur
            else:
                k = "float" if "float" in (kind_of(v), kind_of(cur)) else "int"
                t = z3.If(c.t, to_term(v, k), to_term(cur, k))
                cur = mk(k, t) if k == "int" else Sym("float", t)
        return cur
    return f


def m_allany(is_all):
    def f(I, args, kw):
        (src,) = args
        if isinstance(src, _Gen):
            node, frame = src.node, src.frame
            if len(node.generators) != 1 or node.generators[0].ifs:
                items = I.iter_concrete(I.comprehension(node, frame, "list"))
                return _fold(I, items, is_all)
            gen = node.generators[0]
            it = I.eval(gen.iter, frame)
            items = I.try_iter_concrete(it)
            sub = I.new_frame_like(frame)
            if items is not None:
                # short-circuit semantics (the element expression may raise)
                for x in items:
                    I.assign_target(gen.target, x, sub)
                    r = I.branch(I.eval(node.elt, sub))
                    if r != is_all:
                        return r
                return is_all
            getter, count = I.indexer(it)
            i = z3.Int(I.path.fresh_name("q"))
            I.assign_target(gen.target, getter(mk("int", i)), sub)
            rng = z3.And(i >= 0, i < to_term(count, "int"))
            from .interp_call import NoFeasiblePath
            try:
                val = I.pure(lambda: _as_boolsym(I, I.eval(node.elt, sub)), assume=rng)
            except NoFeasiblePath:
                return is_all
            body = to_term(val, "bool")
            if is_all:
                return mk("bool", z3.ForAll([i], z3.Implies(rng, body)))
            return mk("bool", z3.Exists([i], z3.And(rng, body)))
        items = I.try_iter_concrete(src)
        if items is None:
            seq = I.as_seq(src)
            pred = (lambda t: t) if seq.elem == "bool" else (lambda t: t != 0)
            if is_all:
                return mk("bool", seqops.all_elems(seq, pred))
            return mk("bool", z3.Not(seqops.all_elems(seq, lambda t: z3.Not(pred(t)))))
        return _fold(I, items, is_all)
    return f


def _as_boolsym(I, v):
    t = I.truthy(v)
    return t if isinstance(t, bool) else Sym("bool", t)


def _fold(I, items, is_all):
    ts = []
    for x in items:
        t = I.truthy(x)
        if isinstance(t, bool):
            if t != is_all:
                return t
        else:
            ts.append(t)
    if not ts:
        return is_all
    return mk("bool", z3.And(*ts) if is_all else z3.Or(*ts))


def m_sum(I, args, kw):
    items = I.iter_concrete(args[0])
    cur = args[1] if len(args) > 1 else 0
    import ast
    for x in items:
        cur = I.binop(ast.Add, cur, x)
    return cur


def m_abs(I, args, kw):
    v = args[0]
    if isinstance(v, Sym):
        if v.kind == "float":
            return Sym("float", z3.fpAbs(v.t))
        t = to_term(v, "int")
        return mk("int", z3.If(t < 0, -t, t))
    return abs(v)


def m_next(I, args, kw):
    """next(<generator expression>[, default]) - only for a generator expression that has not been touched since it was
    created (the engine reads it eagerly as a list): its first item, else the default, else StopIteration."""
    from .core import PyRaise
    g = args[0]
    fresh = I.path.ghost.get("genexp", set())
    if not isinstance(g, Ref) or g.addr not in fresh:
        raise Unsupported("next() on anything but a fresh generator expression")
    fresh.discard(g.addr)
    items = I.iter_concrete(g)
    if items:
        return items[0]
    if len(args) > 1:
        return args[1]
    raise PyRaise(ExcV(StopIteration, ()))


def m_divmod(I, args, kw):
    """divmod(a, b) == (a // b, a % b) - read through the engine's own // and % (constant positive divisor for symbolic a)."""
    import ast
    a, b = args
    if not isinstance(a, Sym) and not isinstance(b, Sym):
        return I.lift(divmod(a, b))
    return SeqV("tuple", None, items=[I.binop(ast.FloorDiv, a, b), I.binop(ast.Mod, a, b)])


def m_hasattr(I, args, kw):
    obj, name = args
    try:
        I.get_attr(obj, name)
        return True
    except PyRaise as pr:
        if issubclass(pr.exc.cls, AttributeError):
            return False
        raise


def has_attr_fn(obj):
    """Uninterpreted predicate 'the module / class obj has an attribute with this name' over symbolic texts."""
    name = getattr(obj, "__name__", None) or f"obj{id(obj)}"
    return z3.Function(f"hasattr!{name}", z3.ArraySort(z3.IntSort(), z3.IntSort()), z3.IntSort(), z3.BoolSort())


def m_getattr(I, args, kw):
    obj, name = args[0], args[1]
    if isinstance(name, SeqV) and seqops.to_py(name) is None and len(args) > 2 and getattr(I, "allow_text_conversions", False) \
            and not isinstance(obj, (Ref, Sym, SeqV)):
        # lookup of a SYMBOLIC name in a live module / class (contracts that do not speak about the value found): the default
        # when the uninterpreted predicate has_attr(name) is false, else some object
        arr, n, _ = seqops.as_array(name)
        if not all(isinstance(k, str) and k.isidentifier() for k in vars(obj)):
            raise Unsupported("symbolic getattr on an object whose attribute names are not all identifiers")
        if I.path.decide(has_attr_fn(obj)(arr, to_term(n, "int"))):
            # every attribute name of obj is an identifier: it starts with a letter or an underscore (or a non-ASCII letter)
            c0 = z3.Select(arr, 0)
            I.path.assume(z3.And(to_term(n, "int") >= 1, z3.Or(z3.And(c0 >= 65, c0 <= 90), z3.And(c0 >= 97, c0 <= 122), c0 == 95, c0 >= 128)))
            return Opaque(object, "attribute looked up by a symbolic name")
        return args[2]
    try:
        return I.get_attr(obj, name)
    except PyRaise as pr:
        if issubclass(pr.exc.cls, AttributeError) and len(args) > 2:
            return args[2]
        raise


def m_setattr(I, args, kw):
    I.set_attr(args[0], args[1], args[2])


def m_ord(I, args, kw):
    v = args[0]
    if isinstance(v, SeqV) and v.kind == "str" and v.items is not None and len(v.items) == 1:
        return v.items[0]
    if isinstance(v, str):
        return ord(v)
    raise Unsupported("ord of symbolic string")


def m_chr(I, args, kw):
    v = args[0]
    if isinstance(v, Sym):
        return SeqV("str", "int", items=[v])
    return chr(v)


def m_hex(I, args, kw):
    if isinstance(args[0], Sym):
        return Opaque(str, "hex()")
    return hex(args[0])


def m_hash(I, args, kw):
    v = args[0]
    if isinstance(v, Ref) and isinstance(I.path.cell(v), ObjCell):
        m = I.find_method(I.path.cell(v).cls, "__hash__")
        if m and m[1] is not object:
            return I.call_value(BoundMethod(m[0], v, m[1]), [], {})
    if isinstance(v, (Sym, SeqV, Opaque, Ref)):
        return Opaque(int, "hash()")
    return hash(v)


def m_print(I, args, kw):
    return None


def m_sorted(I, args, kw):
    items = I.iter_concrete(args[0])
    if any(isinstance(i, (Sym, SeqV, Ref)) for i in items) or kw:
        raise Unsupported("sorted on symbolic items")
    return I.lift(sorted(items))


def m_zip(I, args, kw):
    cols = [I.iter_concrete(a) for a in args]
    return _ItemsView([SeqV("tuple", None, items=list(t)) for t in zip(*cols)])


def m_reversed(I, args, kw):
    return _ItemsView(list(reversed(I.iter_concrete(args[0]))))


def m_callable(I, args, kw):
    v = args[0]
    if isinstance(v, (BoundMethod, Closure)):
        return True
    if isinstance(v, (Sym, SeqV, Opaque)):
        return False
    if isinstance(v, Ref):
        cell = I.path.cell(v)
        return isinstance(cell, ObjCell) and I.find_method(cell.cls, "__call__") is not None
    return callable(v)


def m_issubclass(I, args, kw):
    a, b = args
    classes = I.iter_concrete(b) if isinstance(b, SeqV) else [b]
    return any(issubclass(a, c) for c in classes)


def m_id(I, args, kw):
    v = args[0]
    if isinstance(v, Ref):
        return v.addr
    return id(v)


# ---------------------------------------------------------------------- codecs
def _coding_name(coding):
    if not isinstance(coding, str):
        raise Unsupported("symbolic codec name")
    return coding.lower().replace("_", "-")


def str_encode(I, seq, coding, errors=None):
    name = _coding_name(coding or "utf-8")
    if name in ("latin-1", "latin1", "iso-8859-1"):
        limit = 255
    elif name in ("ascii", "us-ascii"):
        limit = 127
    else:
        p = seqops.to_py(seq)
        if p is not None:
            try:
                return p.encode(coding)
            except UnicodeEncodeError as exc:
                raise PyRaise(ExcV(UnicodeEncodeError, exc.args))
        tab = I.codec_tables.get(name)
        if tab is None:
            raise Unsupported(f"codec {coding}")
        return _charmap(I, seq, tab["encode"], "bytes", UnicodeEncodeError, 0x110000)
    ok = seqops.all_elems(seq, lambda t: t <= limit)
    if not I.path.decide(z3.simplify(ok)):
        raise PyRaise(ExcV(UnicodeEncodeError, (name, "", 0, 1, "ordinal not in range")))
    return I.box_seq(seq.with_kind("bytes"))


def str_decode(I, seq, coding, errors=None):
    name = _coding_name(coding or "utf-8")
    if name in ("latin-1", "latin1", "iso-8859-1"):
        return I.box_seq(seq.with_kind("str"))
    if name in ("ascii", "us-ascii"):
        ok = seqops.all_elems(seq, lambda t: t <= 127)
        if not I.path.decide(z3.simplify(ok)):
            raise PyRaise(ExcV(UnicodeDecodeError, (name, b"", 0, 1, "ordinal not in range")))
        return I.box_seq(seq.with_kind("str"))
    p = seqops.to_py(seq.with_kind("bytes"))
    if p is not None:
        try:
            return p.decode(coding)
        except UnicodeDecodeError as exc:
            raise PyRaise(ExcV(UnicodeDecodeError, exc.args))
    tab = I.codec_tables.get(name)
    if tab is None:
        raise Unsupported(f"codec {coding}")
    return _charmap(I, seq, tab["decode"], "str", UnicodeDecodeError, 256)


def _charmap(I, seq, table, kind, exc_cls, domain):
    """Apply a finite code table element-wise (table: dict int->int); elements outside raise."""
    keys = sorted(table)

    def in_dom(t):
        return z3.Or(*[t == k for k in keys]) if len(keys) < 40 else _in_ranges(t, keys)

    def apply(t):
        out = z3.IntVal(0)
        for lo, hi, delta in _runs(table):
            out = z3.If(z3.And(t >= lo, t <= hi), t + delta, out)
        return out

    ok = seqops.all_elems(seq, in_dom)
    if not I.path.decide(z3.simplify(ok)):
        raise PyRaise(ExcV(exc_cls, ("charmap", b"" if exc_cls is UnicodeDecodeError else "", 0, 1, "character maps to <undefined>")))
    if seq.items is not None:
        return I.box_seq(SeqV(kind, "int", items=[mk("int", apply(to_term(x, "int"))) for x in seq.items]))
    i = z3.Int("cm!i")
    return SeqV(kind, "int", arr=z3.Lambda([i], apply(z3.Select(seq.arr, i))), length=seq.length)


def _runs(table):
    """[(lo, hi, delta)] maximal runs of keys with constant value-key offset."""
    runs = []
    for k in sorted(table):
        d = table[k] - k
        if runs and runs[-1][1] == k - 1 and runs[-1][2] == d:
            runs[-1] = (runs[-1][0], k, d)
        else:
            runs.append((k, k, d))
    return runs


def _in_ranges(t, keys):
    rs = []
    for k in keys:
        if rs and rs[-1][1] == k - 1:
            rs[-1] = (rs[-1][0], k)
        else:
            rs.append((k, k))
    return z3.Or(*[z3.And(t >= a, t <= b) for a, b in rs])


# ---------------------------------------------------------------------- methods of sequences, dicts, strings
def call_model_method(I, tag, self_val, args, kw):
    fam, name = tag
    if fam == "native":
        raise Unsupported(f"native method {name}")
    if fam == "seq":
        return seq_method(I, self_val, name, args, kw)
    if fam == "dict":
        return dict_method(I, self_val, name, args, kw)
    if fam == "str":
        return str_method(I, self_val, name, args, kw)
    if fam == "elist":
        from .values import ElemListCell, MapElem
        cell = I.path.cell(self_val)
        if name == "append" and isinstance(args[0], MapElem) and args[0].map_ref.addr == cell.region.addr:
            cell.keys = seqops.append(cell.keys, mk("int", args[0].key))
            return None
        if name == "__len__":
            return m_len(I, [self_val], {})
        raise Unsupported(f"list-of-region-objects method {name}")
    if fam == "int" and name == "to_bytes":
        length = args[0] if args else kw.get("length", 1)
        order = args[1] if len(args) > 1 else kw.get("byteorder", "big")
        if length != 1 or isinstance(order, (Sym, SeqV)) or kw.get("signed"):
            raise Unsupported("int.to_bytes other than one unsigned byte")
        t = to_term(self_val, "int")
        if not I.path.decide(z3.And(t >= 0, t <= 255)):
            raise PyRaise(ExcV(OverflowError, ("int too big to convert",)))
        return SeqV("bytes", "int", items=[self_val])
    raise Unsupported(f"method {tag}")


def str_method(I, s, name, args, kw):
    if name == "encode" and (any(isinstance(a, (Sym, SeqV)) for a in args) is False):
        try:
            return s.encode(*args, **kw)
        except UnicodeEncodeError as exc:
            raise PyRaise(ExcV(UnicodeEncodeError, exc.args))
        except LookupError:
            return str_encode(I, seqops.from_py(s), args[0] if args else kw.get("encoding"))
    if name == "decode":
        try:
            return s.decode(*args, **kw)
        except UnicodeDecodeError as exc:
            raise PyRaise(ExcV(UnicodeDecodeError, exc.args))
    if name == "join":
        items = I.iter_concrete(args[0])
        if all(isinstance(i, (str, bytes)) for i in items):
            return s.join(items)
        if any(isinstance(i, Opaque) for i in items):
            return Opaque(type(s), "join")
        import ast
        out = seqops.from_py(s[:0])
        for n, it in enumerate(items):
            if n:
                out = seqops.concat(out, seqops.from_py(s))
            out = seqops.concat(out, I.as_seq(it))
        return I.box_seq(out)
    if name == "format":
        if any(isinstance(a, (Sym, SeqV, Ref, Opaque)) for a in list(args) + list(kw.values())):
            return Opaque(str, "format")
        return s.format(*args, **kw)
    cargs = []
    for a in args:
        if isinstance(a, SeqV):
            p = seqops.to_py(a)
            if p is None:
                raise Unsupported(f"str.{name} with symbolic argument")
            a = p
        elif isinstance(a, (Sym, Ref, Opaque)):
            raise Unsupported(f"str.{name} with symbolic argument")
        cargs.append(a)
    try:
        return I.lift(getattr(s, name)(*cargs, **kw))
    except (ValueError, TypeError) as exc:
        raise PyRaise(ExcV(type(exc), exc.args))


def seq_method(I, recv, name, args, kw):
    path = I.path
    cell = path.cell(recv) if isinstance(recv, Ref) else None
    seq = cell.seq if cell is not None else recv
    if name == "append":
        from .values import ElemListCell, MapElem
        if isinstance(args[0], MapElem) and seq.kind == "list" and seq.items is not None and not seq.items:
            # the first object of a heap region appended to an empty list: from now on a list of region objects
            I.path.heap[recv.addr] = ElemListCell(args[0].map_ref, SeqV("list", "int", items=[mk("int", args[0].key)]))
            return None
        cell.seq = seqops.append(seq, args[0])
        return None
    if name == "extend":
        other = I.as_seq(args[0])
        if other is None:
            other = SeqV("list", None, items=I.iter_concrete(args[0]))
        cell.seq = seqops.concat(seq, other, seq.kind)
        return None
    if name == "clear":
        cell.seq = SeqV(seq.kind, seq.elem, items=[])
        return None
    if name == "copy":
        return path.alloc(SeqCell(seq))
    if name == "decode":
        return str_decode(I, seq, args[0] if args else kw.get("encoding", "utf-8"))
    if name == "encode":
        return str_encode(I, seq, args[0] if args else kw.get("encoding", "utf-8"))
    if name == "pop":
        if seq.items is not None and (not args or isinstance(args[0], int)):
            items = list(seq.items)
            try:
                v = items.pop(*args)
            except IndexError:
                raise PyRaise(ExcV(IndexError, ("pop from empty list",)))
            cell.seq = SeqV(seq.kind, seq.elem, items=items)
            return v
        if not args:
            n = seqops.len_term(seq)
            if not path.decide(n > 0):
                raise PyRaise(ExcV(IndexError, ("pop from empty list",)))
            v = seqops.select(seq, z3.simplify(n - 1))
            cell.seq = SeqV(seq.kind, seq.elem, arr=seq.arr, length=z3.simplify(n - 1))
            return v
        if args[0] == 0:
            n = seqops.len_term(seq)
            if not path.decide(n > 0):
                raise PyRaise(ExcV(IndexError, ("pop from empty list",)))
            v = seqops.select(seq, z3.IntVal(0))
            cell.seq = seqops.slice_(seq, 1, None)
            return v
        raise Unsupported("pop at symbolic index")
    if name == "insert":
        if seq.items is not None and isinstance(args[0], int):
            items = list(seq.items)
            items.insert(args[0], args[1])
            cell.seq = SeqV(seq.kind, seqops.elem_kind_of_items(items), items=items)
            return None
        raise Unsupported("insert on symbolic list")
    if name == "remove":
        if seq.items is None:
            raise Unsupported("remove on symbolic-length list")
        items = list(seq.items)
        for k, it in enumerate(items):
            if I.branch(I.equals(it, args[0])):
                del items[k]
                cell.seq = SeqV(seq.kind, seq.elem, items=items)
                return None
        raise PyRaise(ExcV(ValueError, ("list.remove(x): x not in list",)))
    if name == "index":
        if seq.items is None:
            raise Unsupported("index on symbolic-length list")
        for k, it in enumerate(seq.items):
            if I.branch(I.equals(it, args[0])):
                return k
        raise PyRaise(ExcV(ValueError, ("not in list",)))
    if name == "count":
        if seq.items is None:
            raise Unsupported("count on symbolic-length list")
        import ast
        n = 0
        for it in seq.items:
            c = I.equals(it, args[0])
            n = I.binop(ast.Add, n, c if isinstance(c, bool) else mk("int", to_term(c, "int")))
        return n
    if name in ("upper", "lower", "strip", "startswith", "endswith", "split", "hex", "isdigit", "replace", "find", "rstrip", "lstrip"):
        p = seqops.to_py(seq)
        if p is not None:
            return str_method(I, p, name, args, kw)
        if name == "startswith" and len(args) == 1 and isinstance(args[0], (str, bytes)) and len(args[0]) == 1:
            arr, n, _ = seqops.as_array(seq)
            return mk("bool", z3.And(to_term(n, "int") >= 1, z3.Select(arr, 0) == (ord(args[0]) if isinstance(args[0], str) else args[0][0])))
        if name in ("strip", "lstrip", "rstrip") and getattr(I, "allow_text_conversions", False):
            # value abstracted (see text_conversions_abstracted): some text of the same kind
            return seqops.fresh(I.path, seq.kind, "int", seq.kind + "." + name, register=False)
        if name in ("upper", "lower") and seq.kind == "str" and not args:
            # symbolic text: some text u; when every character is ASCII, u has the same length and the ASCII letters mapped.
            # Nothing is said otherwise (Unicode case mapping changes lengths and can yield ASCII letters: 'ſ'.upper() == 'S')
            arr, n, _ = seqops.as_array(seq)
            memo = I.path.ghost.setdefault("case_map", {})
            mkey = (name, arr.get_id(), n.get_id() if hasattr(n, "get_id") else n)
            if mkey in memo:
                return memo[mkey][0]        # the same text maps to the same text (str.upper is a function)
            u = seqops.fresh(I.path, "str", "int", "str." + name, register=False)
            memo[mkey] = (u, arr, n)
            ua, un, _ = seqops.as_array(u)
            i = z3.Int(I.path.fresh_name("u"))
            lo, hi, d = (97, 122, -32) if name == "upper" else (65, 90, 32)
            c = z3.Select(arr, i)
            ascii_all = z3.ForAll([i], z3.Implies(z3.And(i >= 0, i < n), c < 128))
            mapped = z3.ForAll([i], z3.Implies(z3.And(i >= 0, i < n), z3.Select(ua, i) == z3.If(z3.And(c >= lo, c <= hi), c + d, c)))
            I.path.assume(z3.Implies(ascii_all, z3.And(un == n, mapped)))
            return u
        raise Unsupported(f"{seq.kind}.{name} on symbolic value")
    if name == "join":
        p = seqops.to_py(seq)
        if p is not None:
            return str_method(I, p, name, args, kw)
    if name == "__len__":
        return m_len(I, [recv], {})
    raise Unsupported(f"sequence method {name}")


def dict_method(I, recv, name, args, kw):
    if isinstance(recv, OldView):
        # read-only view of the pre-state (contracts): values come back as pre-state views
        cell = I.old_heap[recv.ref.addr]
        wrap = lambda v: OldView(v) if isinstance(v, Ref) else v
        unkey = lambda k: k.sym if k.__class__.__name__ == "SymKey" else k
        if name == "keys":
            return _ItemsView([unkey(k) for k in cell.d.keys()])
        if name == "values":
            return _ItemsView([wrap(v) for v in cell.d.values()])
        if name == "items":
            return _ItemsView([SeqV("tuple", None, items=[unkey(k), wrap(v)]) for k, v in cell.d.items()])
        if name == "get":
            key = I.dict_key(cell, args[0])
            return wrap(cell.d[key]) if key in cell.d else (args[1] if len(args) > 1 else None)
        raise Unsupported(f"dict.{name} on the pre-state")
    cell = I.path.cell(recv)
    if isinstance(cell, MapCell):
        return map_method(I, cell, name, args, kw, recv)
    d = cell.d
    if name == "get":
        key = I.dict_key(cell, args[0])
        if key in d:
            return d[key]
        return args[1] if len(args) > 1 else None
    unkey = lambda k: k.sym if k.__class__.__name__ == "SymKey" else k
    if name == "keys":
        return _ItemsView([unkey(k) for k in d.keys()])
    if name == "values":
        return _ItemsView(list(d.values()))
    if name == "items":
        return _ItemsView([SeqV("tuple", None, items=[unkey(k), v]) for k, v in d.items()])
    if name == "update":
        for a in args:
            ca = I.path.cell(a) if isinstance(a, Ref) else None
            if not isinstance(ca, DictCell):
                raise Unsupported("dict.update with non-dict")
            d.update(ca.d)
        d.update(kw)
        return None
    if name == "copy":
        return I.path.alloc(DictCell(d))
    if name == "pop":
        key = I.dict_key(cell, args[0])
        if key in d:
            return d.pop(key)
        if len(args) > 1:
            return args[1]
        raise PyRaise(ExcV(KeyError, (args[0],)))
    if name == "setdefault":
        key = I.dict_key(cell, args[0])
        if key not in d:
            if key.__class__.__name__ == "_Missing":
                raise Unsupported("setdefault with symbolic key")
            d[key] = args[1] if len(args) > 1 else None
        return d[key]
    if name == "clear":
        d.clear()
        return None
    raise Unsupported(f"dict method {name}")


def map_method(I, cell, name, args, kw, recv_ref=None):
    if name == "get":
        k = I.map_key(cell, args[0])
        if I.path.decide(z3.Select(cell.dom, k)):
            if cell.vkind == "ref":
                from .values import MapElem
                return MapElem(recv_ref, z3.simplify(k))       # the object stored under this key
            return I.map_value(cell, z3.Select(cell.val, k))
        return args[1] if len(args) > 1 else None
    if name == "clear":
        cell.dom = z3.K(cell.dom.sort().domain(), z3.BoolVal(False))
        return None
    raise Unsupported(f"symbolic map method {name}")


# ---------------------------------------------------------------------- struct (A-STRUCT)
def _be_bytes(t, size, signed):
    """big-endian byte terms of an Int term already known to be in range."""
    if signed:
        t = z3.If(t < 0, t + (1 << (8 * size)), t)
    return [mk("int", z3.simplify((t / (1 << (8 * (size - 1 - k)))) % 256)) for k in range(size)]


def _fp_bytes(ft, size):
    from .values import UF_F32B, UF_F64B
    fs = UF_F32B if size == 4 else UF_F64B
    return [Sym("int", f(ft)) for f in fs]


def fp_of_byte_terms(bs):
    from .values import UF_F32, UF_F64
    return Sym("float", (UF_F32 if len(bs) == 4 else UF_F64)(*bs))


def struct_pack(I, args, kw):
    fmt = args[0]
    from .values import FmtStr
    if not isinstance(fmt, (str, FmtStr)):
        raise Unsupported("struct.pack with non-concrete format")
    vals = list(args[1:])
    if all(isinstance(v, (int, float, bytes, bool)) for v in vals):
        try:
            return _struct.pack(fmt, *vals)
        except _struct.error as exc:
            raise PyRaise(ExcV(_struct.error, exc.args))
    codes = parse_struct_format(fmt)
    if len(codes) != len(vals):
        raise PyRaise(ExcV(_struct.error, ("pack expected different number of items",)))
    out = SeqV("bytes", "int", items=[])
    for (code, cnt), v in zip(codes, vals):
        if code == "s":
            seq = I.as_seq(v)
            if seq is None or seq.kind not in ("bytes", "bytearray"):
                raise PyRaise(ExcV(_struct.error, ("argument for 's' must be a bytes object",)))
            n = seqops.length(seq)
            # exact fit expected by the callers (count derived from len); otherwise pad/truncate semantics
            if isinstance(cnt, Sym):
                if not I.path.decide(z3.simplify(seqops.len_term(seq) == cnt.t)):
                    raise Unsupported("struct 's' with symbolic count that differs from the data length")
                part = seq
            elif isinstance(n, int):
                if n >= cnt:
                    part = seqops.slice_(seq, 0, cnt)
                else:
                    part = seqops.concat(seq, SeqV("bytes", "int", items=[0] * (cnt - n)))
            else:
                if not I.path.decide(n == cnt):
                    raise Unsupported("struct 's' count differs from symbolic data length")
                part = seq
            out = seqops.concat(out, part.with_kind("bytes"), "bytes")
            continue
        size, signed, kind = STRUCT_CODES[code]
        if kind == "int":
            k = kind_of(v)
            if k not in ("int", "bool"):
                raise PyRaise(ExcV(_struct.error, ("required argument is not an integer",)))
            t = to_term(v, "int")
            lo, hi = (-(1 << (8 * size - 1)), (1 << (8 * size - 1)) - 1) if signed else (0, (1 << (8 * size)) - 1)
            if not I.path.decide(z3.And(t >= lo, t <= hi)):
                raise PyRaise(ExcV(_struct.error, ("argument out of range",)))
            part = _be_bytes(t, size, signed)
        elif kind == "float":
            k = kind_of(v)
            if k is None:
                raise PyRaise(ExcV(_struct.error, ("required argument is not a float",)))
            ft = to_term(v, "float")
            if size == 4:
                f32 = z3.fpToFP(RNE, ft, F32)
                overflow = z3.And(z3.fpIsInf(f32), z3.Not(z3.fpIsInf(ft)))
                if I.path.decide(overflow):
                    raise PyRaise(ExcV(OverflowError, ("float too large to pack with f format",)))
            part = _fp_bytes(ft, size)
        else:
            t = I.truthy(v)
            part = [mk("int", z3.If(t, 1, 0)) if not isinstance(t, bool) else int(t)]
        out = seqops.concat(out, SeqV("bytes", "int", items=part), "bytes")
    return I.box_seq(out)


def struct_calcsize(I, args, kw):
    return _struct.calcsize(args[0])


def struct_unpack(I, args, kw, prefix_ok=False):
    fmt, data = args[0], args[1]
    offset = args[2] if len(args) > 2 else kw.get("offset", 0)
    from .values import FmtStr
    if not isinstance(fmt, (str, FmtStr)):
        raise Unsupported("struct.unpack with non-concrete format")
    seq = I.as_seq(data)
    if seq is None or seq.kind not in ("bytes", "bytearray"):
        raise _type_error("a bytes-like object is required")
    if isinstance(fmt, str) and seq.items is not None and all(isinstance(i, int) for i in seq.items) and isinstance(offset, int):
        try:
            raw = bytes(seq.items)
            r = _struct.unpack_from(fmt, raw, offset) if prefix_ok else _struct.unpack(fmt, raw)
            return SeqV("tuple", None, items=list(r))
        except _struct.error as exc:
            raise PyRaise(ExcV(_struct.error, exc.args))
    codes = parse_struct_format(fmt)
    total = sum((to_term(cnt, "int") if code == "s" else STRUCT_CODES[code][0]) for code, cnt in codes)
    for code, cnt in codes:
        if code == "s" and isinstance(cnt, Sym) and not I.path.decide(cnt.t >= 0):
            raise PyRaise(ExcV(_struct.error, ("bad char in struct format",)))
    n = seqops.len_term(seq)
    off = to_term(offset, "int")
    if prefix_ok:
        if not I.path.decide(z3.And(off >= 0, n - off >= total)):
            raise PyRaise(ExcV(_struct.error, ("unpack_from requires a buffer of at least N bytes",)))
    else:
        if not I.path.decide(n == total):
            raise PyRaise(ExcV(_struct.error, ("unpack requires a buffer of N bytes",)))
    pos = off
    out = []
    arr, _, _ = seqops.as_array(seq)
    for code, cnt in codes:
        if code == "s":
            ct = to_term(cnt, "int")
            part = seqops.subseq(seq, mk("int", z3.simplify(pos)), mk("int", z3.simplify(pos + ct)))
            out.append(I.box_seq(part.with_kind("bytes")))
            pos = pos + ct
            continue
        size, signed, kind = STRUCT_CODES[code]
        bs = [z3.Select(arr, z3.simplify(pos + k)) for k in range(size)]
        if kind == "int":
            t = sum(b * (1 << (8 * (size - 1 - k))) for k, b in enumerate(bs))
            if signed:
                t = z3.If(t >= (1 << (8 * size - 1)), t - (1 << (8 * size)), t)
            out.append(mk("int", z3.simplify(t)))
        elif kind == "float":
            out.append(fp_of_byte_terms(bs))
        else:
            out.append(mk("bool", bs[0] != 0))
        pos = pos + size
    return SeqV("tuple", None, items=out)


def struct_unpack_from(I, args, kw):
    return struct_unpack(I, args, kw, prefix_ok=True)


def m_iter(I, args, kw):
    """iter(x) for sequences / lists: the engine iterates the container itself."""
    return args[0]


def build_models():
    import struct
    m = {
        builtins.iter: m_iter,
        builtins.isinstance: m_isinstance, builtins.type: m_type, builtins.len: m_len, builtins.bytes: m_bytes,
        builtins.bytearray: m_bytearray, builtins.list: m_list, builtins.tuple: m_tuple, builtins.dict: m_dict,
        builtins.int: m_int, builtins.float: m_float, builtins.bool: m_bool, builtins.str: m_str,
        builtins.repr: m_repr, builtins.range: m_range, builtins.enumerate: m_enumerate,
        builtins.min: m_minmax("min"), builtins.max: m_minmax("max"), builtins.all: m_allany(True),
        builtins.any: m_allany(False), builtins.sum: m_sum, builtins.abs: m_abs, builtins.divmod: m_divmod, builtins.next: m_next, builtins.hasattr: m_hasattr,
        builtins.getattr: m_getattr, builtins.setattr: m_setattr, builtins.ord: m_ord, builtins.chr: m_chr,
        builtins.hex: m_hex, builtins.hash: m_hash, builtins.print: m_print, builtins.sorted: m_sorted,
        builtins.zip: m_zip, builtins.reversed: m_reversed, builtins.callable: m_callable,
        builtins.issubclass: m_issubclass, builtins.id: m_id,
        struct.pack: struct_pack, struct.unpack: struct_unpack, struct.unpack_from: struct_unpack_from,
        struct.calcsize: struct_calcsize,
    }
    return m
