"""Contract registry and input type specifications (sidecar contracts, the repository is not edited)."""
from __future__ import annotations

REGISTRY: dict[str, list] = {}   # property id -> [contract classes]
BY_TARGET: dict[str, list] = {}


class Spec:
    pass


class _Scalar(Spec):
    def __init__(self, kind, lo=None, hi=None):
        self.kind, self.lo, self.hi = kind, lo, hi

    def __call__(self, lo=None, hi=None):
        return _Scalar(self.kind, lo, hi)


Int = _Scalar("int")
Bool = _Scalar("bool")
Float = _Scalar("float")


class SeqOf(Spec):
    def __init__(self, kind, elem="int", min_len=0, max_len=None, length=None):
        self.kind, self.elem, self.min_len, self.max_len, self.length = kind, elem, min_len, max_len, length


def Bytes(min_len=0, max_len=None, length=None):
    return SeqOf("bytes", "int", min_len, max_len, length)


def ByteArray(min_len=0, max_len=None, length=None):
    return SeqOf("bytearray", "int", min_len, max_len, length)


def ListOf(elem, min_len=0, max_len=None, length=None):
    return SeqOf("list", elem.kind if isinstance(elem, _Scalar) else elem, min_len, max_len, length)


def TupleOfN(elem, min_len=0, max_len=None):
    return SeqOf("tuple", elem.kind if isinstance(elem, _Scalar) else elem, min_len, max_len)


def Str(min_len=0, max_len=None, length=None):
    return SeqOf("str", "int", min_len, max_len, length)


class Const(Spec):
    def __init__(self, value):
        self.value = value


class Obj(Spec):
    """Object of a live class with the given fields (each a Spec); other attributes come from the class."""

    def __init__(self, cls, **fields):
        self.cls, self.fields = cls, fields


class Optional(Spec):
    """None or a value of the inner spec (the two possibilities are explored as separate paths)."""

    def __init__(self, inner):
        self.inner = inner


class MapOf(Spec):
    """dict with symbolic integer keys whose values are objects of class `cls` with the given scalar (ghost) fields."""

    def __init__(self, cls, **fields):
        self.cls, self.fields = cls, fields


class Region(Spec):
    """A heap region: ANY number n >= 1 of objects of class `cls` (symbolic n, no bound), identified by the keys 0 .. n-1.
    Fields: scalar specs, Link() (optional reference to an object of the same region) or Facade(cls) (an abstract helper
    object bound to the element).  Stored as a struct of arrays; two references with equal keys are the same object."""

    def __init__(self, name, cls, depth=None, sampler=None, **fields):
        self.name, self.cls, self.fields = name, cls, fields
        self.depth = depth      # name of the ghost Int field holding the distance to the root (for generated native samples)
        self.sampler = sampler  # optional callable(rnd) -> list of {field: value}: native samples for the cross-check


class Link(Spec):
    """Field of a Region object: None or another object of the same region."""


class Facade(Spec):
    """Field of a Region object: an object of class `cls` (an abstract stand-in from spec.ext) whose attribute `back`
    refers to the region object it belongs to."""

    def __init__(self, cls, back="g_owner"):
        self.cls, self.back = cls, back


class OpaqueField(Spec):
    """Field of a Region object whose value is never inspected by the code under contract beyond being passed on (a name
    used in a log or exception text): a value of the given Python type about which nothing is known."""

    def __init__(self, pytype=str):
        self.pytype = pytype


class RegionList(Spec):
    """A Python list holding ALL objects of a Region in key order (list[k] is the object with key k): indexing follows the
    list rules (negative indices count from the end, IndexError outside)."""

    def __init__(self, region):
        self.region = region


class ElemList(Spec):
    """A Python list of objects of a Region, of any length (the item keys are a symbolic integer sequence)."""

    def __init__(self, region):
        self.region = region


class Elem(Spec):
    """A parameter that is some object of a Region (any key), or None when optional."""

    def __init__(self, region, optional=False):
        self.region, self.optional = region, optional


class NoneUnless(Spec):
    """Scalar field of a MapOf object that reads as None in the code unless the boolean field `flag` of the same object is
    true (an optional limit, for instance).  Contracts read the value and the flag as two ordinary fields."""

    def __init__(self, flag, inner):
        self.flag, self.inner = flag, inner


class SymDict(Spec):
    """dict of concrete size whose keys are symbolic scalars: SymDict((key spec, value spec), ...)."""

    def __init__(self, *entries):
        self.entries = entries


class Root(Spec):
    """Reference to the outermost object of the parameter being built (cyclic input structures, e.g. a ghost owner link)."""


class Same(Spec):
    """In `returns` / `modifies` of a call-site contract: the current value of a dotted expression over the call's
    parameters, e.g. Same("self.g_owner")."""

    def __init__(self, expr):
        self.expr = expr


class OneOf(Spec):
    """A value of one of several shapes (explored as separate paths), e.g. OneOf(Int, Const(b""))."""

    def __init__(self, *alternatives):
        self.alternatives = alternatives


class FixedList(Spec):
    """Python list of concrete shape whose items are specs."""

    def __init__(self, *items, kind="list"):
        self.items, self.kind = items, kind


class Loop:
    def __init__(self, decreases=None, types=None, modifies=None, **clauses):
        self.clauses = list(clauses.items())
        self.decreases = decreases
        self.modifies = list(modifies or [])   # extra heap locations written through callees, e.g. "data._data"
        self.types = types or {}   # shapes for havoc of locals whose current value does not reveal them


def contract(target, prop, name=None):
    def deco(cls):
        cls.target = target
        cls.prop = prop
        cls.cname = name or cls.__name__
        REGISTRY.setdefault(prop, []).append(cls)
        BY_TARGET.setdefault(target, []).append(cls)
        return cls
    return deco
