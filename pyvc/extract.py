"""Locate the real functions of the repository under verification and hand out their ASTs.

Nothing is copied or annotated: every run imports the module from the repository root
(VERIF_REPO, default /repo), re-reads the file the module was loaded from, parses it with `ast`
and picks the FunctionDef by qualified name.  What extraction drops is stated in `DROPPED`.
"""
from __future__ import annotations

import ast
import hashlib
import importlib
import os
import sys

REPO = os.path.realpath(os.environ.get("VERIF_REPO", "/repo"))
VERIF = os.path.realpath(os.path.join(os.path.dirname(__file__), ".."))

DROPPED = [
    "docstrings", "type annotations", "logging statements (A-LOG)",
    "text of exception messages (class and raising condition are kept)", "comments",
]


def ensure_repo_on_path():
    """Make `import secsgem` resolve to REPO (not a stale copy); fail loudly otherwise."""
    if sys.path[0] != REPO:
        if REPO in sys.path:
            sys.path.remove(REPO)
        sys.path.insert(0, REPO)
    sys.dont_write_bytecode = True
    import secsgem  # noqa

    path = os.path.realpath(secsgem.__file__)
    if not path.startswith(REPO + os.sep):
        raise RuntimeError(f"secsgem imported from {path}, expected under {REPO}")


_file_cache: dict[str, tuple[ast.Module, str, dict]] = {}


def _index_defs(tree: ast.Module) -> dict:
    """Map qualname -> FunctionDef / ClassDef (first definition wins per qualname+lineno)."""
    out: dict = {}

    def walk(body, prefix):
        for node in body:
            if isinstance(node, (ast.FunctionDef, ast.AsyncFunctionDef)):
                q = prefix + node.name
                out.setdefault(q, []).append(node)
                walk(node.body, q + ".<locals>.")
            elif isinstance(node, ast.ClassDef):
                q = prefix + node.name
                out.setdefault(q, []).append(node)
                walk(node.body, q + ".")
            elif isinstance(node, (ast.If, ast.Try, ast.With, ast.For, ast.While)):
                for fld in ("body", "orelse", "finalbody", "handlers"):
                    sub = getattr(node, fld, None) or []
                    for s in sub:
                        if isinstance(s, ast.ExceptHandler):
                            walk(s.body, prefix)
                    walk([s for s in sub if not isinstance(s, ast.ExceptHandler)], prefix)

    walk(tree.body, "")
    return out


def parse_file(path: str):
    path = os.path.realpath(path)
    if path not in _file_cache:
        with open(path, "rb") as fh:
            raw = fh.read()
        tree = ast.parse(raw, filename=path)
        _file_cache[path] = (tree, hashlib.sha256(raw).hexdigest(), _index_defs(tree))
    return _file_cache[path]


class FuncInfo:
    def __init__(self, node, path, sha, qualname, module, cls):
        self.node = node
        self.path = path
        self.sha256 = sha
        self.qualname = qualname
        self.module = module
        self.cls = cls

    def describe(self):
        return {
            "function": f"{self.module.__name__}:{self.qualname}" if self.module else self.qualname,
            "file": os.path.relpath(self.path, REPO) if self.path.startswith(REPO) else self.path,
            "lines": [self.node.lineno, self.node.end_lineno],
            "sha256": self.sha256,
        }

    def source_hash(self):
        return hashlib.sha256(ast.dump(self.node).encode()).hexdigest()[:16]


def allowed_root(path: str) -> bool:
    path = os.path.realpath(path)
    return path.startswith(REPO + os.sep) or path.startswith(VERIF + os.sep)


def info_for_function(fn) -> FuncInfo | None:
    """AST of a live function object, if it was defined in the repository (or in /verif/spec|contracts)."""
    fn = getattr(fn, "__func__", fn)
    code = getattr(fn, "__code__", None)
    if code is None:
        return None
    path = code.co_filename
    if not os.path.isabs(path) or not os.path.exists(path) or not allowed_root(path):
        return None
    tree, sha, index = parse_file(path)
    cands = index.get(fn.__qualname__, [])
    node = None
    for c in cands:
        first = min([c.lineno] + [d.lineno for d in c.decorator_list])
        if first == code.co_firstlineno or c.lineno == code.co_firstlineno:
            node = c
    if node is None and len(cands) == 1:
        node = cands[0]
    if node is None:
        return None
    module = sys.modules.get(fn.__module__)
    return FuncInfo(node, os.path.realpath(path), sha, fn.__qualname__, module, None)


def lookup(target: str):
    """'pkg.mod:Class.method' -> (live object found by attribute walk, module)."""
    ensure_repo_on_path()
    modname, _, qual = target.partition(":")
    module = importlib.import_module(modname)
    mfile = os.path.realpath(module.__file__)
    if not allowed_root(mfile):
        raise RuntimeError(f"{modname} loaded from {mfile}, not from {REPO}")
    obj = module
    owner = None
    parts = qual.split(".")
    for i, part in enumerate(parts):
        owner = obj
        if isinstance(obj, type):
            # private name mangling the way CPython does it
            if part.startswith("__") and not part.endswith("__"):
                part = f"_{obj.__name__.lstrip('_')}{part}"
            obj = obj.__dict__[part] if part in obj.__dict__ else getattr(obj, part)
        else:
            obj = getattr(obj, part)
    return obj, owner, module


def raw_function(obj):
    """Unwrap property/classmethod/staticmethod to the underlying function."""
    if isinstance(obj, property):
        return obj.fget
    if isinstance(obj, (classmethod, staticmethod)):
        return obj.__func__
    return getattr(obj, "__func__", obj)
