"""Sequence operations on SeqV (concrete-shape `items` or symbolic-shape `arr`/`length`)."""
from __future__ import annotations

import z3

from .core import PyRaise
from .values import ExcV, Opaque, SeqV, Sym, Unsupported, is_scalar, kind_of, mk, sort_of, to_term

SMALL = 64  # concrete lengths up to this are expanded element-wise instead of quantified


def elem_kind_of_items(items):
    kinds = set()
    for it in items:
        k = kind_of(it)
        if k is None:
            return None
        kinds.add(k)
    if not kinds:
        return "int"
    if kinds == {"bool"}:
        return "bool"
    if kinds <= {"int", "bool"}:
        return "int"
    if kinds == {"float"}:
        return "float"
    return None


def from_py(v):
    """Lift a concrete Python bytes/bytearray/str-free sequence of scalars to SeqV."""
    if isinstance(v, bytes):
        return SeqV("bytes", "int", items=list(v))
    if isinstance(v, bytearray):
        return SeqV("bytearray", "int", items=list(v))
    if isinstance(v, str):
        return SeqV("str", "int", items=[ord(c) for c in v])
    raise Unsupported(f"from_py {type(v)}")


def to_py(seq: SeqV):
    """Concrete Python value of a fully concrete SeqV (bytes/str kinds)."""
    if seq.items is None or not all(isinstance(i, int) for i in seq.items):
        return None
    if seq.kind == "bytes":
        return bytes(seq.items)
    if seq.kind == "str":
        return "".join(chr(i) for i in seq.items)
    return None


def length(seq: SeqV):
    if seq.items is not None:
        return len(seq.items)
    return seq.length


def len_term(seq: SeqV):
    n = length(seq)
    return z3.IntVal(n) if isinstance(n, int) else n


def elem_term(seq: SeqV, v):
    return to_term(v, seq.elem)


def as_array(seq: SeqV):
    """(z3 array, length term, elem kind)."""
    if seq.items is None:
        return seq.arr, len_term(seq), seq.elem
    ek = seq.elem or elem_kind_of_items(seq.items)
    if ek is None:
        raise Unsupported("heterogeneous sequence where a homogeneous one is needed")
    arr = z3.K(z3.IntSort(), to_term(_default(ek), ek))
    for i, it in enumerate(seq.items):
        arr = z3.Store(arr, z3.IntVal(i), to_term(it, ek))
    return arr, z3.IntVal(len(seq.items)), ek


def _default(kind):
    return {"int": 0, "bool": False, "float": 0.0}[kind]


def symbolic(seq: SeqV) -> SeqV:
    if seq.items is None:
        return seq
    arr, n, ek = as_array(seq)
    return SeqV(seq.kind, ek, arr=arr, length=len(seq.items))


def select(seq: SeqV, idx_term):
    arr, _, ek = as_array(seq)
    return mk(ek, z3.Select(arr, idx_term)) if ek != "float" else Sym("float", z3.Select(arr, idx_term))


def get(path, seq: SeqV, idx, unchecked=False):
    """seq[idx] with Python index rules; forks on bounds when symbolic.

    unchecked (specification context only): a symbolic index is read without bounds test - out-of-range reads give an
    unspecified value instead of forking into IndexError paths; specs guard their indices by their quantifier ranges."""
    n = length(seq)
    if unchecked and not (isinstance(idx, int) and seq.items is not None):
        if seq.items is not None and (seq.elem or elem_kind_of_items(seq.items)) is None:
            raise Unsupported("symbolic index into heterogeneous sequence")
        return _as_elem(seq, select(seq, z3.simplify(to_term(idx, "int"))))
    if isinstance(idx, bool):
        idx = int(idx)
    if isinstance(idx, int) and isinstance(n, int) and seq.items is not None:
        if idx < -n or idx >= n:
            raise PyRaise(ExcV(IndexError, ("index out of range",)))
        return _as_elem(seq, seq.items[idx])
    it = to_term(idx, "int")
    nt = len_term(seq)
    if path.decide(it < 0):
        it = it + nt
    if not path.decide(z3.And(it >= 0, it < nt)):
        raise PyRaise(ExcV(IndexError, ("index out of range",)))
    if seq.items is not None:
        # symbolic index into a concrete-shape sequence
        ek = seq.elem or elem_kind_of_items(seq.items)
        if ek is None:
            raise Unsupported("symbolic index into heterogeneous sequence")
    r = select(seq, z3.simplify(it))
    if seq.kind in ("bytes", "bytearray") and isinstance(r, Sym):
        path.fact(z3.And(r.t >= 0, r.t <= 255))
    return _as_elem(seq, r)


def _as_elem(seq, v):
    if seq.kind == "str":
        if isinstance(v, int):
            return chr(v)
        return SeqV("str", "int", items=[v])
    return v


def clamp_slice(seq: SeqV, lo, hi):
    """Python slice clamping; returns (lo, hi) as ints or z3 terms with 0 <= lo <= len, lo <= hi' ..."""
    n = length(seq)
    if (lo is None or isinstance(lo, int)) and (hi is None or isinstance(hi, int)) and isinstance(n, int):
        lo2, hi2, _ = slice(lo, hi).indices(n)
        return lo2, max(hi2, lo2)
    nt = len_term(seq)

    def clamp(v, default):
        if v is None:
            return default
        if isinstance(v, int) and not isinstance(v, bool):
            if v == 0:
                return z3.IntVal(0)
            if v > 0:
                return z3.If(nt < v, nt, z3.IntVal(v))
            return z3.If(nt + v < 0, z3.IntVal(0), nt + v)
        t = to_term(v, "int")
        return z3.If(t < 0, z3.If(t + nt < 0, 0, t + nt), z3.If(t > nt, nt, t))

    lot = clamp(lo, z3.IntVal(0))
    hit = clamp(hi, nt)
    if not (lo is None or (isinstance(lo, int) and lo == 0)) and hi is not None:
        hit = z3.If(hit < lot, lot, hit)
    elif lo is not None and not (isinstance(lo, int) and lo == 0):
        hit = z3.If(hit < lot, lot, hit)
    return z3.simplify(lot), z3.simplify(hit)


def slice_(seq: SeqV, lo, hi):
    lo2, hi2 = clamp_slice(seq, lo, hi)
    if isinstance(lo2, int) and isinstance(hi2, int) and seq.items is not None:
        return SeqV(seq.kind, seq.elem, items=seq.items[lo2:hi2])
    arr, nt, ek = as_array(seq)
    lot = z3.IntVal(lo2) if isinstance(lo2, int) else lo2
    hit = z3.IntVal(hi2) if isinstance(hi2, int) else hi2
    newlen = z3.simplify(hit - lot)
    if z3.is_int_value(newlen) and newlen.as_long() <= SMALL:
        items = [mk(ek, z3.Select(arr, z3.simplify(lot + k))) if ek != "float" else Sym("float", z3.Select(arr, z3.simplify(lot + k)))
                 for k in range(newlen.as_long())]
        return SeqV(seq.kind, ek, items=items)
    i = z3.Int("sl!i")
    narr = z3.Lambda([i], z3.Select(arr, i + lot))
    return SeqV(seq.kind, ek, arr=narr, length=newlen)


def subseq(seq: SeqV, lo, hi):
    """seq[lo:hi] for bounds already known to satisfy 0 <= lo <= hi <= len (no clamping: canonical terms)."""
    if isinstance(lo, int) and isinstance(hi, int) and seq.items is not None:
        return SeqV(seq.kind, seq.elem, items=seq.items[lo:hi])
    arr, nt, ek = as_array(seq)
    lot = z3.simplify(to_term(lo, "int"))
    hit = z3.simplify(to_term(hi, "int"))
    newlen = z3.simplify(hit - lot)
    if z3.is_int_value(newlen) and newlen.as_long() <= SMALL:
        items = [mk(ek, z3.Select(arr, z3.simplify(lot + k))) if ek != "float" else Sym("float", z3.Select(arr, z3.simplify(lot + k)))
                 for k in range(newlen.as_long())]
        return SeqV(seq.kind, ek, items=items)
    i = z3.Int("sl!i")
    if z3.is_int_value(lot) and lot.as_long() == 0:
        return SeqV(seq.kind, ek, arr=arr, length=newlen)
    return SeqV(seq.kind, ek, arr=z3.Lambda([i], z3.Select(arr, i + lot)), length=newlen)


def remove_range(seq: SeqV, lo2, hi2):
    """seq with the (already clamped) range [lo2, hi2) removed."""
    if isinstance(lo2, int) and isinstance(hi2, int) and seq.items is not None:
        return SeqV(seq.kind, seq.elem, items=seq.items[:lo2] + seq.items[hi2:])
    arr, nt, ek = as_array(seq)
    lot = z3.IntVal(lo2) if isinstance(lo2, int) else lo2
    hit = z3.IntVal(hi2) if isinstance(hi2, int) else hi2
    width = z3.simplify(hit - lot)
    i = z3.Int("rm!i")
    if isinstance(lo2, int) and lo2 == 0:
        narr = z3.Lambda([i], z3.Select(arr, i + width))
    else:
        narr = z3.Lambda([i], z3.If(i < lot, z3.Select(arr, i), z3.Select(arr, i + width)))
    return SeqV(seq.kind, ek, arr=narr, length=z3.simplify(nt - width))


def concat(a: SeqV, b: SeqV, kind=None):
    kind = kind or a.kind
    if a.items is not None and b.items is not None:
        ek = a.elem if a.elem == b.elem else None
        return SeqV(kind, ek, items=a.items + b.items)
    if b.items is not None and not b.items:
        return a.with_kind(kind)
    if a.items is not None and not a.items:
        return b.with_kind(kind)
    aa, an, ak = as_array(a)
    ba, bn, bk = as_array(b)
    if ak != bk:
        if {ak, bk} == {"int", "bool"}:
            raise Unsupported("concat of bool and int sequences")
        raise Unsupported(f"concat of {ak} and {bk} sequences")
    if b.items is not None and len(b.items) <= SMALL:
        arr = aa
        for k, it in enumerate(b.items):
            arr = z3.Store(arr, z3.simplify(an + k), to_term(it, ak))
        return SeqV(kind, ak, arr=arr, length=z3.simplify(an + bn))
    i = z3.Int("cc!i")
    arr = z3.Lambda([i], z3.If(i < an, z3.Select(aa, i), z3.Select(ba, i - an)))
    peel = (list(a.items), b) if a.items is not None and len(a.items) <= SMALL else None
    return SeqV(kind, ak, arr=arr, length=z3.simplify(an + bn), peel=peel)


def append(seq: SeqV, v):
    if seq.items is not None:
        ek = seq.elem
        if ek is not None and kind_of(v) != ek and not (ek == "int" and kind_of(v) == "bool" and False):
            ek = elem_kind_of_items(seq.items + [v]) if seq.items else kind_of(v)
        return SeqV(seq.kind, ek, items=seq.items + [v])
    if not is_scalar(v):
        raise Unsupported("append of non-scalar to symbolic-length sequence")
    arr, n, ek = as_array(seq)
    return SeqV(seq.kind, ek, arr=z3.Store(arr, n, to_term(v, ek)), length=z3.simplify(n + 1))


def store(seq: SeqV, idx_term, v):
    arr, n, ek = as_array(seq)
    return SeqV(seq.kind, ek, arr=z3.Store(arr, idx_term, to_term(v, ek)), length=seq.length if seq.items is None else len(seq.items))


def elem_eq(a, b, ek):
    """z3 Bool (or Python bool) for equality of two element values."""
    if not isinstance(a, (Sym,)) and not isinstance(b, (Sym,)) and not isinstance(a, SeqV) and not isinstance(b, SeqV):
        return a == b
    ka, kb = kind_of(a), kind_of(b)
    if ka is None or kb is None:
        raise Unsupported(f"element equality of {a!r} and {b!r}")
    if "float" in (ka, kb):
        return z3.fpEQ(to_term(a, "float"), to_term(b, "float"))
    if ka == kb == "bool":
        return to_term(a, "bool") == to_term(b, "bool")
    return to_term(a, "int") == to_term(b, "int")


def _kinds_comparable(a: SeqV, b: SeqV):
    ka = "bytes" if a.kind == "bytearray" else a.kind
    kb = "bytes" if b.kind == "bytearray" else b.kind
    return ka == kb


def equal(a: SeqV, b: SeqV):
    """z3 Bool / Python bool: Python `==` of two sequences."""
    if not _kinds_comparable(a, b):
        return False
    if a.items is not None and b.items is not None:
        if len(a.items) != len(b.items):
            return False
        cs = []
        for x, y in zip(a.items, b.items):
            if isinstance(x, SeqV) or isinstance(y, SeqV):
                if not (isinstance(x, SeqV) and isinstance(y, SeqV)):
                    return False
                c = equal(x, y)
            else:
                c = elem_eq(x, y, None)
            if c is False:
                return False
            if c is not True:
                cs.append(c)
        return z3.And(*cs) if cs else True
    # one side has a small concrete length: expand
    for s, o in ((a, b), (b, a)):
        n = length(s)
        if isinstance(n, int) and n <= SMALL:
            oa, on, ok = as_array(o)
            sa, _, sk = as_array(s)
            cs = [on == n]
            for k in range(n):
                cs.append(_term_eq(z3.Select(sa, z3.IntVal(k)), sk, z3.Select(oa, z3.IntVal(k)), ok))
            return z3.simplify(z3.And(*cs))
    aa, an, ak = as_array(a)
    ba, bn, bk = as_array(b)
    i = z3.Int("eq!i")
    body = _term_eq(z3.Select(aa, i), ak, z3.Select(ba, i), bk)
    return z3.And(an == bn, z3.ForAll([i], z3.Implies(z3.And(i >= 0, i < an), body)))


def _term_eq(x, xk, y, yk):
    if xk == yk:
        if xk == "float":
            return z3.fpEQ(x, y)
        return x == y
    return elem_eq(Sym(xk, x), Sym(yk, y), None)


def all_elems(seq: SeqV, pred):
    """z3 Bool: pred(term) holds for every element (pred maps a z3 term to a z3 Bool)."""
    if seq.items is not None:
        cs = [pred(to_term(it, seq.elem or kind_of(it))) for it in seq.items]
        return z3.And(*cs) if cs else z3.BoolVal(True)
    i = z3.Int("al!i")
    return z3.ForAll([i], z3.Implies(z3.And(i >= 0, i < seq.length), pred(z3.Select(seq.arr, i))))


def fresh(path, kind, elem, hint, min_len=0, max_len=None, concrete_len=None, register=True):
    """Fresh symbolic sequence; byte kinds get the 0..255 element invariant as a path hypothesis."""
    name = path.fresh_name(hint)
    arr = z3.Array(name + ".a", z3.IntSort(), sort_of(elem))
    if concrete_len is not None:
        n = concrete_len
        nt = z3.IntVal(n)
    else:
        n = z3.Int(name + ".n")
        nt = n
        path.assume(n >= min_len)
        if max_len is not None:
            path.assume(n <= max_len)
    seq = SeqV(kind, elem, arr=arr, length=n)
    if kind in ("bytes", "bytearray"):
        path.assume(all_elems(seq, lambda t: z3.And(t >= 0, t <= 255)))
    elif kind == "str":
        path.assume(all_elems(seq, lambda t: z3.And(t >= 0, t <= 0x10FFFF)))
    if register:
        path.ex.inputs[name] = {"kind": "seq", "seqkind": kind, "elem": elem, "arr": arr, "length": nt}
    return seq
