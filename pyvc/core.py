"""Path exploration core: decisions, path condition, obligations, heap.

Exploration is re-execution based: a path is identified by its list of boolean decisions; the function is
re-run from the start for every path, following the recorded prefix and asking the solver only at new
branch points.  This keeps the interpreter a plain (non-forking) AST evaluator.
"""
from __future__ import annotations

import os
import time

import z3

from .values import DictCell, MapCell, ObjCell, Ref, SeqCell, Unsupported

FEAS_RLIMIT = 2_000_000
STATS = {'feas_s': 0.0, 'feas_n': 0}
GOAL_RLIMIT = 6_000_000


class PathEnd(Exception):
    """The current path stops here (e.g. after the preservation check of a loop invariant)."""


class Infeasible(Exception):
    """The path condition became unsatisfiable."""


class PyRaise(Exception):
    """A Python-level exception raised by the interpreted code."""

    def __init__(self, exc):
        super().__init__(exc)
        self.exc = exc


class Obligation:
    __slots__ = ("name", "hyps", "goal", "path", "verdict", "model", "solver", "seconds", "reason", "kind")

    def __init__(self, name, hyps, goal, path, kind="vc"):
        self.name = name
        self.hyps = hyps
        self.goal = goal
        self.path = path
        self.verdict = None  # 'discharged' | 'refuted' | 'undecided'
        self.model = None
        self.solver = None
        self.seconds = 0.0
        self.reason = ""
        self.kind = kind


class Explorer:
    """Drives all paths of one verification unit."""

    def __init__(self, goal_rlimit=GOAL_RLIMIT, max_paths=4000):
        self.pending: list[list[bool]] = [[]]
        self.obligations: list[Obligation] = []
        self._seen: dict = {}
        self.paths = 0
        self.completed_paths = 0
        self.goal_rlimit = goal_rlimit
        self.max_paths = max_paths
        self.solver_seconds = 0.0
        self.inputs: dict = {}  # name -> description of symbolic inputs (for counterexamples)
        self.notes: list[str] = []
        self.feas_cache: dict = {}

    def run(self, thunk):
        """thunk(path) executes one path.  Returns when all paths are explored."""
        while self.pending:
            prefix = self.pending.pop()
            self.paths += 1
            if self.paths > self.max_paths:
                raise Unsupported(f"more than {self.max_paths} paths")
            path = Path(self, prefix)
            try:
                thunk(path)
                self.completed_paths += 1
            except PathEnd:
                self.completed_paths += 1
            except Infeasible:
                pass

    # ------------------------------------------------------------------
    def add_obligation(self, path, name, goal, kind="vc"):
        hyps = list(path.pc)
        key = (name, tuple(h.get_id() for h in hyps), goal.get_id())
        if key in self._seen:
            return self._seen[key]
        ob = Obligation(name, hyps, goal, list(path.trace), kind)
        self._seen[key] = ob
        self.obligations.append(ob)
        return ob

    def solve_all(self, model_vars=None):
        for ob in self.obligations:
            if ob.verdict is None:
                solve_obligation(ob, self.goal_rlimit, model_vars or self.inputs)
                self.solver_seconds += ob.seconds


FM_BOUNDS = (2, 4, 16)
_QCACHE: dict = {}
_BG = []


def BACKGROUND():
    if not _BG:
        from .values import background_axioms
        _BG.extend(background_axioms())
    return _BG



def _has_quantifier(e):
    i = e.get_id()
    r = _QCACHE.get(i)
    if r is None:
        r = (False, e)
        seen = set()
        stack = [e]
        while stack:
            x = stack.pop()
            if z3.is_quantifier(x) and not x.is_lambda():
                r = (True, e)
                break
            if z3.is_quantifier(x):
                stack.append(x.body())
                continue
            xi = x.get_id()
            if xi in seen:
                continue
            seen.add(xi)
            stack.extend(x.children())
        _QCACHE[i] = r
    return r[0]


def _mk_solver(rlimit):
    s = z3.Solver()
    s.set("rlimit", rlimit)
    s.set("timeout", 25_000)
    return s


def _ps_terms(exprs):
    """Ground applications prefix_sum(A, n) occurring in the formulas (those under a binder are skipped)."""
    from .values import PS
    found = {}
    seen = set()

    def has_var(x, memo={}):
        i = x.get_id()
        if i in memo:
            return memo[i]
        r = z3.is_var(x) or (z3.is_quantifier(x)) or any(has_var(c) for c in x.children())
        memo[i] = r
        return r

    stack = list(exprs)
    while stack:
        x = stack.pop()
        i = x.get_id()
        if i in seen:
            continue
        seen.add(i)
        if z3.is_quantifier(x):
            stack.append(x.body())
            continue
        if z3.is_app(x):
            if x.decl().eq(PS) and not has_var(x.arg(1)) and not _has_free_var(x.arg(0)):
                found[i] = x
            stack.extend(x.children())
    return list(found.values())


def _has_free_var(x):
    """de Bruijn variables that escape x (x itself may be a closed lambda)."""
    def go(e, depth):
        if z3.is_var(e):
            return z3.get_var_index(e) >= depth
        if z3.is_quantifier(e):
            return go(e.body(), depth + e.num_vars())
        return any(go(c, depth) for c in e.children())
    return go(x, 0)


def ps_congruence_instances(exprs):
    """Lemma PS-CONGRUENCE (proved by induction in contracts/C16_secsi.LemmaPrefixSumCongruence), instantiated for every
    pair of prefix sums in the query: arrays that agree below n have the same prefix sum at n."""
    terms = _ps_terms(exprs)
    out = []
    if len(terms) < 2 or len(terms) > 12:
        return out
    t = z3.Int("psc!t")
    for a in range(len(terms)):
        for b in range(a + 1, len(terms)):
            A, n = terms[a].arg(0), terms[a].arg(1)
            B, m = terms[b].arg(0), terms[b].arg(1)
            if A.eq(B):
                continue
            agree = z3.ForAll([t], z3.Implies(z3.And(t >= 0, t < n), z3.Select(A, t) == z3.Select(B, t)))
            out.append(z3.Implies(z3.And(n == m, agree), terms[a] == terms[b]))
    return out


def solve_obligation(ob: Obligation, rlimit, model_vars):
    t0 = time.time()
    goal = ob.goal
    if os.environ.get("VERIF_DEBUG"):
        print(f"   [solving] {ob.name} ...", flush=True)
    if z3.is_true(goal):
        ob.verdict, ob.solver = "discharged", "trivial"
        return
    verdict = "undecided"
    attempts = ((_mk_solver, rlimit), (_mk_solver, rlimit * 8))
    if ob.kind == "canary":  # only "unsat" (vacuous path condition) matters; a model is a bonus
        attempts = ((_mk_solver, 400_000),)
    for attempt, (mk, rl) in enumerate(attempts):
        s = mk(rl)
        for h in BACKGROUND():
            s.add(h)
        for h in ob.hyps:
            s.add(h)
        for h in ps_congruence_instances(list(ob.hyps) + [goal]):
            s.add(h)
        s.add(z3.Not(goal))
        try:
            r = s.check()
        except z3.Z3Exception as exc:  # pragma: no cover
            ob.reason = f"z3 exception {exc}"
            break
        if r == z3.unsat:
            verdict = "discharged"
            ob.solver = "z3"
            break
        if r == z3.sat:
            verdict = "refuted"
            ob.solver = "z3"
            try:
                ob.model = extract_model(s.model(), model_vars)
            except Exception as exc:  # pragma: no cover
                ob.model = {"_error": repr(exc)}
            break
        ob.reason = f"z3 unknown: {s.reason_unknown()}"
    if verdict == "undecided":
        # (for the canary a model of the path condition found here shows non-vacuity; it needs no replay)
        for bound in (FM_BOUNDS if ob.kind != "canary" else FM_BOUNDS[:2] + (8,)):
            try:
                m = finite_model_search(ob, bound, model_vars)
            except Exception as exc:  # pragma: no cover
                ob.reason += f"; finite-model search failed: {exc!r}"
                break
            if m is not None:
                verdict = "refuted"
                ob.solver = f"z3 (finite-model search, sequence lengths <= {bound})"
                ob.model = m
                break
    if verdict == "undecided" and ob.kind != "canary":
        # quantifier-free relaxation: drop the quantified hypotheses.  unsat is still a proof (fewer hypotheses); a model
        # is only a CANDIDATE counterexample (it may violate a dropped hypothesis) and counts only if the native replay
        # of the real code confirms it
        qf = [h for h in ob.hyps if not _has_quantifier(h)]
        if len(qf) < len(ob.hyps):
            s = _mk_solver(rlimit)
            for h in qf:
                s.add(h)
            s.add(z3.Not(goal))
            try:
                r = s.check()
            except z3.Z3Exception:  # pragma: no cover
                r = z3.unknown
            if r == z3.unsat:
                verdict = "discharged"
                ob.solver = "z3"
            elif r == z3.sat:
                try:
                    ob.model = extract_model(s.model(), model_vars)
                    verdict = "refuted"
                    ob.solver = "z3 (candidate model of the quantifier-free relaxation; counts only if the replay confirms it)"
                except Exception:  # pragma: no cover
                    pass
    ob.verdict = verdict
    ob.seconds = time.time() - t0
    if os.environ.get("VERIF_DEBUG"):
        print(f"   [solve] {ob.name} -> {verdict} {ob.seconds:.2f}s {ob.reason}", flush=True)


def _expand_quantifiers(e, bound, cache):
    """Replace every universal quantifier (after NNF + skolemisation) by its instances over -1..bound+1."""
    if z3.is_quantifier(e) and not e.is_lambda():
        if not e.is_forall():
            raise ValueError("existential left after nnf")
        n = e.num_vars()
        body = e.body()
        if n > 2 and (bound + 3) ** n > 8000:
            raise ValueError("too many bound variables")
        import itertools
        insts = []
        for vals in itertools.product(range(-1, bound + 2), repeat=n):
            # de Bruijn: variable 0 is the innermost/last
            subs = [z3.IntVal(v) for v in reversed(vals)]
            insts.append(_expand_quantifiers(z3.substitute_vars(body, *subs), bound, cache))
        return z3.And(*insts)
    if z3.is_app(e) and e.num_args() > 0:
        key = e.get_id()
        if key in cache:
            return cache[key][0]
        kids = [_expand_quantifiers(c, bound, cache) for c in e.children()]
        from .values import PS
        if e.decl().eq(PS):
            # within the bound the prefix sum is an explicit finite sum (exact, no uninterpreted function over arrays)
            A, n = kids
            r = z3.Sum([z3.If(z3.IntVal(t) < n, z3.Select(A, z3.IntVal(t)), z3.IntVal(0)) for t in range(bound + 2)])
        else:
            r = e.decl()(*kids) if kids else e
        cache[key] = (r, e)
        return r
    if z3.is_quantifier(e) and e.is_lambda():
        return e
    return e


def finite_model_search(ob, bound, model_vars):
    """Counterexample search for an obligation the solver left open: sequence inputs bounded in length, universal
    hypotheses instantiated over the small index range.  A model found here is only a candidate: it is always
    replayed on the real code before it is reported."""
    g = z3.Goal()
    for h in ob.hyps:
        g.add(h)
    g.add(z3.Not(ob.goal))
    nnf = z3.Tactic("nnf")(g)
    s = _mk_solver(4_000_000)
    cache = {}
    for sub in nnf:
        for f in sub:
            s.add(z3.simplify(_expand_quantifiers(f, bound, cache)))
    for name, desc in model_vars.items():
        if desc["kind"] == "seq":
            s.add(desc["length"] <= bound)
    # any other integer constant named like a length (fresh sequences '....n') is bounded as well
    seen = set()

    def consts(e):
        if e.get_id() in seen:
            return
        seen.add(e.get_id())
        if z3.is_const(e) and e.decl().kind() == z3.Z3_OP_UNINTERPRETED and z3.is_int(e) and str(e).endswith(".n"):
            s.add(e <= bound)
        for c in e.children():
            consts(c)
        if z3.is_quantifier(e):
            consts(e.body())

    for h in ob.hyps:
        consts(h)
    consts(ob.goal)
    r = s.check()
    if os.environ.get("VERIF_DEBUG"):
        print(f"   [finite-model] {ob.name} bound={bound} -> {r} {s.reason_unknown() if r == z3.unknown else ''}", flush=True)
    if r == z3.sat:
        return extract_model(s.model(), model_vars)
    return None


def extract_model(model, model_vars, cap=70000):
    """Concretise the symbolic inputs named in model_vars from a z3 model."""
    out = {}
    for name, desc in model_vars.items():
        kind = desc["kind"]
        if kind in ("int", "bool", "float"):
            v = model.eval(desc["term"], model_completion=True)
            out[name] = _pyval(v, kind)
        elif kind == "seq":
            n = model.eval(desc["length"], model_completion=True)
            n = n.as_long() if z3.is_int_value(n) else 0
            n = max(0, n)
            items = []
            truncated = n > cap
            for i in range(min(n, cap)):
                e = model.eval(z3.Select(desc["arr"], z3.IntVal(i)), model_completion=True)
                items.append(_pyval(e, desc["elem"]))
            out[name] = {"seq": desc["seqkind"], "len": n, "items": items, "truncated": truncated}
        elif kind == "region":
            n = model.eval(desc["n"], model_completion=True)
            n = max(0, n.as_long()) if z3.is_int_value(n) else 0
            objs = []
            for i in range(min(n, cap)):
                o = {}
                for f, (fk, arr) in desc["fields"].items():
                    if fk.startswith("seq:"):
                        ln = model.eval(z3.Select(arr[1], z3.IntVal(i)), model_completion=True)
                        ln = max(0, min(ln.as_long(), 64)) if z3.is_int_value(ln) else 0
                        o[f] = [_pyval(model.eval(z3.Select(z3.Select(arr[0], z3.IntVal(i)), z3.IntVal(j)), model_completion=True), "int") for j in range(ln)]
                        continue
                    e = model.eval(z3.Select(arr, z3.IntVal(i)), model_completion=True)
                    o[f] = _pyval(e, "int" if fk == "link" else fk)
                objs.append(o)
            out[name] = {"region": True, "n": n, "objects": objs, "truncated": n > cap}
    return out


def _pyval(v, kind):
    if kind == "int":
        return v.as_long() if z3.is_int_value(v) else 0
    if kind == "bool":
        return bool(z3.is_true(v))
    if kind == "float":
        try:
            if z3.is_fp(v):
                if z3.is_fprm(v):
                    return 0.0
                s = z3.simplify(z3.fpToIEEEBV(v))
                if z3.is_bv_value(s):
                    import struct

                    return {"float_bits": s.as_long(), "value": repr(struct.unpack(">d", struct.pack(">Q", s.as_long()))[0])}
        except Exception:
            pass
        return {"float": str(v)}
    return str(v)


class Path:
    def __init__(self, explorer: Explorer, prefix):
        self.ex = explorer
        self.prefix = prefix
        self.pos = 0
        self.trace: list[bool] = []
        self.pc: list = []
        self.pc_keys: list = []
        self.solver = z3.Solver()
        self.solver.set("rlimit", FEAS_RLIMIT)
        self.heap: dict[int, object] = {}
        self.next_addr = 1
        self.counter = 0
        self.ghost: dict = {}
        self.dropped: list[str] = []

    # ---- fresh symbols (deterministic names so that re-execution recreates the same constants)
    def fresh_name(self, hint):
        self.counter += 1
        return f"{hint}!{self.counter}"

    # ---- heap
    def alloc(self, cell) -> Ref:
        addr = self.next_addr
        self.next_addr += 1
        self.heap[addr] = cell
        return Ref(addr)

    def cell(self, ref: Ref):
        return self.heap[ref.addr]

    def snapshot_heap(self):
        return {a: c.copy() for a, c in self.heap.items()}

    def fact(self, cond):
        """A ground consequence of the path condition: only strengthens the feasibility solver."""
        self.solver.add(cond)

    def prove(self, cond, rlimit=3_000_000):
        """True if the full path condition (quantified hypotheses included) entails cond."""
        s = _mk_solver(rlimit)
        for h in BACKGROUND():
            s.add(h)
        for h in self.pc:
            s.add(h)
        s.add(z3.Not(cond))
        return s.check() == z3.unsat

    def truncate(self, n):
        del self.pc[n:]
        del self.pc_keys[n:]

    # ---- path condition
    def assume(self, cond):
        if isinstance(cond, bool):
            if not cond:
                raise Infeasible()
            return
        if z3.is_true(cond):
            return
        self.pc.append(cond)
        self.pc_keys.append(hash((self.pc_keys[-1] if self.pc_keys else 0, cond.get_id())))
        if not _has_quantifier(cond):
            # feasibility checks use the quantifier-free part of the path condition only: a weaker hypothesis
            # set can only make more branches look feasible, never prune a real one (sound, see DESIGN 2.3)
            self.solver.add(cond)

    def _check(self, cond):
        t0 = time.time()
        try:
            return self._check0(cond)
        finally:
            STATS["feas_s"] += time.time() - t0
            STATS["feas_n"] += 1

    def _check0(self, cond):
        key = (self.pc_keys[-1] if self.pc_keys else 0, cond.get_id())
        cache = self.ex.feas_cache
        if key in cache:
            return cache[key][0]
        if _has_quantifier(cond):
            r = z3.unknown
        else:
            self.solver.push()
            self.solver.add(cond)
            r = self.solver.check()
            self.solver.pop()
        ok = r != z3.unsat  # unknown counts as feasible (sound: never prunes a real path)
        cache[key] = (ok, cond, list(self.pc))  # keep the terms alive so that ids stay unique
        return ok

    def decide(self, cond) -> bool:
        """Branch on a z3 Bool (or Python bool)."""
        if isinstance(cond, bool):
            return cond
        cond = z3.simplify(cond)
        if z3.is_true(cond):
            return True
        if z3.is_false(cond):
            return False
        if self.pos < len(self.prefix):
            choice = self.prefix[self.pos]
        else:
            t = self._check(cond)
            f = self._check(z3.Not(cond))
            if t and f:
                choice = True
                self.ex.pending.append(self.trace + [False])
            elif t:
                choice = True
            elif f:
                choice = False
            else:
                raise Infeasible()
        self.pos += 1
        self.trace.append(choice)
        self.assume(cond if choice else z3.Not(cond))
        return choice

    def choose(self, n: int, label="") -> int:
        """Nondeterministic choice among n alternatives (binary-encoded with free decisions)."""
        idx = 0
        for k in range(n - 1):
            if self.pos < len(self.prefix):
                c = self.prefix[self.pos]
            else:
                c = True
                self.ex.pending.append(self.trace + [False])
            self.pos += 1
            self.trace.append(c)
            if c:
                return k
            idx = k + 1
        return idx

    def oblige(self, name, goal, assume_after=True, kind="vc"):
        if isinstance(goal, bool):
            goal = z3.BoolVal(goal)
        ob = self.ex.add_obligation(self, name, goal, kind)
        if assume_after:
            self.assume(goal)
        return ob
