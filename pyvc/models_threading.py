"""Models of threading / queue primitives (assumption A-EXT): no real blocking, no real threads.

Environment steps: a blocking wait is the only point where other threads can change shared state in these models; what
they may change is declared by the contract as `rely` (list of (expression, mode)); mode 'append' = the sequence may
have grown by arbitrary bytes at its end (the receive thread's ByteQueue.append)."""
from __future__ import annotations

import ast
import queue
import threading

import z3

from . import seqops
from .core import PyRaise
from .values import ExcV, Ref, SeqCell, SeqV, Unsupported


def env_step(I):
    rely = getattr(I, "rely", None) or []
    for expr, mode in rely:
        v = I.eval(ast.parse(expr, mode="eval").body, I.top_frame)
        if mode == "append":
            cell = I.path.cell(v)
            extra = seqops.fresh(I.path, cell.seq.kind, "int", "arrived", register=False)
            arrivals = I.path.ghost.setdefault("arrived", [])
            arrivals.append(extra)
            cell.seq = seqops.concat(cell.seq, extra, cell.seq.kind)
        else:
            raise Unsupported(f"rely mode {mode}")
    I.path.ghost["env_steps"] = I.path.ghost.get("env_steps", 0) + 1


def cond_wait_for(I, args, kw):
    self, predicate = args[0], args[1]
    timeout = args[2] if len(args) > 2 else kw.get("timeout")
    env_step(I)
    r = I.call_value(predicate, [], {})
    if timeout is None:
        I.path.assume(I.truthy(r))   # returns only once the predicate holds (partial correctness)
        return True
    return r


def cond_wait(I, args, kw):
    env_step(I)
    return True


def noop(I, args, kw):
    return None


def ev_wait(I, args, kw):
    env_step(I)
    return True


def ev_set(I, args, kw):
    I.path.ghost.setdefault("events", {})[id(args[0])] = True


def ev_clear(I, args, kw):
    I.path.ghost.setdefault("events", {})[id(args[0])] = False


def ev_is_set(I, args, kw):
    return I.path.ghost.setdefault("events", {}).get(id(args[0]), False)


def select_select(I, args, kw):
    """select.select(r, w, x, timeout): any subset of each list may be reported ready (A-EXT)."""
    import z3 as _z3
    from .values import SeqV as _SeqV, Sym as _Sym
    out = []
    for lst in args[:3]:
        items = I.iter_concrete(lst)
        ready = []
        for it in items:
            b = _z3.Bool(I.path.fresh_name("ready"))
            if I.path.decide(b):
                ready.append(it)
        out.append(I.path.alloc(__import__("pyvc.values", fromlist=["SeqCell"]).SeqCell(_SeqV("list", None, items=ready))))
    return _SeqV("tuple", None, items=out)


def new_socket(I, args, kw):
    """socket.socket(...): a fresh stand-in object (spec.ext.AbsSocket) - open, nothing sent; its methods are known by
    their assumed POSIX contracts only (a unit that calls one without naming a contract for it is out of reach)."""
    from spec.ext import AbsSocket
    from .values import ObjCell
    ref = I.path.alloc(ObjCell(AbsSocket))
    I.set_attr(ref, "g_closed", False)
    I.set_attr(ref, "wire", b"")
    return ref


def build():
    C = threading.Condition
    E = threading.Event
    import select as _select
    import socket as _socket
    m = {
        _select.select: select_select, _socket.socket: new_socket,
        C.wait_for: cond_wait_for, C.wait: cond_wait, C.notify: noop, C.notify_all: noop,
        E.wait: ev_wait, E.set: ev_set, E.clear: ev_clear, E.is_set: ev_is_set,
    }
    return m
