"""CPython cross-check of the encoding (DESIGN 4.2): with all inputs concrete the symbolic evaluator is an interpreter.

For a verification unit, seeded concrete inputs (boundary + random) that satisfy the contract's `requires` are run through
the real function in CPython and through pyvc; return value, raised exception class and the fields of the arguments after
the call must agree.  A disagreement is an engine bug (machinery failure), never a property violation."""
from __future__ import annotations

import copy
import math
import random
import struct

from . import extract, seqops
from .contract import Const, Elem, Facade, FixedList, Link, Obj, OpaqueField, Region, RegionList, SeqOf, _Scalar
from .core import Explorer, Path, PyRaise
from .interp import Interp
from .interp_call import Frame, number_loops
from .interp_stmt import _Return
from .values import (DictCell, ExcV, ObjCell, Opaque, Ref, SeqCell, SeqV, Sym, Unsupported)
from .verify import bind_by_name, contract_functions, resolve_target, _default_for, _NODEFAULT

INT_POOL = [0, 1, 2, 3, 4, 10, 127, 128, 255, 256, 257, 32767, 32768, 65535, 65536, 65537, 2 ** 24 - 1, 2 ** 24, 2 ** 31 - 1, 2 ** 31, 2 ** 32 - 1,
            2 ** 32, 2 ** 63 - 1, 2 ** 63, 2 ** 64 - 1, -1, -2, -128, -129, -32768, -2 ** 31, -2 ** 63]
FLOAT_POOL = [0.0, -0.0, 1.0, -1.5, 0.1, 3.4028234663852886e38, -3.4028234663852886e38, 1.7976931348623157e308, 5e-324, 1e-45, 3.5e38, 1e39, math.inf, -math.inf, math.nan]


def random_concrete(spec, rnd, size_hint=6):
    if isinstance(spec, _Scalar):
        if spec.kind == "int":
            r = rnd.random()
            v = rnd.choice(INT_POOL) if r < 0.4 else rnd.randint(0, 130) if r < 0.8 else rnd.randint(-70000, 70000)
            if spec.lo is not None and v < spec.lo:
                v = spec.lo + (abs(v) % 1000)
            if spec.hi is not None and v > spec.hi:
                v = spec.hi - (abs(v) % 1000) if spec.lo is None or spec.hi - 1000 >= spec.lo else spec.hi
            return v
        if spec.kind == "bool":
            return rnd.random() < 0.5
        return rnd.choice(FLOAT_POOL) if rnd.random() < 0.6 else struct.unpack(">d", struct.pack(">Q", rnd.getrandbits(64)))[0]
    if isinstance(spec, SeqOf):
        n = spec.length if spec.length is not None else rnd.choice([spec.min_len, spec.min_len + 1, spec.min_len + rnd.randint(0, size_hint), spec.min_len + 12])
        if spec.max_len is not None:
            n = min(n, spec.max_len)
        if spec.elem == "int":
            if spec.kind in ("bytes", "bytearray", "str"):
                items = [rnd.choice((0, 1, 5, 0x21, 0x41, 0x7F, 0x80, 0xA5, 0xFF)) if rnd.random() < 0.5 else rnd.randint(0, 255) for _ in range(n)]
            else:
                items = [rnd.choice(INT_POOL) for _ in range(n)]
        elif spec.elem == "bool":
            items = [rnd.random() < 0.5 for _ in range(n)]
        else:
            items = [rnd.choice(FLOAT_POOL) for _ in range(n)]
        if spec.kind == "bytes":
            return bytes(items)
        if spec.kind == "bytearray":
            return bytearray(items)
        if spec.kind == "str":
            return "".join(chr(i) for i in items)
        if spec.kind == "tuple":
            return tuple(items)
        return items
    if isinstance(spec, Const):
        return spec.value
    if isinstance(spec, Obj):
        obj = object.__new__(spec.cls)
        import logging
        null = logging.getLogger("verif.null")
        null.disabled = True
        for lname in ("_logger", "_communication_logger", "_bytestream_logger"):
            try:
                object.__setattr__(obj, lname, null)
            except Exception:
                pass
        for f, s in spec.fields.items():
            object.__setattr__(obj, f, random_concrete(s, rnd, size_hint))
        return obj
    if isinstance(spec, FixedList):
        items = [random_concrete(s, rnd, size_hint) for s in spec.items]
        return items if spec.kind == "list" else tuple(items)
    if isinstance(spec, Region):
        cache = rnd.__dict__.setdefault("_regions", {})
        if spec.name in cache:
            return cache[spec.name]
        given = spec.sampler(rnd) if spec.sampler is not None else None
        n = len(given) if given is not None else rnd.randint(1, 7)
        objs = [object.__new__(spec.cls) for _ in range(n)]
        if given is not None:
            for o, vals in zip(objs, given):
                for f, v in vals.items():
                    object.__setattr__(o, f, v)
                object.__setattr__(o, "g_region", objs)
            cache[spec.name] = objs
            return objs
        for k, o in enumerate(objs):
            parent = None
            for f, fs in spec.fields.items():
                if isinstance(fs, Link):
                    v = parent = None if k == 0 or rnd.random() < 0.3 else objs[rnd.randrange(k)]    # links go to earlier objects: a forest
                elif isinstance(fs, Facade):
                    v = object.__new__(fs.cls)
                    object.__setattr__(v, fs.back, o)
                elif isinstance(fs, OpaqueField):
                    v = f"{spec.name}#{k}" if fs.pytype is str else fs.pytype()
                elif fs.kind == "bool":
                    v = rnd.random() < 0.5
                else:
                    v = rnd.randint(0, 3)
                object.__setattr__(o, f, v)
            if spec.depth:
                object.__setattr__(o, spec.depth, 0 if parent is None else getattr(parent, spec.depth) + 1)
            object.__setattr__(o, "g_region", objs)
        cache[spec.name] = objs
        return objs
    if isinstance(spec, RegionList):
        return random_concrete(spec.region, rnd, size_hint)
    if isinstance(spec, Elem):
        objs = random_concrete(spec.region, rnd, size_hint)
        if spec.optional and rnd.random() < 0.25:
            return None
        return rnd.choice(objs)
    raise Unsupported(f"spec {spec!r}")


_SYNC_TYPES = None


def clone(v, memo=None):
    """deepcopy that gives each copy its own fresh locks / conditions / events (those cannot be pickled or copied)."""
    global _SYNC_TYPES
    import threading
    if _SYNC_TYPES is None:
        _SYNC_TYPES = (type(threading.Lock()), type(threading.RLock()), threading.Condition, threading.Event)
    memo = memo if memo is not None else {}
    import enum
    if v is None or isinstance(v, (bool, int, float, str, bytes, type, enum.Enum)):
        return v
    if id(v) in memo:
        return memo[id(v)][0]
    if isinstance(v, _SYNC_TYPES):
        r = threading.Lock() if isinstance(v, _SYNC_TYPES[0]) else threading.RLock() if isinstance(v, _SYNC_TYPES[1]) else type(v)()
    elif isinstance(v, bytearray):
        r = bytearray(v)
    elif isinstance(v, list):
        r = []
        memo[id(v)] = (r, v)
        r.extend(clone(x, memo) for x in v)
        return r
    elif isinstance(v, tuple):
        r = tuple(clone(x, memo) for x in v)
    elif isinstance(v, dict):
        r = {}
        memo[id(v)] = (r, v)
        for k, x in v.items():
            r[k] = clone(x, memo)
        return r
    elif hasattr(v, "__dict__") and not callable(v) and extract.allowed_root(getattr(__import__("inspect").getmodule(type(v)), "__file__", "") or "/nonexistent"):
        r = object.__new__(type(v))
        memo[id(v)] = (r, v)
        for k, x in vars(v).items():
            object.__setattr__(r, k, clone(x, memo))
        return r
    else:
        r = copy.deepcopy(v)
    memo[id(v)] = (r, v)
    return r


def lift_value(I, v, spec=None, memo=None):
    """Concrete CPython value -> engine value (objects become heap cells)."""
    memo = memo if memo is not None else {}
    if v is None or isinstance(v, (bool, int, float, str, bytes, type)):
        return v
    if id(v) in memo:
        return memo[id(v)][0]
    if isinstance(v, bytearray):
        r = I.path.alloc(SeqCell(seqops.from_py(v)))
    elif isinstance(v, list):
        items = [lift_value(I, x, None, memo) for x in v]
        r = I.path.alloc(SeqCell(SeqV("list", seqops.elem_kind_of_items(items) if items else None, items=items)))
    elif isinstance(v, tuple):
        r = SeqV("tuple", None, items=[lift_value(I, x, None, memo) for x in v])
    elif isinstance(spec, Obj) or (hasattr(v, "__dict__") and extract.allowed_root(getattr(__import__("inspect").getmodule(type(v)), "__file__", "") or "/nonexistent")):
        r = I.path.alloc(ObjCell(type(v)))
        memo[id(v)] = (r, v)
        cell = I.path.cell(r)
        for k, x in vars(v).items():
            if k.endswith("logger"):
                continue
            fs = spec.fields.get(k) if isinstance(spec, Obj) else None
            cell.attrs[k] = fs.value if isinstance(fs, Const) else lift_value(I, x, fs, memo)
        return r
    else:
        return v
    memo[id(v)] = (r, v)      # keep v alive: ids of temporaries are re-used
    return r


def lower_value(I, v, depth=0):
    """Engine value -> comparable CPython structure."""
    if isinstance(v, Sym):
        raise Unsupported("symbolic value in concrete run")
    if isinstance(v, SeqV):
        if v.items is None:
            raise Unsupported("symbolic-shape sequence in concrete run")
        items = [lower_value(I, x, depth + 1) for x in v.items]
        if v.kind == "bytes":
            return bytes(items)
        if v.kind == "bytearray":
            return bytearray(items)
        if v.kind == "str":
            return "".join(chr(i) if isinstance(i, int) else i for i in items)
        if v.kind == "tuple":
            return tuple(items)
        return items
    if isinstance(v, Ref):
        cell = I.path.cell(v)
        if isinstance(cell, SeqCell):
            return lower_value(I, cell.seq, depth + 1)
        if isinstance(cell, DictCell):
            return {k: lower_value(I, x, depth + 1) for k, x in cell.d.items()}
        if isinstance(cell, ObjCell):
            if depth > 4:
                return ("obj", cell.cls.__name__)
            return ("obj", cell.cls.__name__, {k: lower_value(I, x, depth + 1) for k, x in sorted(cell.attrs.items()) if not k.startswith("g_") and not _is_sync(x)})
    if isinstance(v, Opaque):
        return ("opaque", v.pytype.__name__)
    return v


def _is_sync(x):
    return isinstance(x, Opaque) and x.pytype in (_SYNC_TYPES or ()) or isinstance(x, _SYNC_TYPES or ()) or type(x).__name__ in ("LockModel", "ConditionModel")


def native_view(v, depth=0):
    import enum
    if isinstance(v, enum.Enum):
        return v
    if isinstance(v, (list, tuple)) and not isinstance(v, (bytes, bytearray)):
        t = [native_view(x, depth + 1) for x in v]
        return tuple(t) if isinstance(v, tuple) else t
    if isinstance(v, dict):
        return {k: native_view(x, depth + 1) for k, x in v.items()}
    if hasattr(v, "__dict__") and not isinstance(v, type) and extract.allowed_root(getattr(__import__("inspect").getmodule(type(v)), "__file__", "") or "/nonexistent"):
        if depth > 4:
            return ("obj", type(v).__name__)
        return ("obj", type(v).__name__, {k: native_view(x, depth + 1) for k, x in sorted(vars(v).items()) if not k.endswith("logger") and not k.startswith("g_") and not isinstance(x, _SYNC_TYPES or ())})
    return v


def same(a, b):
    if isinstance(a, float) and isinstance(b, float):
        return a == b or (a != a and b != b)
    if isinstance(a, (list, tuple)) and isinstance(b, (list, tuple)) and type(a) is type(b):
        return len(a) == len(b) and all(same(x, y) for x, y in zip(a, b))
    if isinstance(a, dict) and isinstance(b, dict):
        return set(a) == set(b) and all(same(a[k], b[k]) for k in a)
    if isinstance(a, (bytes, bytearray)) and isinstance(b, (bytes, bytearray)):
        return bytes(a) == bytes(b) and type(a) is type(b)
    if isinstance(a, tuple) and len(a) == 2 and a[0] == "opaque":
        return isinstance(b, str if a[1] == "str" else object)
    return type(a) is type(b) and a == b


def crosscheck_unit(ccls, case, n=12, seed=0):
    """-> dict(compared=int, skipped=reason|None, mismatches=[...])."""
    if getattr(ccls, "lemma", False) or getattr(ccls, "abstract", False):
        return {"compared": 0, "skipped": "lemma / assumed contract (no code path)", "mismatches": []}
    def _blocks_native(u):
        u = u[0] if isinstance(u, tuple) else u
        if not getattr(u, "abstract", False):
            return False
        # abstract stand-ins of spec.ext that carry a native reading (a body that records into the ghost fields) can run natively
        if u.target.startswith("spec.ext:"):
            try:
                import inspect as _i
                from . import extract as _e
                obj, owner, module = _e.lookup(u.target)
                return "NotImplementedError" in _i.getsource(_e.raw_function(obj))
            except Exception:
                return True
        return True

    if getattr(ccls, "uses", None) and any(_blocks_native(u) for u in ccls.uses):
        return {"compared": 0, "skipped": "uses assumed external/ghost contracts (cannot run natively)", "mismatches": []}
    if getattr(ccls, "rely", None):
        return {"compared": 0, "skipped": "environment (rely) model", "mismatches": []}
    fn, defcls, info, obj = resolve_target(ccls, case)
    specs = ccls.inputs(**case) if case else ccls.inputs()
    params = [p.arg for p in info.node.args.posonlyargs + info.node.args.args]
    rnd = random.Random(f"{seed}/{ccls.cname}/{sorted(case.items()) if case else ''}".__hash__() & 0xFFFFFFF)
    rnd = random.Random(seed * 7919 + sum(map(ord, ccls.cname)))
    compared = 0
    mismatches = []
    contract_evals = 0
    contract_failures = []
    contract_errors = []
    blocked = 0
    tries = 0
    codec_tables = getattr(ccls, "codec_tables", None)
    sample_fn = getattr(ccls, "samples", None)
    sample_iter = iter(sample_fn(rnd, **case) if case else sample_fn(rnd)) if sample_fn is not None else None
    while compared < n and tries < n * 30:
        tries += 1
        rnd.__dict__["_regions"] = {}       # objects of a heap region are shared by the parameters of ONE sample
        try:
            args = {}
            given = next(sample_iter, None) if sample_iter is not None else None
            if sample_iter is not None and given is None:
                break
            for p in params:
                if given is not None and p in given:
                    args[p] = given[p]
                    continue
                if p in specs:
                    args[p] = random_concrete(specs[p], rnd)
                else:
                    d = _default_for(fn, info, p)
                    if d is _NODEFAULT:
                        return {"compared": 0, "skipped": f"no spec for {p}", "mismatches": []}
                    args[p] = d
            ns = dict(args)
            ns["case"] = case
            ns["old"] = None
            ok = True
            for name, f in contract_functions(ccls, "requires"):
                try:
                    ok = ok and bool(f(*bind_by_name(f, ns)))
                except Exception:
                    ok = False
            if not ok:
                continue
        except Exception:
            continue
        try:
            native_args = clone(args)
        except Exception as exc:
            return {"compared": compared, "skipped": f"inputs cannot be copied ({type(exc).__name__})", "mismatches": mismatches[:3]}
        native_exc = native_ret = None
        box = {}

        def _native():
            try:
                box["ret"] = fn(*[native_args[p] for p in params])
            except Exception as exc:  # noqa
                box["exc"] = exc

        import threading as _th
        th = _th.Thread(target=_native, daemon=True)
        th.start()
        th.join(2.0)
        if th.is_alive():
            blocked += 1        # the call waits for another thread (e.g. an empty ByteQueue): nothing to compare
            if blocked >= 3:
                return {"compared": compared, "skipped": "the real function blocks on these inputs (waits for another thread)" if not compared else None,
                        "mismatches": mismatches[:3], "contract_evals": contract_evals, "contract_failures": contract_failures[:3],
                        "contract_errors": contract_errors[:2]}
            continue
        if "exc" in box:
            native_exc = box["exc"]
            n_out = ("raise", type(native_exc).__name__)
        else:
            native_ret = box.get("ret")
            n_out = ("return", native_view(native_ret))
        # the contract, evaluated natively on the real function's outcome (run-time reading of the same clauses)
        try:
            failed = native_contract(ccls, case, args, native_args, native_exc, native_ret)
            contract_evals += 1
            if failed:
                contract_failures.append({"inputs": {k: _show(v) for k, v in args.items()}, "failed_clauses": failed,
                                          "observed": {"outcome": n_out[0], "value": _show(native_ret) if native_exc is None else repr(native_exc)[:200]}})
        except Exception as exc:
            contract_errors.append(f"{type(exc).__name__}: {exc}"[:200])
        n_post = {p: native_view(native_args[p]) for p in params if hasattr(native_args[p], "__dict__") and not isinstance(native_args[p], type)}
        # engine, concretely
        ex = Explorer()
        path = Path(ex, [])
        I = Interp(path, callee_contracts={}, codec_tables=codec_tables() if callable(codec_tables) else codec_tables)
        I.loop_specs = {}
        I.case = case
        I.unit_label = "crosscheck"
        frame = Frame(fn.__globals__, defcls, None, info)
        I.top_frame = frame
        memo = {}
        try:
            cloned = clone(args)        # one copy of all parameters together: objects shared between parameters stay shared
            eng_args = {p: lift_value(I, cloned[p], specs.get(p), memo) for p in params}
            for p, v in eng_args.items():
                frame.locals[p] = v
            if params:
                frame.self_name = params[0]
            frame.loop_contracts = {}
            frame.loop_ordinals = number_loops(info.node)
            I.depth = 1
            try:
                try:
                    I.exec_block(info.node.body, frame)
                    e_out = ("return", lower_value(I, None))
                except _Return as r:
                    e_out = ("return", lower_value(I, r.value))
            except PyRaise as pr:
                e_out = ("raise", pr.exc.cls.__name__)
            e_post = {p: lower_value(I, eng_args[p]) for p in params if isinstance(eng_args[p], Ref) and isinstance(path.cell(eng_args[p]), ObjCell)}
        except Unsupported as exc:
            # concrete runs may need more unrolling than the engine allows (e.g. a 300-iteration loop): not a mismatch
            continue
        compared += 1
        if e_out[0] != n_out[0] or (e_out[0] == "raise" and e_out[1] != n_out[1] and not _exc_compatible(e_out[1], n_out[1])) or \
                (e_out[0] == "return" and not same(e_out[1], n_out[1])):
            mismatches.append({"inputs": repr({k: native_view(v) for k, v in args.items()})[:300], "engine": repr(e_out)[:200], "cpython": repr(n_out)[:200]})
        elif e_out[0] == "return":
            for p in e_post:
                if p in n_post and not same(e_post[p], n_post[p]):
                    mismatches.append({"inputs": repr({k: native_view(v) for k, v in args.items()})[:300], "field_state_engine": repr(e_post[p])[:200], "field_state_cpython": repr(n_post[p])[:200]})
    return {"compared": compared, "skipped": None if compared else "no input satisfying requires found", "mismatches": mismatches[:3],
            "contract_evals": contract_evals, "contract_failures": contract_failures[:3], "contract_errors": contract_errors[:2]}


def native_contract(ccls, case, args_before, args_after, exc, ret):
    """-> list of failed clause names for one native run (args_before: untouched copies; args_after: the objects the call ran on)."""
    import types
    ns_old = dict(args_before)
    ns_old["case"] = case
    ns_old["old"] = None
    raise_conds = {}
    for name, f in contract_functions(ccls, "raises"):
        raise_conds.update(f(*bind_by_name(f, ns_old)))
    failed = []
    if exc is not None:
        declared = [k for k in raise_conds if isinstance(exc, k)]
        may = tuple(getattr(ccls, "may_raise", ()) or ())
        if not declared and may and isinstance(exc, may):
            return failed        # the contract leaves open when these exceptions occur
        if not declared:
            failed.append(f"unexpected exception {type(exc).__name__}: {exc}"[:160])
        elif not _truth(raise_conds[declared[0]]):
            failed.append(f"raised {type(exc).__name__} although its raising condition is false")
        return failed
    for k, c in raise_conds.items():
        if _truth(c):
            failed.append(f"returned normally although {k.__name__} is required")
    ns = dict(args_after)
    ns["case"] = case
    ns["old"] = types.SimpleNamespace(**args_before)
    ns["result"] = ret
    for name, f in contract_functions(ccls, "ensures"):
        r = f(*bind_by_name(f, ns))
        if isinstance(r, dict):
            failed.extend(f"{name}.{k}" for k, c in r.items() if not c)
        elif not r:
            failed.append(name)
    return failed


def _truth(c):
    return bool(c[0]) if isinstance(c, tuple) else bool(c)


def _show(v):
    from .verify import _show as show
    return show(v)


def _exc_compatible(engine_name, native_name):
    """struct.error is raised as 'error'; subclass relations (UnicodeEncodeError is a ValueError) are accepted."""
    if engine_name == native_name:
        return True
    pairs = {("error", "error"), ("struct.error", "error")}
    return (engine_name, native_name) in pairs
