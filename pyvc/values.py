"""Value universe of the symbolic partial evaluator.

Concrete Python scalars (int, bool, float, str, bytes, None, classes, functions, modules, enum members ...)
are represented by themselves.  Everything that can be symbolic is one of the classes below.
"""
from __future__ import annotations

import z3

F64 = z3.Float64()
F32 = z3.Float32()
RNE = z3.RNE()


class Unsupported(Exception):
    """The construct is outside the subset pyvc executes: the function is 'out of reach' (never 'violated')."""


class Sym:
    """Symbolic scalar. kind in {'int', 'bool', 'float'}; t is a z3 term of sort Int / Bool / Float64."""

    __slots__ = ("kind", "t")

    def __init__(self, kind, t):
        self.kind = kind
        self.t = t

    def __repr__(self):
        return f"Sym<{self.kind}:{self.t}>"

    def __bool__(self):  # guard against accidental concrete use
        raise Unsupported(f"implicit bool() of symbolic value {self!r} inside the engine")


class Opaque:
    """A value we know nothing about except its Python type (e.g. a formatted message string)."""

    __slots__ = ("pytype", "note")

    def __init__(self, pytype, note=""):
        self.pytype = pytype
        self.note = note

    def __repr__(self):
        return f"Opaque<{self.pytype.__name__}:{self.note}>"


class FmtStr:
    """f-string whose non-literal parts are symbolic integers (struct formats such as f">L10s{n}s")."""

    __slots__ = ("parts",)

    def __init__(self, parts):
        self.parts = parts

    def __repr__(self):
        return f"FmtStr<{self.parts!r}>"


class Ref:
    """Pointer to a heap cell (object, mutable sequence or dict)."""

    __slots__ = ("addr",)

    def __init__(self, addr):
        self.addr = addr

    def __repr__(self):
        return f"Ref({self.addr})"

    def __eq__(self, other):
        return isinstance(other, Ref) and other.addr == self.addr

    def __hash__(self):
        return hash(("Ref", self.addr))


class ObjCell:
    __slots__ = ("cls", "attrs", "partial")

    def __init__(self, cls, attrs=None, partial=False):
        self.cls = cls
        self.attrs = dict(attrs or {})
        # partial: built from a contract's input shape, which names only the fields the contract knows about; reading
        # any other instance field is outside the contract's reach (Unsupported), not an AttributeError of the program
        self.partial = partial

    def copy(self):
        return ObjCell(self.cls, self.attrs, self.partial)


class DictCell:
    """dict with concrete (hashable, Python-level) keys; values are arbitrary engine values."""

    __slots__ = ("d",)

    def __init__(self, d=None):
        self.d = dict(d or {})

    def copy(self):
        return DictCell(self.d)


class SymKey:
    """A dictionary key that is a symbolic scalar.  Keys of one dict are NOT assumed distinct: every lookup, store and
    deletion compares the given key with each stored key by forking on equality."""

    __slots__ = ("sym",)

    def __init__(self, sym):
        self.sym = sym

    def __repr__(self):
        return f"SymKey<{self.sym!r}>"


class SeqV:
    """Immutable sequence value.

    kind: 'bytes' | 'bytearray' | 'list' | 'tuple' | 'str'
    elem: 'int' | 'bool' | 'float' | None (None: heterogeneous, only with items)
    items: Python list of element values (concrete shape)  -- or --
    arr/length: z3 array Int->elem sort and z3 Int (or Python int) length (symbolic shape)
    Mutable kinds (list, bytearray) live in the heap as the content of a SeqCell.
    """

    __slots__ = ("kind", "elem", "items", "arr", "length", "peel")

    def __init__(self, kind, elem=None, items=None, arr=None, length=None, peel=None):
        self.kind = kind
        self.elem = elem
        self.items = items
        self.arr = arr
        self.length = length
        self.peel = peel   # (prefix items, tail SeqV) when built as concrete-shape prefix ++ symbolic tail

    def __repr__(self):
        if self.items is not None:
            return f"SeqV<{self.kind}:{self.items!r}>"
        return f"SeqV<{self.kind}[{self.elem}] len={self.length}>"

    def __bool__(self):
        raise Unsupported("implicit bool() of sequence value inside the engine")

    @property
    def concrete_shape(self):
        return self.items is not None

    def with_kind(self, kind):
        return SeqV(kind, self.elem, self.items, self.arr, self.length)


class SeqCell:
    __slots__ = ("seq",)

    def __init__(self, seq):
        self.seq = seq

    def copy(self):
        return SeqCell(self.seq)


class MapCell:
    """dict with symbolic scalar keys: dom: Array K Bool, val: Array K V (V scalar sort or Int for refs)."""

    __slots__ = ("ksort", "vkind", "dom", "val", "refcls", "fields", "n", "fields0", "rname", "optional")

    def __init__(self, ksort, vkind, dom, val, refcls=None, fields=None, n=None, fields0=None, rname=None):
        self.ksort = ksort
        self.vkind = vkind
        self.dom = dom
        self.val = val
        self.refcls = refcls
        # vkind == "ref": the values are objects of class refcls, one per key, stored as a struct of arrays:
        # fields[name] = (kind, Array K -> sort(kind))
        # kind "link": Array K -> Int, the key of another object of the same map, -1 for None
        # kind "facade": (class, back-reference attribute) - an abstract helper object bound to the element
        self.fields = dict(fields or {})
        # heap region (contract.Region): the keys are 0 .. n-1 (n symbolic); fields0 = the field arrays of the pre-state
        self.n = n
        self.fields0 = fields0 if fields0 is not None else dict(self.fields)
        self.rname = rname
        self.optional = {}        # field -> boolean flag field: the field reads as None in the code unless the flag is true

    def copy(self):
        c = MapCell(self.ksort, self.vkind, self.dom, self.val, self.refcls, self.fields, self.n, self.fields0, self.rname)
        c.optional = self.optional
        return c


class RegionListCell:
    """The list of all objects of a region, in key order."""

    __slots__ = ("region",)

    def __init__(self, region):
        self.region = region      # Ref of the region's MapCell

    def copy(self):
        return RegionListCell(self.region)


class ElemListCell:
    """A Python list whose items are objects of ONE heap region: the keys of the items as an integer sequence (any length)."""

    __slots__ = ("region", "keys")

    def __init__(self, region, keys):
        self.region = region      # Ref of the region's MapCell
        self.keys = keys          # SeqV("list", "int", ...)

    def copy(self):
        return ElemListCell(self.region, self.keys)


class MapElem:
    """The object stored under a (symbolic) key of a reference-valued MapCell; attribute reads/writes go to the
    map's field arrays at that key, so two keys that are equal denote the same object."""

    __slots__ = ("map_ref", "key", "old")

    def __init__(self, map_ref, key, old=False):
        self.map_ref = map_ref
        self.key = key
        self.old = old


class RangeV:
    __slots__ = ("lo", "hi", "step")

    def __init__(self, lo, hi, step=1):
        self.lo = lo
        self.hi = hi
        self.step = step


class EnumerateV:
    __slots__ = ("it", "start")

    def __init__(self, it, start=0):
        self.it = it
        self.start = start


class ExcV:
    """An exception instance in value space."""

    __slots__ = ("cls", "args", "attrs")

    def __init__(self, cls, args=()):
        self.cls = cls
        self.args = tuple(args)
        self.attrs = {}

    def __repr__(self):
        return f"ExcV<{self.cls.__name__}>"


class BoundMethod:
    __slots__ = ("fn", "self_val", "defcls")

    def __init__(self, fn, self_val, defcls=None):
        self.fn = fn
        self.self_val = self_val
        self.defcls = defcls

    def __repr__(self):
        return f"BoundMethod<{getattr(self.fn, '__qualname__', self.fn)}>"


class Closure:
    """lambda / nested def evaluated by the engine."""

    __slots__ = ("node", "frame", "defcls", "name")

    def __init__(self, node, frame, defcls=None, name="<lambda>"):
        self.node = node
        self.frame = frame
        self.defcls = defcls
        self.name = name


class SuperV:
    __slots__ = ("cls", "self_val")

    def __init__(self, cls, self_val):
        self.cls = cls
        self.self_val = self_val


class OldView:
    """Read-only view of a reference in the pre-state heap (contract `old`)."""

    __slots__ = ("ref",)

    def __init__(self, ref):
        self.ref = ref


# ------------------------------------------------------------------ z3 helpers

def sort_of(kind):
    return {"int": z3.IntSort(), "bool": z3.BoolSort(), "float": F64, "ref": z3.IntSort()}[kind]


def kind_of_py(v):
    if isinstance(v, bool):
        return "bool"
    if isinstance(v, int):
        return "int"
    if isinstance(v, float):
        return "float"
    return None


def kind_of(v):
    if isinstance(v, Sym):
        return v.kind
    return kind_of_py(v)


def is_scalar(v):
    return isinstance(v, (Sym, bool, int, float))


def fpval(x: float):
    return z3.FPVal(x, F64)


def to_term(v, kind):
    """z3 term of the requested kind for a scalar value (Python bool->int coercions included)."""
    if isinstance(v, z3.ExprRef):
        return v
    if isinstance(v, Sym):
        if v.kind == kind:
            return v.t
        if v.kind == "bool" and kind == "int":
            return z3.If(v.t, z3.IntVal(1), z3.IntVal(0))
        if v.kind == "bool" and kind == "float":
            return z3.If(v.t, fpval(1.0), fpval(0.0))
        if v.kind == "int" and kind == "float":
            # Python int -> float conversion: round to nearest even (OverflowError for huge ints is not modelled;
            # callers that rely on it must add the range obligation themselves)
            return z3.fpToFP(RNE, z3.ToReal(v.t), F64)
        if v.kind == "int" and kind == "bool":
            return v.t != 0
        raise Unsupported(f"cannot coerce {v.kind} to {kind}")
    if kind == "int":
        if isinstance(v, (bool, int)):
            return z3.IntVal(int(v))
    elif kind == "bool":
        if isinstance(v, bool):
            return z3.BoolVal(v)
        if isinstance(v, int):
            return z3.BoolVal(v != 0)
    elif kind == "float":
        if isinstance(v, (bool, int, float)):
            return fpval(float(v))
    raise Unsupported(f"cannot make a {kind} term of {v!r}")


def mk(kind, t):
    """Wrap a term, folding literals back to Python values."""
    if kind == "int":
        t = z3.simplify(t) if not z3.is_int_value(t) and t.num_args() <= 8 else t
        if z3.is_int_value(t):
            return t.as_long()
    elif kind == "bool":
        if z3.is_true(t):
            return True
        if z3.is_false(t):
            return False
    return Sym(kind, t)


def is_concrete(v):
    """True if the value contains no symbolic part (shallow for sequences)."""
    if isinstance(v, (Sym, Opaque)):
        return False
    if isinstance(v, SeqV):
        return v.items is not None and all(is_concrete(i) for i in v.items)
    return True


# ------------------------------------------------------------------ float <-> bytes abstraction
# struct 'f'/'d' conversions are modelled by uninterpreted functions; their IEEE-754 meaning enters proofs only
# through separately proved lemmas (contracts/lemmas_float.py).  This keeps array/quantifier VCs free of bit-blasting.
_I = z3.IntSort()
UF_F32 = z3.Function("f32_of_bytes", _I, _I, _I, _I, F64)
UF_F64 = z3.Function("f64_of_bytes", _I, _I, _I, _I, _I, _I, _I, _I, F64)
UF_F32B = [z3.Function(f"f32_byte{k}", F64, _I) for k in range(4)]
UF_F64B = [z3.Function(f"f64_byte{k}", F64, _I) for k in range(8)]


PS = z3.Function("prefix_sum", z3.ArraySort(_I, _I), _I, _I)


def background_axioms():
    """Range facts of the byte-producing functions (always sound: a byte is 0..255)."""
    v = z3.FP("bg!v", F64)
    out = []
    for f in UF_F32B + UF_F64B:
        out.append(z3.ForAll([v], z3.And(f(v) >= 0, f(v) <= 255), patterns=[f(v)]))
    a = z3.Array("bg!a", _I, _I)
    i = z3.Int("bg!i")
    out.append(z3.ForAll([a, i], z3.If(i <= 0, PS(a, i) == 0, PS(a, i) == PS(a, i - 1) + z3.Select(a, i - 1)), patterns=[PS(a, i)]))
    return out


def reach_function(rname, field):
    """Closure relation over the links `field` of the region `rname` (pre-state), an uninterpreted relation."""
    return z3.Function(f"reach!{rname}!{field}", z3.IntSort(), z3.IntSort(), z3.BoolSort())


def reach_definition(rname, field, arr0):
    """reach(a, b) == (a == b or (a is an object, link[a] is not None and reach(link[a], b))): the fixpoint equation.  It is
    consistent for every link array (the least fixpoint satisfies it) and has exactly one solution when the links are
    acyclic, which the contracts require through a strictly decreasing ghost depth."""
    F = reach_function(rname, field)
    a, b = z3.Int("ra!"), z3.Int("rb!")
    nxt = z3.Select(arr0, a)
    return z3.ForAll([a, b], F(a, b) == z3.Or(a == b, z3.And(a >= 0, nxt != -1, F(nxt, b))), patterns=[F(a, b)])
