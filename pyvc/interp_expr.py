"""Expression evaluation of the symbolic partial evaluator."""
from __future__ import annotations

import ast
import builtins
import enum
import operator
import types

import z3

from . import seqops
from .core import PyRaise
from .values import (BoundMethod, Closure, DictCell, ElemListCell, EnumerateV, ExcV, MapCell, MapElem, ObjCell, RegionListCell, SymKey, OldView, Opaque, RangeV,
                     Ref, SeqCell, SeqV, SuperV, Sym, Unsupported, fpval, is_scalar, kind_of, mk, to_term)

_CMP = {ast.Eq: "==", ast.NotEq: "!=", ast.Lt: "<", ast.LtE: "<=", ast.Gt: ">", ast.GtE: ">="}
_PYBIN = {
    ast.Add: operator.add, ast.Sub: operator.sub, ast.Mult: operator.mul, ast.FloorDiv: operator.floordiv,
    ast.Mod: operator.mod, ast.LShift: operator.lshift, ast.RShift: operator.rshift, ast.BitAnd: operator.and_,
    ast.BitOr: operator.or_, ast.BitXor: operator.xor, ast.Div: operator.truediv, ast.Pow: operator.pow,
}

SIMPLE_NODES = (ast.Compare, ast.BoolOp, ast.UnaryOp, ast.Name, ast.Constant, ast.Attribute, ast.BinOp)


def _is_simple(node):
    """Expression that cannot raise or have effects in our subset: evaluated eagerly inside and/or."""
    if isinstance(node, ast.Call):
        return isinstance(node.func, ast.Name) and node.func.id in ("len", "isinstance") and all(_is_simple(a) for a in node.args)
    if isinstance(node, ast.Attribute):
        return _is_simple(node.value)
    if isinstance(node, (ast.Name, ast.Constant)):
        return True
    if isinstance(node, ast.Tuple):
        return all(_is_simple(e) for e in node.elts)
    if isinstance(node, ast.UnaryOp):
        return _is_simple(node.operand)
    if isinstance(node, ast.BoolOp):
        return all(_is_simple(v) for v in node.values)
    if isinstance(node, ast.Compare):
        return _is_simple(node.left) and all(_is_simple(c) for c in node.comparators) and all(
            isinstance(o, tuple(_CMP)) or isinstance(o, (ast.Is, ast.IsNot)) for o in node.ops)
    if isinstance(node, ast.BinOp):
        return isinstance(node.op, (ast.Add, ast.Sub, ast.Mult)) and _is_simple(node.left) and _is_simple(node.right)
    return False


def contiguous_runs(mask: int):
    """[(lo, width)] of the runs of 1 bits of a non-negative mask."""
    runs = []
    pos = 0
    while mask:
        if mask & 1:
            lo = pos
            while mask & 1:
                mask >>= 1
                pos += 1
            runs.append((lo, pos - lo))
        else:
            mask >>= 1
            pos += 1
    return runs


class ExprMixin:
    # ------------------------------------------------------------------ truthiness
    def truthy(self, v):
        """Python bool or z3 Bool."""
        if isinstance(v, Sym):
            if v.kind == "bool":
                return v.t
            if v.kind == "int":
                return v.t != 0
            if v.kind == "float":
                return z3.Not(z3.fpIsZero(v.t))
        if isinstance(v, SeqV):
            n = seqops.length(v)
            return n != 0 if isinstance(n, int) else n != 0
        if isinstance(v, Ref):
            cell = self.path.cell(v)
            if isinstance(cell, SeqCell):
                return self.truthy(cell.seq)
            if isinstance(cell, DictCell):
                return len(cell.d) != 0
            if isinstance(cell, ElemListCell):
                return self.truthy(cell.keys)
            if isinstance(cell, MapCell):
                raise Unsupported("truthiness of symbolic map")
            if isinstance(cell, ObjCell):
                for name in ("__bool__", "__len__"):
                    m = self.find_method(cell.cls, name)
                    if m is not None:
                        r = self.call_value(BoundMethod(m[0], v, m[1]), [], {})
                        return self.truthy(r)
                return True
        if isinstance(v, Opaque):
            raise Unsupported("truthiness of opaque value")
        if isinstance(v, (ExcV, BoundMethod, Closure)):
            return True
        return bool(v)

    def branch(self, v) -> bool:
        return self.path.decide(self.truthy(v))

    # ------------------------------------------------------------------ entry point
    def eval(self, node, frame):
        m = getattr(self, "e_" + type(node).__name__, None)
        if m is None:
            raise Unsupported(f"expression {type(node).__name__} at line {getattr(node, 'lineno', '?')}")
        return m(node, frame)

    def e_Constant(self, node, frame):
        return node.value

    def e_Name(self, node, frame):
        return self.lookup_name(node.id, frame)

    def lookup_name(self, name, frame):
        f = frame
        while f is not None:
            if name in f.locals:
                return f.locals[name]
            f = f.parent
        g = frame.globals
        if g is not None and name in g:
            return self.lift(g[name])
        if name in self.intrinsics:
            return self.intrinsics[name]
        if hasattr(builtins, name):
            return getattr(builtins, name)
        raise PyRaise(ExcV(NameError, (name,)))

    def e_JoinedStr(self, node, frame):
        parts = []
        concrete = True
        fparts = []
        fmt_ok = True
        for v in node.values:
            if isinstance(v, ast.Constant):
                fparts.append(v.value)
            else:
                val0 = self.eval(v.value, frame)
                if isinstance(val0, Sym) and val0.kind == "int" and v.conversion == -1 and v.format_spec is None:
                    fparts.append(val0)
                elif isinstance(val0, (int, str)) and not isinstance(val0, bool) and v.conversion == -1 and v.format_spec is None:
                    fparts.append(str(val0))
                else:
                    fmt_ok = False
        if fmt_ok and any(isinstance(x, Sym) for x in fparts):
            from .values import FmtStr
            return FmtStr(fparts)
        for v in node.values:
            if isinstance(v, ast.Constant):
                parts.append(v.value)
            else:
                val = self.eval(v.value, frame)
                if isinstance(val, (int, str, float, bool)) and not isinstance(val, Sym) and v.conversion == -1:
                    spec = ""
                    if v.format_spec is not None:
                        spec = self.eval(v.format_spec, frame)
                        if not isinstance(spec, str):
                            concrete = False
                            continue
                    parts.append(format(val, spec))
                elif isinstance(val, type) and v.conversion == -1 and v.format_spec is None:
                    parts.append(str(val))
                else:
                    concrete = False
        if concrete:
            return "".join(parts)
        return Opaque(str, "formatted")

    def e_FormattedValue(self, node, frame):
        return self.eval(node.value, frame)

    def e_Tuple(self, node, frame):
        return SeqV("tuple", None, items=self._elts(node.elts, frame))

    def _elts(self, elts, frame):
        items = []
        for e in elts:
            if isinstance(e, ast.Starred):
                v = self.eval(e.value, frame)
                items.extend(self.iter_concrete(v))
            else:
                items.append(self.eval(e, frame))
        return items

    def e_List(self, node, frame):
        items = self._elts(node.elts, frame)
        return self.path.alloc(SeqCell(SeqV("list", seqops.elem_kind_of_items(items) if items else None, items=items)))

    def e_Dict(self, node, frame):
        d = {}
        for k, v in zip(node.keys, node.values):
            if k is None:
                src = self.eval(v, frame)
                cell = self.path.cell(src) if isinstance(src, Ref) else None
                if not isinstance(cell, DictCell):
                    raise Unsupported("** of non-dict")
                d.update(cell.d)
                continue
            key = self.eval(k, frame)
            d[self.hashable_key(key)] = self.eval(v, frame)
        return self.path.alloc(DictCell(d))

    def hashable_key(self, key):
        if isinstance(key, (Sym, SeqV, Opaque)):
            if isinstance(key, SeqV):
                p = seqops.to_py(key)
                if p is not None:
                    return p
                if key.kind == "tuple" and key.items is not None:
                    return tuple(self.hashable_key(k) for k in key.items)
            raise Unsupported("symbolic dict key in concrete dict")
        return key

    def e_IfExp(self, node, frame):
        if self.branch(self.eval(node.test, frame)):
            return self.eval(node.body, frame)
        return self.eval(node.orelse, frame)

    def e_Lambda(self, node, frame):
        return Closure(node, frame, frame.defcls)

    def e_NamedExpr(self, node, frame):
        v = self.eval(node.value, frame)
        frame.locals[node.target.id] = v
        return v

    # ------------------------------------------------------------------ boolean / comparison
    def e_BoolOp(self, node, frame):
        is_and = isinstance(node.op, ast.And)
        vals = node.values
        cur = self.eval(vals[0], frame)
        for nxt in vals[1:]:
            t = self.truthy(cur)
            if isinstance(t, bool):
                if t != is_and:
                    return cur
                cur = self.eval(nxt, frame)
                continue
            if (_is_simple(nxt) or getattr(self, "spec_depth", 0) > 0) and isinstance(cur, Sym) and cur.kind == "bool":
                # pure right operand: build the connective instead of forking
                mark = len(self.path.pc)
                if _is_simple(nxt):
                    r = self.eval(nxt, frame)
                    if len(self.path.pc) != mark:
                        raise Unsupported("decision inside a 'simple' boolean operand")
                else:
                    # specification context: operands are total, evaluate without short-circuit forking
                    from .interp_call import NoFeasiblePath
                    try:
                        r = self.pure(lambda: self.eval(nxt, frame), assume=(t if is_and else z3.Not(t)))
                    except NoFeasiblePath:
                        return cur
                rt = self.truthy(r)
                if isinstance(r, (bool, Sym)) and (isinstance(r, bool) or r.kind == "bool"):
                    rz = z3.BoolVal(rt) if isinstance(rt, bool) else rt
                    cur = mk("bool", z3.simplify(z3.And(t, rz) if is_and else z3.Or(t, rz)))
                    continue
                # non-bool right operand: fall through to forking using the already computed value
                if self.path.decide(t) != is_and:
                    return cur
                cur = r
                continue
            if self.path.decide(t) != is_and:
                return cur
            cur = self.eval(nxt, frame)
        return cur

    def e_UnaryOp(self, node, frame):
        v = self.eval(node.operand, frame)
        if isinstance(node.op, ast.Not):
            t = self.truthy(v)
            return (not t) if isinstance(t, bool) else mk("bool", z3.Not(t))
        if isinstance(node.op, ast.USub):
            if isinstance(v, Sym):
                if v.kind == "float":
                    return Sym("float", z3.fpNeg(v.t))
                return mk("int", -to_term(v, "int"))
            return -v
        if isinstance(node.op, ast.UAdd):
            return v
        if isinstance(node.op, ast.Invert):
            if isinstance(v, Sym):
                return mk("int", -to_term(v, "int") - 1)
            return ~v
        raise Unsupported("unary op")

    def e_Compare(self, node, frame):
        left = self.eval(node.left, frame)
        conj = []
        for op, cnode in zip(node.ops, node.comparators):
            right = self.eval(cnode, frame)
            c = self.compare(op, left, right)
            if c is False:
                return False
            if c is not True:
                if not (isinstance(c, Sym) and c.kind == "bool"):
                    raise Unsupported("non-bool comparison result")
                conj.append(c.t)
            left = right
        if not conj:
            return True
        return mk("bool", z3.simplify(z3.And(*conj)) if len(conj) > 1 else conj[0])

    def compare(self, op, a, b):
        """Python bool or Sym bool."""
        if isinstance(op, (ast.Is, ast.IsNot)):
            r = self.identical(a, b)
            if isinstance(r, Sym):
                return r if isinstance(op, ast.Is) else mk("bool", z3.Not(r.t))
            return r if isinstance(op, ast.Is) else (not r)
        if isinstance(op, (ast.In, ast.NotIn)):
            r = self.contains(b, a)
            if isinstance(op, ast.In):
                return r
            return (not r) if isinstance(r, bool) else mk("bool", z3.Not(r.t))
        sym = _CMP[type(op)]
        if sym in ("==", "!="):
            r = self.equals(a, b)
            if sym == "==":
                return r
            return (not r) if isinstance(r, bool) else mk("bool", z3.Not(r.t))
        return self.order(sym, a, b)

    def identical(self, a, b):
        if isinstance(a, MapElem) or isinstance(b, MapElem):
            # objects of a heap region: the same object iff the keys are equal; key -1 stands for None (specification context)
            if a is None or b is None:
                e = a if b is None else b
                t = z3.simplify(e.key == -1)
            elif isinstance(a, MapElem) and isinstance(b, MapElem) and a.map_ref.addr == b.map_ref.addr:
                t = z3.simplify(a.key == b.key)
            else:
                return False
            if z3.is_true(t):
                return True
            if z3.is_false(t):
                return False
            return mk("bool", t)
        if isinstance(a, (Sym, SeqV)) or isinstance(b, (Sym, SeqV)):
            if a is None or b is None:
                return False
            if isinstance(a, type) or isinstance(b, type):
                return False
            raise Unsupported("`is` on symbolic values")
        if isinstance(a, Ref) or isinstance(b, Ref):
            return isinstance(a, Ref) and isinstance(b, Ref) and a.addr == b.addr
        if isinstance(a, Opaque) or isinstance(b, Opaque):
            if a is None or b is None:
                return False
            raise Unsupported("`is` on opaque values")
        return a is b

    def as_seq(self, v):
        """SeqV for sequence-like values (deref heap lists, lift concrete bytes/str), else None."""
        if isinstance(v, SeqV):
            return v
        if isinstance(v, Ref):
            cell = self.path.cell(v)
            if isinstance(cell, SeqCell):
                return cell.seq
            return None
        if isinstance(v, (bytes, bytearray, str)):
            return seqops.from_py(v)
        return None

    def equals(self, a, b):
        """Python `==`: Python bool or Sym bool."""
        if isinstance(a, MapElem) or isinstance(b, MapElem):
            for x in (a, b):
                if isinstance(x, MapElem):
                    cell = self.old_heap[x.map_ref.addr] if x.old else self.path.cell(x.map_ref)
                    m = self.find_method(cell.refcls, "__eq__")
                    if m is not None and m[0] is not object.__eq__:
                        raise Unsupported("__eq__ of a region object")
            return self.identical(a, b)
        if isinstance(a, Ref) != isinstance(b, Ref):
            a, b = self.unwrap_key(a), self.unwrap_key(b)      # A-KEY: a decoded item compared with a plain value
        if is_scalar(a) and is_scalar(b):
            if not isinstance(a, Sym) and not isinstance(b, Sym):
                return a == b
            c = seqops.elem_eq(a, b, None)
            return c if isinstance(c, bool) else mk("bool", c)
        sa, sb = self.as_seq(a), self.as_seq(b)
        if sa is not None and sb is not None:
            if sa.items is not None and sb.items is not None and sa.elem is None or (sb is not None and sb.items is not None and sb.elem is None):
                return self._equal_hetero(sa, sb)
            c = seqops.equal(sa, sb)
            return c if isinstance(c, bool) else mk("bool", c)
        if (sa is not None) != (sb is not None):
            other = b if sa is not None else a
            if is_scalar(other) or other is None or isinstance(other, (type, enum.Enum)):
                return False
        for x, y in ((a, b), (b, a)):
            if isinstance(x, Ref) and isinstance(self.path.cell(x), ObjCell):
                m = self.find_method(self.path.cell(x).cls, "__eq__")
                if m is not None and m[0] is not object.__eq__:
                    return self.call_value(BoundMethod(m[0], x, m[1]), [y], {})
                return isinstance(y, Ref) and x.addr == y.addr
        if isinstance(a, Ref) and isinstance(b, Ref):
            ca, cb = self.path.cell(a), self.path.cell(b)
            if isinstance(ca, DictCell) and isinstance(cb, DictCell):
                if set(ca.d) != set(cb.d):
                    return False
                cs = []
                for k in ca.d:
                    c = self.equals(ca.d[k], cb.d[k])
                    if c is False:
                        return False
                    if c is not True:
                        cs.append(c.t)
                return mk("bool", z3.And(*cs)) if cs else True
        if isinstance(a, (Sym, SeqV, Opaque)) or isinstance(b, (Sym, SeqV, Opaque)):
            if a is None or b is None:
                return False
            raise Unsupported(f"== between {a!r} and {b!r}")
        if isinstance(a, Ref) or isinstance(b, Ref):
            return False
        return a == b

    def _equal_hetero(self, sa, sb):
        if sa.items is None or sb.items is None:
            raise Unsupported("== of heterogeneous with symbolic-length sequence")
        if not seqops._kinds_comparable(sa, sb) or len(sa.items) != len(sb.items):
            return False
        cs = []
        for x, y in zip(sa.items, sb.items):
            c = self.equals(x, y)
            if c is False:
                return False
            if c is not True:
                cs.append(c.t)
        return mk("bool", z3.And(*cs)) if cs else True

    def order(self, sym, a, b):
        if is_scalar(a) and is_scalar(b):
            if not isinstance(a, Sym) and not isinstance(b, Sym):
                return {"<": operator.lt, "<=": operator.le, ">": operator.gt, ">=": operator.ge}[sym](a, b)
            if "float" in (kind_of(a), kind_of(b)):
                x, y = to_term(a, "float"), to_term(b, "float")
                t = {"<": z3.fpLT, "<=": z3.fpLEQ, ">": z3.fpGT, ">=": z3.fpGEQ}[sym](x, y)
            else:
                x, y = to_term(a, "int"), to_term(b, "int")
                t = {"<": x < y, "<=": x <= y, ">": x > y, ">=": x >= y}[sym]
            return mk("bool", z3.simplify(t))
        if isinstance(a, Ref) and isinstance(self.path.cell(a), ObjCell):
            name = {"<": "__lt__", "<=": "__le__", ">": "__gt__", ">=": "__ge__"}[sym]
            m = self.find_method(self.path.cell(a).cls, name)
            if m is not None:
                return self.call_value(BoundMethod(m[0], a, m[1]), [b], {})
        if isinstance(a, (str, bytes)) and isinstance(b, (str, bytes)):
            return {"<": operator.lt, "<=": operator.le, ">": operator.gt, ">=": operator.ge}[sym](a, b)
        if (isinstance(a, (str, bytes)) and is_scalar(b)) or (isinstance(b, (str, bytes)) and is_scalar(a)):
            # text / bytes against a number: Python raises TypeError for an ordering comparison
            raise PyRaise(ExcV(TypeError, (f"'{sym}' not supported between these types",)))
        raise Unsupported(f"ordering of {a!r} and {b!r}")

    def contains(self, container, item):
        """`item in container`: Python bool or Sym bool."""
        item = self.unwrap_key(item)
        if isinstance(container, OldView) and isinstance(self.old_heap.get(container.ref.addr), MapCell):
            cell = self.old_heap[container.ref.addr]
            return mk("bool", z3.Select(cell.dom, self.map_key(cell, item)))
        if isinstance(container, Ref):
            cell = self.path.cell(container)
            if isinstance(cell, DictCell):
                if isinstance(item, (Sym, SeqV)):
                    p = seqops.to_py(item) if isinstance(item, SeqV) else None
                    if p is None:
                        cs = []
                        for k in cell.d:
                            c = self.equals(k.sym if isinstance(k, SymKey) else k, item)
                            if c is True:
                                return True
                            if c is not False:
                                cs.append(c.t)
                        return mk("bool", z3.Or(*cs)) if cs else False
                    item = p
                if any(isinstance(k, SymKey) for k in cell.d):
                    cs = []
                    for k in cell.d:
                        c = self.equals(k.sym if isinstance(k, SymKey) else k, item)
                        if c is True:
                            return True
                        if c is not False:
                            cs.append(c.t)
                    return mk("bool", z3.Or(*cs)) if cs else False
                return self.hashable_key(item) in cell.d
            if isinstance(cell, MapCell):
                return mk("bool", z3.Select(cell.dom, self.map_key(cell, item)))
            if isinstance(cell, ObjCell):
                m = self.find_method(cell.cls, "__contains__")
                if m is not None:
                    return self.call_value(BoundMethod(m[0], container, m[1]), [item], {})
                raise Unsupported("`in` on object without __contains__")
        seq = self.as_seq(container)
        if seq is not None:
            if seq.kind == "str":
                isq = self.as_seq(item)
                if isq is None:
                    raise Unsupported("`in` str with non-str")
                if seq.items is not None and isq.items is not None and all(isinstance(i, int) for i in seq.items + isq.items):
                    return seqops.to_py(isq) in seqops.to_py(seq)
                if isq.items is not None and len(isq.items) == 1:
                    item = isq.items[0]
                elif seq.items is not None and all(isinstance(i, int) for i in seq.items) and len(seq.items) <= 8:
                    # symbolic text in a short constant text: it equals one of the constant's substrings (the empty one included)
                    whole = seqops.to_py(seq)
                    subs = sorted({whole[a:b] for a in range(len(whole) + 1) for b in range(a, len(whole) + 1)})
                    cs = []
                    for sub in subs:
                        c = seqops.equal(isq, seqops.from_py(sub))
                        if c is True:
                            return True
                        if c is not False:
                            cs.append(c)
                    return mk("bool", z3.Or(*cs)) if cs else False
                else:
                    raise Unsupported("symbolic substring test")
            if seq.items is not None:
                cs = []
                for it in seq.items:
                    c = self.equals(it, item)
                    if c is True:
                        return True
                    if c is not False:
                        cs.append(c.t)
                return mk("bool", z3.Or(*cs)) if cs else False
            if not is_scalar(item):
                return False
            i = z3.Int("in!i")
            arr, n, ek = seqops.as_array(seq)
            return mk("bool", z3.Exists([i], z3.And(i >= 0, i < n, seqops._term_eq(z3.Select(arr, i), ek, to_term(item, kind_of(item)), kind_of(item)))))
        if isinstance(container, RangeV):
            lo, hi = to_term(container.lo, "int"), to_term(container.hi, "int")
            if container.step != 1:
                raise Unsupported("in range with step")
            x = to_term(item, "int")
            return mk("bool", z3.And(x >= lo, x < hi))
        if isinstance(container, (Sym, Opaque)) or isinstance(item, (Sym, SeqV, Opaque, Ref)):
            raise Unsupported(f"`in` on {container!r}")
        return item in container

    # ------------------------------------------------------------------ arithmetic
    def e_BinOp(self, node, frame):
        a = self.eval(node.left, frame)
        b = self.eval(node.right, frame)
        return self.binop(type(node.op), a, b)

    def binop(self, op, a, b):
        if isinstance(a, (bytes, str)) and op is ast.Mod:
            if isinstance(b, (Sym, SeqV, Ref, Opaque)):
                return Opaque(type(a), "formatted")
            return a % b
        sa, sb = self.as_seq(a), self.as_seq(b)
        if sa is not None or sb is not None:
            return self.seq_binop(op, a, b, sa, sb)
        if isinstance(a, Opaque) or isinstance(b, Opaque):
            if op is ast.Add and (getattr(a, "pytype", None) is str or getattr(b, "pytype", None) is str):
                return Opaque(str, "concat")
            raise Unsupported("arithmetic on opaque value")
        if not isinstance(a, Sym) and not isinstance(b, Sym):
            if isinstance(a, Ref) or isinstance(b, Ref):
                raise Unsupported("binary operator on object")
            try:
                return _PYBIN[op](a, b)
            except ZeroDivisionError:
                raise PyRaise(ExcV(ZeroDivisionError, ()))
            except (TypeError, ValueError, OverflowError) as exc:
                raise PyRaise(ExcV(type(exc), exc.args))
        ka, kb = kind_of(a), kind_of(b)
        if ka is None or kb is None:
            raise Unsupported(f"binop {op.__name__} on {a!r}, {b!r}")
        if "float" in (ka, kb) or op is ast.Div:
            x, y = to_term(a, "float"), to_term(b, "float")
            if op is ast.Add:
                return Sym("float", z3.fpAdd(z3.RNE(), x, y))
            if op is ast.Sub:
                return Sym("float", z3.fpSub(z3.RNE(), x, y))
            if op is ast.Mult:
                return Sym("float", z3.fpMul(z3.RNE(), x, y))
            raise Unsupported("float op " + op.__name__)
        x, y = to_term(a, "int"), to_term(b, "int")
        if op is ast.Add:
            return mk("int", x + y)
        if op is ast.Sub:
            return mk("int", x - y)
        if op is ast.Mult:
            if isinstance(a, Sym) and isinstance(b, Sym):
                raise Unsupported("nonlinear multiplication")
            return mk("int", x * y)
        if op in (ast.FloorDiv, ast.Mod):
            if isinstance(b, Sym) or b <= 0:
                raise Unsupported("// or % by a non-constant or non-positive divisor")
            return mk("int", x / y if op is ast.FloorDiv else x % y)
        if op is ast.LShift:
            if isinstance(b, Sym) or b < 0:
                raise Unsupported("shift by symbolic amount")
            return mk("int", x * (1 << b))
        if op is ast.RShift:
            if isinstance(b, Sym) or b < 0:
                raise Unsupported("shift by symbolic amount")
            return mk("int", x / (1 << b))
        if op in (ast.BitAnd, ast.BitOr, ast.BitXor):
            if isinstance(a, Sym) and isinstance(b, Sym):
                return self.bitop_sym(op, a, b)
            s, c = (a, b) if isinstance(a, Sym) else (b, a)
            c = int(c)
            st = to_term(s, "int")
            if c < 0:
                raise Unsupported("bit operation with negative constant")
            andv = sum(((st / (1 << lo)) % (1 << w)) * (1 << lo) for lo, w in contiguous_runs(c)) if c else z3.IntVal(0)
            if op is ast.BitAnd:
                return mk("int", andv)
            if op is ast.BitOr:
                return mk("int", st + c - andv)
            return mk("int", st + c - 2 * andv)
        raise Unsupported("binop " + op.__name__)

    def bitop_sym(self, op, a, b):
        """a op b with both symbolic: only when the operands provably occupy disjoint bit ranges."""
        x, y = to_term(a, "int"), to_term(b, "int")
        for lo_t, hi_t in ((x, y), (y, x)):
            for k in (1, 2, 3, 4, 7, 8, 15, 16, 24, 32):
                c = z3.And(lo_t >= 0, lo_t < (1 << k), hi_t >= 0, hi_t % (1 << k) == 0)
                if self.path.prove(c):
                    if op is ast.BitAnd:
                        return 0
                    return mk("int", x + y)
        raise Unsupported("bit operation on two symbolic operands without provably disjoint ranges")

    def seq_binop(self, op, a, b, sa, sb):
        if op is ast.Add:
            if sa is None or sb is None:
                raise PyRaise(ExcV(TypeError, ("cannot concatenate",)))
            ka = "bytes" if sa.kind == "bytearray" else sa.kind
            kb = "bytes" if sb.kind == "bytearray" else sb.kind
            if ka != kb:
                raise PyRaise(ExcV(TypeError, ("cannot concatenate",)))
            r = seqops.concat(sa, sb, sa.kind)
            return self.box_seq(r)
        if op is ast.Mult:
            s, n = (sa, b) if sa is not None else (sb, a)
            if isinstance(n, int) and s.items is not None:
                return self.box_seq(SeqV(s.kind, s.elem, items=s.items * n))
            raise Unsupported("sequence repetition with symbolic operands")
        if op is ast.Mod and sa is not None and sa.kind in ("str", "bytes"):
            return Opaque(str if sa.kind == "str" else bytes, "formatted")
        raise Unsupported("sequence operator " + op.__name__)

    def box_seq(self, seq: SeqV):
        """Mutable kinds live in the heap; immutable ones are values. Fold fully concrete bytes/str."""
        if seq.kind in ("list", "bytearray"):
            return self.path.alloc(SeqCell(seq))
        p = seqops.to_py(seq)
        if p is not None:
            return p
        return seq

    # ------------------------------------------------------------------ subscripts
    def e_Subscript(self, node, frame):
        base = self.eval(node.value, frame)
        if isinstance(node.slice, ast.Slice):
            lo = self.eval(node.slice.lower, frame) if node.slice.lower else None
            hi = self.eval(node.slice.upper, frame) if node.slice.upper else None
            if node.slice.step is not None:
                st = self.eval(node.slice.step, frame)
                if st != 1:
                    seq = self.as_seq(base)
                    if seq is not None and seq.items is not None and all(isinstance(x, (int, type(None))) for x in (lo, hi, st)):
                        return self.box_seq(SeqV(seq.kind, seq.elem, items=seq.items[lo:hi:st]))
                    raise Unsupported("slice step")
            return self.get_slice(base, lo, hi)
        idx = self.eval(node.slice, frame)
        return self.get_item(base, idx)

    def get_slice(self, base, lo, hi):
        seq = self.as_seq(base)
        if seq is None:
            if isinstance(base, Ref) and isinstance(self.path.cell(base), ObjCell):
                raise Unsupported("slicing an object")
            raise Unsupported(f"slice of {base!r}")
        if getattr(self, "spec_depth", 0) > 0 or getattr(self, "pure_depth", 0) > 0:
            # specification context: bounds are the spec's responsibility, no clamping (canonical terms)
            neg = lambda v: isinstance(v, int) and v < 0
            if not neg(lo) and not neg(hi):
                return self.box_seq(seqops.subseq(seq, 0 if lo is None else lo, seqops.length(seq) if hi is None else hi))
        return self.box_seq(seqops.slice_(seq, lo, hi))

    def get_item(self, base, idx):
        if isinstance(base, OldView) and isinstance(self.old_heap.get(base.ref.addr), MapCell):
            cell = self.old_heap[base.ref.addr]
            return MapElem(base.ref, z3.simplify(self.map_key(cell, idx)), old=True)
        if isinstance(base, OldView) and isinstance(self.old_heap.get(base.ref.addr), RegionListCell):
            return MapElem(self.old_heap[base.ref.addr].region, z3.simplify(to_term(idx, "int")), old=True)
        if isinstance(base, OldView) and isinstance(self.old_heap.get(base.ref.addr), ElemListCell):
            ocell = self.old_heap[base.ref.addr]
            k = seqops.get(self.path, ocell.keys, idx, unchecked=True)
            return MapElem(ocell.region, z3.simplify(to_term(k, "int")), old=True)
        if isinstance(base, Ref) and isinstance(self.path.cell(base), ElemListCell):
            ecell = self.path.cell(base)
            spec_ctx = getattr(self, "spec_depth", 0) > 0 or getattr(self, "pure_depth", 0) > 0
            k = seqops.get(self.path, ecell.keys, idx, unchecked=spec_ctx)
            return MapElem(ecell.region, z3.simplify(to_term(k, "int")))
        if isinstance(base, Ref):
            cell = self.path.cell(base)
            if isinstance(cell, RegionListCell):
                # the list of all objects of a region in key order: Python's list indexing rules
                if kind_of(idx) not in ("int", "bool"):
                    raise PyRaise(ExcV(TypeError, ("list indices must be integers",)))
                k = to_term(idx, "int")
                if getattr(self, "spec_depth", 0) > 0 or getattr(self, "pure_depth", 0) > 0:
                    return MapElem(cell.region, z3.simplify(k))
                n = self.path.cell(cell.region).n
                if self.path.decide(k < 0):
                    k = k + n
                if self.path.decide(z3.Or(k < 0, k >= n)):
                    raise PyRaise(ExcV(IndexError, ("list index out of range",)))
                return MapElem(cell.region, z3.simplify(k))
            if isinstance(cell, DictCell):
                key = self.dict_key(cell, idx)
                if key is _MISSING or key not in cell.d:
                    raise PyRaise(ExcV(KeyError, (idx,)))
                return cell.d[key]
            if isinstance(cell, MapCell):
                k = self.map_key(cell, idx)
                if cell.vkind == "ref":
                    if getattr(self, "spec_depth", 0) > 0 or getattr(self, "pure_depth", 0) > 0:
                        return MapElem(base, z3.simplify(k))     # specification context: unchecked, as for sequences
                    if not self.path.decide(z3.Select(cell.dom, k)):
                        raise PyRaise(ExcV(KeyError, (idx,)))
                    return MapElem(base, z3.simplify(k))
                if not self.path.decide(z3.Select(cell.dom, k)):
                    raise PyRaise(ExcV(KeyError, (idx,)))
                return self.map_value(cell, z3.Select(cell.val, k))
            if isinstance(cell, ObjCell):
                m = self.find_method(cell.cls, "__getitem__")
                if m is None:
                    raise PyRaise(ExcV(TypeError, ("not subscriptable",)))
                return self.call_value(BoundMethod(m[0], base, m[1]), [idx], {})
        seq = self.as_seq(base)
        if seq is not None:
            return seqops.get(self.path, seq, idx, unchecked=(getattr(self, 'pure_depth', 0) > 0 or getattr(self, 'spec_depth', 0) > 0))
        if isinstance(base, (Sym, Opaque)) or isinstance(idx, (Sym, SeqV)):
            if isinstance(base, (dict,)) and isinstance(idx, Sym):
                raise Unsupported("symbolic key into concrete python dict")
            raise Unsupported(f"subscript of {base!r}")
        try:
            return self.lift(base[idx])
        except (KeyError, IndexError, TypeError) as exc:
            raise PyRaise(ExcV(type(exc), exc.args))

    def unwrap_key(self, key):
        """A decoded data item used as a dictionary key or compared with a plain value stands for the value it holds (its
        __hash__ / __eq__ delegate to the value): assumption A-KEY of the contracts that use spec.ext.AbsItem."""
        if isinstance(key, Ref):
            kc = self.path.cell(key)
            if isinstance(kc, ObjCell) and "g_value" in kc.attrs:
                return kc.attrs["g_value"]
        if isinstance(key, MapElem):
            mc = self.old_heap[key.map_ref.addr] if key.old else self.path.cell(key.map_ref)
            if "g_value" in mc.fields and mc.fields["g_value"][0] in ("int", "bool"):
                return self.get_attr(key, "g_value")
        return key

    def dict_key(self, cell, idx):
        """Resolve a (possibly symbolic) key against the stored keys (concrete or SymKey) by forking over them."""
        idx = self.unwrap_key(idx)
        if any(isinstance(k, SymKey) for k in cell.d) and not isinstance(idx, (Sym, SeqV)):
            for k in cell.d:
                c = self.equals(k.sym if isinstance(k, SymKey) else k, idx)
                if c is True or (c is not False and self.path.decide(self.truthy(c))):
                    return k
            return _MISSING
        if isinstance(idx, (Sym, SeqV)):
            p = seqops.to_py(idx) if isinstance(idx, SeqV) else None
            if p is not None:
                return p
            if isinstance(idx, SeqV) and idx.kind == "tuple" and idx.items is not None:
                try:
                    return tuple(self.hashable_key(i) for i in idx.items)
                except Unsupported:
                    pass
            for k in cell.d:
                c = self.equals(k.sym if isinstance(k, SymKey) else k, idx)
                if c is True or (c is not False and self.path.decide(self.truthy(c))):
                    return k
            return _MISSING
        return self.hashable_key(idx)

    # ------------------------------------------------------------------ attributes
    def e_Attribute(self, node, frame):
        base = self.eval(node.value, frame)
        return self.get_attr(base, self.mangle(node.attr, frame))

    @staticmethod
    def mangle(name, frame):
        if name.startswith("__") and not name.endswith("__") and frame.defcls is not None:
            return f"_{frame.defcls.__name__.lstrip('_')}{name}"
        return name

    def e_Starred(self, node, frame):
        raise Unsupported("starred expression")

    def e_ListComp(self, node, frame):
        return self.comprehension(node, frame, "list")

    def e_GeneratorExp(self, node, frame):
        # read eagerly as a list (element expressions and conditions are side-effect free in the supported subset); the
        # result is remembered as a not-yet-consumed generator so that next(<generator expression>, default) can be modelled
        r = self.comprehension(node, frame, "list")
        if isinstance(r, Ref):
            self.path.ghost.setdefault("genexp", set()).add(r.addr)
        return r

    def e_SetComp(self, node, frame):
        raise Unsupported("set comprehension")

    def e_DictComp(self, node, frame):
        if len(node.generators) != 1:
            raise Unsupported("nested dict comprehension")
        gen = node.generators[0]
        it = self.eval(gen.iter, frame)
        sub = self.new_frame_like(frame)
        d = {}
        for x in self.iter_concrete(it):
            self.assign_target(gen.target, x, sub)
            if all(self.branch(self.eval(c, sub)) for c in gen.ifs):
                d[self.hashable_key(self.eval(node.key, sub))] = self.eval(node.value, sub)
        return self.path.alloc(DictCell(d))


class _Missing:
    def __repr__(self):
        return "<missing>"

    def __hash__(self):
        return 0x5EED


_MISSING = _Missing()
