"""./check selftest [id ...]: the framework tested on deliberately broken code.

For every seeded change under /verif/seeded/<id>/ (and every one-line mutant in /verif/seeded/mutants.json) a scratch
worktree of /repo's HEAD is created OUTSIDE /repo and /verif, the change is applied there, the check of the property it
breaks is run against it (VERIF_REPO) and the worktree is removed.  Expected: at least one VIOLATION line.  The
unchanged tree is not touched and the committed evidence is not rewritten (scratch runs write to $TMPDIR).

Exit 0: every change is reported; 1: a change that should be reported is not (a weakness of the contracts - listed)."""
from __future__ import annotations

import concurrent.futures
import json
import os
import re
import subprocess
import sys
import tempfile

VERIF = os.path.realpath(os.path.join(os.path.dirname(__file__), ".."))


def sh(cmd, timeout=1800, env=None):
    try:
        p = subprocess.run(cmd, shell=True, capture_output=True, text=True, timeout=timeout, env=env)
        return p.returncode, p.stdout
    except subprocess.TimeoutExpired:
        return 124, ""


def run_one(job):
    name, prop, kind, payload, extra = job
    wt = tempfile.mkdtemp(prefix="verif-selftest.", dir=os.environ.get("TMPDIR", "/tmp"))
    os.rmdir(wt)
    rc, _ = sh(f"git -C /repo worktree add -q --detach {wt} HEAD")
    if rc != 0:
        return name, prop, "setup-failed", 0
    try:
        if kind == "harmless":
            kind_apply = "mutant"
        else:
            kind_apply = kind
        if kind_apply == "patch":
            rc, _ = sh(f"cd {wt} && (git apply {payload} 2>/dev/null || git apply -3 {payload} 2>/dev/null)")
            if rc != 0:
                return name, prop, "patch-does-not-apply", 0
        else:
            path = os.path.join(wt, payload["file"])
            src = open(path).read()
            if len(re.findall(payload["pattern"], src, flags=re.M)) != 1:
                return name, prop, "pattern-does-not-match-once", 0
            open(path, "w").write(re.sub(payload["pattern"], payload["replacement"], src, count=1, flags=re.M))
        env = dict(os.environ, VERIF_REPO=wt)
        rc, out = sh(f"cd {VERIF} && ./check {prop} {extra} 2>/dev/null", env=env)
        n = sum(1 for line in out.splitlines() if line.startswith("VIOLATION"))
        if kind == "harmless":
            summary = next((line for line in out.splitlines() if line.startswith("[")), "")
            m_ = re.search(r"undecided=(\d+) out_of_reach=(\d+)", summary)
            extra = f" undecided={m_.group(1)} out_of_reach={m_.group(2)}" if m_ else ""
            return name, prop, ("silent" + extra) if (rc == 0 and n == 0) else f"FALSE-ALARM (exit {rc})", n
        return name, prop, "reported" if (rc == 1 and n) else f"NOT-REPORTED (exit {rc})", n
    finally:
        sh(f"git -C /repo worktree remove --force {wt}")


def main(argv):
    jobs = []
    root = os.path.join(VERIF, "seeded")
    for name in sorted(os.listdir(root)):
        d = os.path.join(root, name)
        meta = os.path.join(d, "meta.json")
        if name.startswith("_") or not os.path.exists(meta):
            continue
        m = json.load(open(meta))
        jobs.append((name, m["property"], "patch", os.path.join(d, "patch.diff"), ""))
    mfile = os.path.join(root, "mutants.json")
    if os.path.exists(mfile):
        for m in json.load(open(mfile))["mutants"]:
            jobs.append((m["id"], m["property"], "mutant", m, m.get("check_args", "")))
    hfile = os.path.join(root, "_harmless", "refactorings.json")
    if os.path.exists(hfile):
        for m in json.load(open(hfile))["refactorings"]:
            jobs.append((m["id"], m["property"], "harmless", m, m.get("check_args", "")))
    if argv:
        jobs = [j for j in jobs if any(a in j[0] for a in argv)]
    missed = []
    with concurrent.futures.ThreadPoolExecutor(max_workers=int(os.environ.get("VERIF_SELFTEST_JOBS", "3"))) as pool:
        for name, prop, status, n in pool.map(run_one, jobs):
            print(f"selftest {name:28s} {prop} {status} ({n} VIOLATION lines)", flush=True)
            if status != "reported" and not status.startswith("silent"):
                missed.append(name)
    print(f"selftest: {len(jobs) - len(missed)} of {len(jobs)} trees judged as expected (broken trees reported, harmless refactorings silent)"
          + (f"; wrong: {missed}" if missed else ""))
    return 1 if missed else 0


if __name__ == "__main__":
    sys.exit(main(sys.argv[1:]))
