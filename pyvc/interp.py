"""The symbolic partial evaluator: one Interp instance executes one path."""
from __future__ import annotations

import z3

from . import models, seqops, spec_intrinsics as si
from .core import Path, PyRaise
from .interp_call import CallMixin, Frame, NoFeasiblePath
from .interp_expr import ExprMixin
from .interp_stmt import StmtMixin
from .values import (BoundMethod, Closure, DictCell, ExcV, MapCell, MapElem, ObjCell, OldView, Opaque, Ref, SeqCell, SeqV, Sym,
                     Unsupported, is_scalar, kind_of, mk, sort_of, to_term)

_MODELS = None


class OldNS:
    """`old` inside contracts: pre-state values of the parameters."""

    def __init__(self, values):
        self.values = values


class Interp(ExprMixin, StmtMixin, CallMixin):
    def __init__(self, path: Path, callee_contracts=None, codec_tables=None):
        global _MODELS
        if _MODELS is None:
            _MODELS = models.build_models()
        self.path = path
        self.models = dict(_MODELS)
        self.models.update({
            si.forall: self.i_forall, si.exists: self.i_exists, si.implies: self.i_implies, si.ite: self.i_ite,
            si.seq_eq_at: self.i_seq_eq_at, si.unchanged: self.i_unchanged, si.is_nan: self.i_is_nan,
            si.is_finite: self.i_is_finite, si.f32_round: self.i_f32_round, si.float_eq: self.i_float_eq,
            si.f32_bytes: self.i_f32_bytes, si.f64_bytes: self.i_f64_bytes, si.ghost: self.i_ghost,
            si.fresh_int: self.i_fresh_int, si.f32_of_bytes: self.i_f32_of_bytes, si.f64_of_bytes: self.i_f64_of_bytes, si.prefix_sum: self.i_prefix_sum, si.fresh_bool: self.i_fresh_bool,
            si.region_of: self.i_region_of, si.region_size: self.i_region_size, si.key_of: self.i_key_of, si.reach: self.i_reach,
            si.reach_transitive: self.i_reach_transitive, si.reach_closed: self.i_reach_closed, si.reach_depth: self.i_reach_depth, si.field_seq: self.i_field_seq, si.allocated: self.i_allocated, si.the_region: self.i_the_region, si.has_attr_text: self.i_has_attr_text,
        })
        from . import models_threading
        self.models.update(models_threading.build())
        self.intrinsics = {}
        self.rely = []
        self.top_frame = None
        self.callee_contracts = callee_contracts or {}
        self.codec_tables = codec_tables or {}
        self.lifted = {}
        self.depth = 0
        self.current_exc = []
        self.functions_seen = {}
        self.old_heap = {}
        self.frame_rule = None
        self.dropped = set()

    def spec_call(self, fn, args):
        """Evaluate a contract function (requires / ensures / raises / invariant): specification context."""
        self.spec_depth = getattr(self, "spec_depth", 0) + 1
        try:
            return self.call_value(fn, args, {})
        finally:
            self.spec_depth -= 1

    def note_dropped(self, what):
        self.dropped.add(what)

    call_model_method = lambda self, tag, sv, args, kw: models.call_model_method(self, tag, sv, args, kw)

    # ------------------------------------------------------------------ attribute access on contract helpers
    def get_attr(self, base, name):
        if isinstance(base, OldNS):
            v = base.values[name]
            if isinstance(v, MapElem):
                return MapElem(v.map_ref, v.key, old=True)
            return OldView(v) if isinstance(v, Ref) else v
        if isinstance(base, OldView):
            cell = self.old_heap[base.ref.addr]
            if isinstance(cell, SeqCell):
                return BoundMethod(("oldseq", name), base)
        return CallMixin.get_attr(self, base, name)

    def as_seq(self, v):
        if isinstance(v, OldView):
            cell = self.old_heap[v.ref.addr]
            if isinstance(cell, SeqCell):
                return cell.seq
            return None
        return ExprMixin.as_seq(self, v)

    # ------------------------------------------------------------------ symbolic maps
    def map_key(self, cell: MapCell, key):
        if isinstance(key, MapElem):
            key = self.unwrap_key(key)
        if isinstance(key, Ref):
            kc = self.path.cell(key)
            if isinstance(kc, ObjCell) and "g_value" in kc.attrs:
                # a decoded data item used as dictionary key stands for the value it holds (its __hash__/__eq__ delegate to
                # the value: assumption A-KEY of the contracts that use spec.ext.AbsItem)
                key = kc.attrs["g_value"]
        if cell.ksort == "int":
            if kind_of(key) not in ("int", "bool"):
                raise Unsupported("non-integer key for integer-keyed symbolic map")
            return to_term(key, "int")
        raise Unsupported("map key sort")

    def map_value(self, cell: MapCell, term):
        if cell.vkind == "ref":
            raise Unsupported("reference-valued symbolic map read")
        return mk(cell.vkind, term) if cell.vkind != "float" else Sym("float", term)

    def map_store_value(self, cell: MapCell, v):
        if cell.vkind == "ref":
            raise Unsupported("reference-valued symbolic map write")
        return to_term(v, cell.vkind)

    # ------------------------------------------------------------------ spec intrinsics
    def _quant(self, args, is_all):
        lo, hi, fn = args
        if isinstance(lo, int) and isinstance(hi, int) and hi <= lo:
            return is_all            # empty range: the body is not even evaluated
        i = z3.Int(self.path.fresh_name("q"))
        rng = z3.And(i >= to_term(lo, "int"), i < to_term(hi, "int"))
        try:
            val = self.pure(lambda: models._as_boolsym(self, self.call_value(fn, [mk("int", i)], {})), assume=rng)
        except NoFeasiblePath:
            return is_all  # empty range under the path condition
        body = to_term(val, "bool")
        if isinstance(lo, int) and isinstance(hi, int) and hi - lo <= 64:
            parts = [z3.substitute(body, (i, z3.IntVal(k))) for k in range(lo, hi)]
            if is_all:
                return mk("bool", z3.simplify(z3.And(*parts)) if parts else z3.BoolVal(True))
            return mk("bool", z3.simplify(z3.Or(*parts)) if parts else z3.BoolVal(False))
        if is_all:
            return mk("bool", z3.ForAll([i], z3.Implies(rng, body)))
        return mk("bool", z3.Exists([i], z3.And(rng, body)))

    def i_forall(self, I, args, kw):
        return self._quant(args, True)

    def i_exists(self, I, args, kw):
        return self._quant(args, False)

    def i_implies(self, I, args, kw):
        a, b = args
        ta = self.truthy(a)
        if isinstance(ta, bool):
            if not ta:
                return True
            if isinstance(b, Closure):
                b = self.call_value(b, [], {})
            tb = self.truthy(b)
            return tb if isinstance(tb, bool) else mk("bool", tb)
        if isinstance(b, Closure):
            try:
                val = self.pure(lambda: models._as_boolsym(self, self.call_value(b, [], {})), assume=ta)
            except NoFeasiblePath:
                return True
            tb = to_term(val, "bool")
        else:
            tb = self.truthy(b)
            tb = z3.BoolVal(tb) if isinstance(tb, bool) else tb
        return mk("bool", z3.simplify(z3.Implies(ta, tb)))

    def i_ite(self, I, args, kw):
        c, a, b = args
        tc = self.truthy(c)
        if isinstance(tc, bool):
            return a if tc else b
        return self.merge([([tc], a), ([z3.Not(tc)], b)])

    def i_seq_eq_at(self, I, args, kw):
        """seq_eq_at(big, offset, small): big[offset:offset+len(small)] == small, with bounds."""
        big, off, small = args
        sb, ss = self.as_seq(big), self.as_seq(small)
        offt = to_term(off, "int")
        nb, ns = seqops.len_term(sb), seqops.len_term(ss)
        ab, _, kb = seqops.as_array(sb)
        as_, _, ks = seqops.as_array(ss)
        n = seqops.length(ss)
        if isinstance(n, int) and n <= seqops.SMALL:
            cs = [offt >= 0, offt + n <= nb]
            for k in range(n):
                cs.append(seqops._term_eq(z3.Select(ab, z3.simplify(offt + k)), kb, z3.Select(as_, z3.IntVal(k)), ks))
            return mk("bool", z3.simplify(z3.And(*cs)))
        i = z3.Int(self.path.fresh_name("sq"))
        body = seqops._term_eq(z3.Select(ab, offt + i), kb, z3.Select(as_, i), ks)
        return mk("bool", z3.And(offt >= 0, offt + ns <= nb, z3.ForAll([i], z3.Implies(z3.And(i >= 0, i < ns), body))))

    def i_unchanged(self, I, args, kw):
        raise Unsupported("unchanged()")

    def i_is_nan(self, I, args, kw):
        v = args[0]
        if isinstance(v, Sym) and v.kind == "float":
            return mk("bool", z3.fpIsNaN(v.t))
        return isinstance(v, float) and v != v

    def i_is_finite(self, I, args, kw):
        v = args[0]
        if isinstance(v, Sym) and v.kind == "float":
            return mk("bool", z3.Not(z3.Or(z3.fpIsNaN(v.t), z3.fpIsInf(v.t))))
        return si.is_finite(v)

    def i_f32_round(self, I, args, kw):
        v = args[0]
        if isinstance(v, Sym):
            from .values import F32, F64, RNE
            return Sym("float", z3.fpToFP(RNE, z3.fpToFP(RNE, to_term(v, "float"), F32), F64))
        return si.f32_round(v)

    def i_float_eq(self, I, args, kw):
        a, b = args
        if isinstance(a, Sym) or isinstance(b, Sym):
            x, y = to_term(a, "float"), to_term(b, "float")
            return mk("bool", z3.Or(z3.fpEQ(x, y), z3.And(z3.fpIsNaN(x), z3.fpIsNaN(y))))
        return si.float_eq(a, b)

    def i_f32_bytes(self, I, args, kw):
        v = args[0]
        if isinstance(v, Sym):
            return SeqV("bytes", "int", items=models._fp_bytes(to_term(v, "float"), 4))
        return si.f32_bytes(v)

    def i_f64_bytes(self, I, args, kw):
        v = args[0]
        if isinstance(v, Sym):
            return SeqV("bytes", "int", items=models._fp_bytes(to_term(v, "float"), 8))
        return si.f64_bytes(v)

    def i_ghost(self, I, args, kw):
        return self.path.ghost.get(args[0], args[1] if len(args) > 1 else None)

    def i_fresh_int(self, I, args, kw):
        return Sym("int", z3.Int(self.path.fresh_name(args[0] if args else "g")))

    def _fp_of_bytes(self, args, size):
        from .values import F32, F64, RNE
        data, pos = args
        seq = self.as_seq(data)
        arr, _, _ = seqops.as_array(seq)
        p = to_term(pos, "int")
        bs = [z3.Select(arr, z3.simplify(p + k)) for k in range(size)]
        return models.fp_of_byte_terms(bs)

    def i_f32_of_bytes(self, I, args, kw):
        return self._fp_of_bytes(args, 4)

    def i_f64_of_bytes(self, I, args, kw):
        return self._fp_of_bytes(args, 8)

    def i_prefix_sum(self, I, args, kw):
        from .values import PS
        seq, i = args
        sq = self.as_seq(seq)
        if sq.items is not None and isinstance(i, int):
            import ast
            total = 0
            for x in sq.items[:i]:
                total = self.binop(ast.Add, total, x)
            return total
        arr, _, _ = seqops.as_array(sq)
        return mk("int", PS(arr, to_term(i, "int")))

    # ---- heap regions
    def _region_cell(self, r):
        if isinstance(r, OldView):
            return self.old_heap[r.ref.addr], r.ref
        return self.path.cell(r), r

    def i_region_of(self, I, args, kw):
        x = args[0]
        if not isinstance(x, MapElem):
            raise Unsupported("region_of: not an object of a region")
        return OldView(x.map_ref) if x.old else x.map_ref

    def i_region_size(self, I, args, kw):
        cell, _ = self._region_cell(args[0])
        return mk("int", cell.n)

    def i_key_of(self, I, args, kw):
        x = args[0]
        if x is None:
            return -1
        if not isinstance(x, MapElem):
            raise Unsupported("key_of: not an object of a region")
        return mk("int", x.key)

    def _reach_fn(self, region, field):
        """The closure relation over the links of the PRE-state, as an uninterpreted relation with its defining fixpoint
        equation (consistent for every link array; it has exactly one solution when the links are acyclic, which the
        contracts require through a decreasing ghost depth)."""
        cell, ref = self._region_cell(region)
        kind, arr0 = cell.fields0[field]
        if kind != "link":
            raise Unsupported("reach over a field that is not a link")
        from .values import reach_function
        F = reach_function(cell.rname, field)     # its defining equation was assumed when the region was created
        return F, cell

    def _k(self, x):
        if x is None:
            return z3.IntVal(-1)
        if isinstance(x, MapElem):
            return x.key
        return to_term(x, "int")

    def i_reach(self, I, args, kw):
        region, field, a, b = args
        F, _ = self._reach_fn(region, field)
        return mk("bool", F(self._k(a), self._k(b)))

    def i_reach_transitive(self, I, args, kw):
        """Transitivity of reach within the region - a lemma (proved once, generically, by induction on the depth: lemma unit
        ReachLemmas), stated here as a formula so that a contract can take it as a hypothesis."""
        region, field = args
        F, cell = self._reach_fn(region, field)
        a, b, c = z3.Int("ta!"), z3.Int("tb!"), z3.Int("tc!")
        n = cell.n
        return mk("bool", z3.ForAll([a, b, c], z3.Implies(z3.And(a >= 0, a < n, F(a, b), F(b, c)), F(a, c)), patterns=[z3.MultiPattern(F(a, b), F(b, c))]))

    def i_reach_closed(self, I, args, kw):
        """reach never leaves the region and never reaches None (lemma, as above)."""
        region, field = args
        F, cell = self._reach_fn(region, field)
        a, b = z3.Int("ca!"), z3.Int("cb!")
        n = cell.n
        return mk("bool", z3.ForAll([a, b], z3.Implies(z3.And(F(a, b), a >= 0, a < n), z3.And(b >= 0, b < n)), patterns=[F(a, b)]))

    def i_has_attr_text(self, I, args, kw):
        obj, name = args
        sq = self.as_seq(name)
        p = seqops.to_py(sq)
        if p is not None:
            return getattr(obj, p, None) is not None
        arr, n, _ = seqops.as_array(sq)
        return mk("bool", models.has_attr_fn(obj)(arr, to_term(n, "int")))

    def alloc_counter(self, rref):
        """How many objects of a region have been created so far on this path (symbolic; starts at an arbitrary value >= 0):
        an object created by the code under contract is the NEXT object of its region."""
        cell = self.path.cell(rref)
        counters = self.path.ghost.setdefault("alloc", {})
        if cell.rname not in counters:
            t = z3.Int(f"in:alloc:{cell.rname}")
            self.path.assume(t >= 0)
            self.path.ex.inputs[f"in:alloc:{cell.rname}"] = {"kind": "int", "term": t}
            counters[cell.rname] = t
        return counters[cell.rname]

    def allocate(self, rref):
        """The next object of the region (the caller has checked / assumed that the region is large enough)."""
        cell = self.path.cell(rref)
        t = self.alloc_counter(rref)
        self.path.ghost["alloc"][cell.rname] = z3.simplify(t + 1)
        return MapElem(rref, z3.simplify(t))

    def i_the_region(self, I, args, kw):
        from .verify import make_symbolic
        return make_symbolic(self, args[0], "region")

    def i_allocated(self, I, args, kw):
        r = args[0]
        if isinstance(r, OldView):
            cell = self.old_heap[r.ref.addr]
            t0 = self.path.ghost.get("alloc0", {}).get(cell.rname)
            if t0 is None:
                t0 = self.path.ghost.get("alloc", {}).get(cell.rname)
            return mk("int", t0 if t0 is not None else self.alloc_counter(r.ref))
        return mk("int", self.alloc_counter(r))

    def i_field_seq(self, I, args, kw):
        cell, _ = self._region_cell(args[0])
        kind, arr = cell.fields[args[1]]
        if kind not in ("int", "bool"):
            raise Unsupported("field_seq of a non-scalar field")
        return SeqV("tuple", kind, arr=arr, length=cell.n)

    def i_reach_depth(self, I, args, kw):
        """Whatever is reached from a region object is not deeper than it (lemma, as above; with the strictly decreasing
        depth this is what makes the links acyclic: no object is an ancestor of its own parent)."""
        region, field, dfield = args
        F, cell = self._reach_fn(region, field)
        a, b = z3.Int("da!"), z3.Int("db!")
        n = cell.n
        depth = cell.fields0[dfield][1]
        return mk("bool", z3.ForAll([a, b], z3.Implies(z3.And(F(a, b), a >= 0, a < n), z3.Select(depth, b) <= z3.Select(depth, a)), patterns=[F(a, b)]))

    def i_fresh_bool(self, I, args, kw):
        return Sym("bool", z3.Bool(self.path.fresh_name(args[0] if args else "nd")))
