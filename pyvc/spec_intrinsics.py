"""Contract-language intrinsics with their *concrete* (CPython) meaning.

The symbolic meaning is given by the engine (pyvc.interp.Interp.i_*), which intercepts these function objects.
Contracts and spec functions import them as `from pyvc.spec_intrinsics import *`.
"""
from __future__ import annotations

import math
import struct

__all__ = ["forall", "exists", "implies", "ite", "seq_eq_at", "unchanged", "is_nan", "is_finite", "f32_round",
           "float_eq", "f32_bytes", "f64_bytes", "ghost", "fresh_int", "f32_of_bytes", "f64_of_bytes", "prefix_sum", "fresh_bool",
           "region_of", "region_size", "key_of", "reach", "reach_transitive", "reach_closed", "reach_depth", "field_seq", "has_attr_text", "allocated", "the_region"]


def forall(lo, hi, fn):
    return all(fn(i) for i in range(lo, hi))


def exists(lo, hi, fn):
    return any(fn(i) for i in range(lo, hi))


def implies(a, b):
    if not a:
        return True
    return bool(b() if callable(b) else b)


def ite(c, a, b):
    return a if c else b


def seq_eq_at(big, off, small):
    return off >= 0 and off + len(small) <= len(big) and bytes(big[off:off + len(small)]) == bytes(small)


def unchanged(*a):
    raise NotImplementedError


def is_nan(v):
    return isinstance(v, float) and v != v


def is_finite(v):
    return not (isinstance(v, float) and (v != v or v in (math.inf, -math.inf)))


def f32_round(v):
    """binary64 -> binary32 (round to nearest even) -> binary64, without going through struct's range check."""
    import ctypes

    return ctypes.c_float(v).value


def float_eq(a, b):
    return a == b or (a != a and b != b)


def f32_bytes(v):
    import ctypes

    return struct.pack(">I", ctypes.c_uint32.from_buffer(ctypes.c_float(v)).value)


def f64_bytes(v):
    import ctypes

    return struct.pack(">Q", ctypes.c_uint64.from_buffer(ctypes.c_double(v)).value)


def ghost(name, default=None):
    return default


def fresh_int(name="g"):
    raise NotImplementedError("fresh_int has no concrete meaning")


def f32_of_bytes(data, pos):
    """binary32 big-endian at data[pos:pos+4], widened to binary64."""
    return struct.unpack(">f", bytes(data[pos:pos + 4]))[0]


def f64_of_bytes(data, pos):
    return struct.unpack(">d", bytes(data[pos:pos + 8]))[0]


def prefix_sum(seq, i):
    """seq[0] + ... + seq[i-1]"""
    return sum(seq[:i])


def fresh_bool(name="b"):
    raise NotImplementedError("fresh_bool has no concrete meaning (nondeterministic choice of the environment)")


# ---- heap regions (contract.Region).  Native reading (replays, run-time reading): the objects of a region carry the list of
# all objects of their region in the ghost attribute g_region (set by verify.make_concrete / by a hand-written replay).
def region_of(x):
    return x.g_region


def region_size(region):
    return len(region)


def key_of(x):
    if x is None:
        return -1
    for k, o in enumerate(x.g_region):
        if o is x:
            return k
    return -1


def reach(region, field, a, b):
    """b is a, or reachable from a by following `field` (links of the PRE-state): the reflexive-transitive closure."""
    a = region[a] if isinstance(a, int) and a >= 0 else (None if isinstance(a, int) else a)
    b = region[b] if isinstance(b, int) and b >= 0 else (None if isinstance(b, int) else b)
    seen = 0
    while a is not None and seen <= len(region):
        if a is b:
            return True
        a = getattr(a, field)
        seen += 1
    return a is None and b is None and False


def reach_transitive(region, field):
    return True     # a lemma, not an assumption about the input


def reach_closed(region, field):
    return True


def reach_depth(region, field, depth_field):
    return True


def field_seq(region, field):
    """The values of one scalar field of all objects of a region, in key order, as a sequence (for prefix sums etc.)."""
    return [getattr(o, field) for o in region]


def has_attr_text(obj, name):
    """getattr(obj, name, None) is not None - the predicate the engine uses for lookups by a symbolic name."""
    return getattr(obj, name, None) is not None


def allocated(region):
    """number of objects of the region created so far (native reading: the objects of the list that exist)"""
    return len(region)


def the_region(spec):
    """the heap region described by a contract.Region spec (symbolic reading only)"""
    raise NotImplementedError("the_region has no concrete meaning")
