"""Command line of the checks (see /verif/check)."""
from __future__ import annotations

import argparse
import importlib
import json
import os
import sys
import time

VERIF = os.path.realpath(os.path.join(os.path.dirname(__file__), ".."))
sys.path.insert(0, VERIF)
os.chdir(VERIF)


def write_evidence(prop, cfg, res):
    level = cfg.LEVEL
    obligations = res["obligations"]
    n_ob = len(obligations)
    samples = []
    for o in obligations[:6]:
        samples.append({"obligation": o["name"], "verdict": o["verdict"], "backend": o["backend"]})
    for v in res["violations"][:4]:
        samples.append({"refuted": v["obligation"], "counter_model": v.get("model"), "replay": (v.get("replay") or {}).get("status")})
    for b in res["bounded"]:
        for smp in (b.get("samples") or [])[:3]:
            samples.append({"bounded_case": b.get("name"), "case": smp})
    for dmn in res["fd_domains"]:
        for smp in (dmn.get("samples") or [])[:2]:
            samples.append({"finite_domain_case": dmn.get("name"), "case": smp})
    if not samples:
        samples.append({"note": "no obligations generated"})
    by_backend = {}
    for o in obligations:
        by_backend[o["backend"]] = by_backend.get(o["backend"], 0) + 1
    bnd_eval = sum(b.get("evaluations") or 0 for b in res["bounded"])
    bnd_distinct = sum(b.get("distinct") or 0 for b in res["bounded"])
    coverage = {
        "obligations": n_ob,
        "discharged": res["discharged"],
        "checker_cmd": f"./check {prop} --tier {res['tier']}",
        "trusted_base": list(__import__("pyvc.runner").runner.TRUSTED_BASE) + list(getattr(cfg, "TRUSTED", [])),
        "backend_per_obligation": by_backend,
        "solver_s": round(res["solver_s"], 3),
        "functions_under_contract": sorted([f for f in res["functions"].values() if not str(f.get("file", "")).startswith(VERIF)], key=lambda d: d["function"]),
        "contract_and_spec_functions_read": sorted({f["function"] for f in res["functions"].values() if str(f.get("file", "")).startswith(VERIF)}),
        "call_site_contracts": {
            "assumed": [c for c in res.get("callee_contracts", []) if c["assumed"]],
            "proved_elsewhere_and_used_modularly": [c for c in res.get("callee_contracts", []) if not c["assumed"]],
        },
        "extraction_drops": __import__("pyvc.extract").extract.DROPPED + res["dropped"],
        "fd_domains": res["fd_domains"],
        "bounded": res["bounded"],
        "undecided": res["undecided"],
        "out_of_reach": res["out_of_reach"],
        "vacuity_notes": res["vacuity_notes"],
        "canary_obligation_per_unit": dict(res.get("canaries") or {}, _meaning="refuted = the unit's path condition has a model (non-vacuous); lemma = lemma unit; "
                                          "no-normal-return-path = the case only raises; undecided = no model found within the cheap budget; discharged would abort the check"),
        "machinery_notes": res["machinery_errors"],
        "cpython_crosscheck": res.get("crosscheck"),
        "known_findings_hit": res["known_hits"],
        "refuted": [v["obligation"] for v in res["violations"]],
        "samples": samples,
        "evaluations": max(1, n_ob + bnd_eval),
        "distinct_nontrivial": max(2, n_ob + bnd_distinct) if n_ob + bnd_distinct >= 2 else n_ob + bnd_distinct,
        "rule": "one evaluation = one named proof obligation (VC or finite-domain clause) or one bounded case; "
                "obligations are distinct by name and path, bounded cases are counted by their own enumerators",
        "exhaustive": False,
        "explanation": getattr(cfg, "EXPLANATION", ""),
    }
    ev = {
        "property_id": prop,
        "tier": res["tier"],
        "seed": res["seed"],
        "level": level,
        "coverage": coverage,
        "assumptions": list(getattr(cfg, "ASSUMPTIONS", [])),
        "wall_s": round(res["wall"], 2),
        "violations": res["new_violations"],
    }
    from pyvc import extract
    evdir = os.path.join(VERIF, "evidence")
    if extract.REPO != "/repo":
        # runs against a scratch copy (seeded changes, self-test mutants) never touch the committed evidence
        evdir = os.path.join(os.environ.get("TMPDIR", "/tmp"), "verif-scratch-evidence")
    os.makedirs(evdir, exist_ok=True)
    with open(os.path.join(evdir, f"{prop}.json"), "w") as fh:
        json.dump(ev, fh, indent=1, default=str)
    return ev


def main():
    ap = argparse.ArgumentParser()
    ap.add_argument("prop")
    ap.add_argument("rest", nargs="*")
    ap.add_argument("--tier", default=os.environ.get("VERIF_TIER", "quick"))
    ap.add_argument("--only", nargs="*")
    ap.add_argument("--jobs", type=int)
    ap.add_argument("-v", action="store_true")
    a = ap.parse_args()
    seed = int(os.environ.get("VERIF_SEED", "0") or 0)
    if a.prop == "replay":
        from pyvc import replaycmd
        sys.exit(replaycmd.main(a.rest))
    if a.prop == "selftest":
        from pyvc import selftest
        sys.exit(selftest.main(a.rest))
    prop = a.prop
    try:
        cfg = importlib.import_module(f"checks.{prop}")
        from pyvc import runner
        res = runner.run_check(prop, tier=a.tier, seed=seed, only=a.only, jobs=a.jobs)
    except Exception:
        import traceback
        traceback.print_exc()
        print(f"CHECK-ERROR property={prop} machinery failure (nothing is reported as a violation)")
        sys.exit(3)
    if not a.only:
        write_evidence(prop, cfg, res)
    n_ob = len(res["obligations"])
    print(f"[{prop}] tier={a.tier} obligations={n_ob} discharged={res['discharged']} refuted={len(res['violations'])} "
          f"undecided={len(res['undecided'])} out_of_reach={len(res['out_of_reach'])} bounded_cases="
          f"{sum(b.get('evaluations') or 0 for b in res['bounded'])} crosscheck_runs={(res.get('crosscheck') or {}).get('runs_compared', 0)} wall={res['wall']:.1f}s")
    if a.v or a.only:
        for u in res["undecided"]:
            print("  undecided:", u)
        for u in res["out_of_reach"]:
            print("  out-of-reach:", u)
        for v in res["violations"]:
            print("  refuted:", v["obligation"], json.dumps(v.get("replay"), default=str)[:600])
    for m in res["machinery_errors"]:
        print("  MACHINERY:", m)
    for line in res["lines"]:
        print(line)
    if n_ob == 0 and not res["bounded"]:
        print(f"CHECK-ERROR property={prop} zero obligations generated")
        sys.exit(3)
    if any("vacuous" in m for m in res["machinery_errors"]):
        print(f"CHECK-ERROR property={prop} vacuity guard failed")
        sys.exit(3)
    if res["new_violations"]:
        sys.exit(1)
    if (res.get("crosscheck") or {}).get("disagreements"):
        print(f"CHECK-UNDECIDED property={prop} the engine disagrees with CPython on a function under contract; no verdict for it")
        sys.exit(2)
    sys.exit(0)


if __name__ == "__main__":
    main()
