"""Check driver: runs all verification units, finite-domain and bounded parts of one property, classifies the
outcome (exit 0 held / 1 violation / 3 machinery failure), writes evidence and replay files."""
from __future__ import annotations

import fnmatch
import importlib
import json
import multiprocessing as mp
import os
import sys
import time
import traceback

VERIF = os.path.realpath(os.path.join(os.path.dirname(__file__), ".."))

FD_REGISTRY: dict[str, list] = {}
BND_REGISTRY: dict[str, list] = {}

TRUSTED_BASE = [
    "pyvc (own AST->VC generator and symbolic partial evaluator, /verif/pyvc) - cross-checked against CPython every run",
    "z3 4.x/5.1.0 (SMT solver, incl. floating-point theory)", "CPython 3.12 semantics as encoded (A-INT, A-SEQ, A-STRUCT, A-CODEC, A-FLOAT)",
    "spec library /verif/spec (transcription of SEMI E5/E37/E4/E30 from the property statements and repository docs, A-ORACLE)",
]


def fd(prop, name):
    """Register a finite-domain (exhaustive) check: fn() -> dict(obligations=[{name, ok, witness?}], domain=..., samples=[...])."""
    def deco(fn):
        FD_REGISTRY.setdefault(prop, []).append((name, fn))
        return fn
    return deco


def bounded(prop, name, tiers=("quick", "thorough")):
    """Register a bounded stand-in / public-API pass: fn(tier, seed) -> dict(evaluations, distinct, failures=[...], scope, samples)."""
    def deco(fn):
        BND_REGISTRY.setdefault(prop, []).append((name, fn, tiers))
        return fn
    return deco


PROPERTY_MODULES = {}


def register_modules(prop, *mods):
    PROPERTY_MODULES.setdefault(prop, []).extend(mods)


# ---------------------------------------------------------------------------------------------- workers
def _unit_worker(arg):
    modname, cname, case_name, rlimit = arg[:4]
    xc_n = arg[4] if len(arg) > 4 else 0
    try:
        from . import contract, extract, verify
        extract.ensure_repo_on_path()
        importlib.import_module(modname)
        ccls = None
        for lst in contract.REGISTRY.values():
            for c in lst:
                if c.cname == cname and c.__module__ == modname:
                    ccls = c
        case = dict(verify.get_cases(ccls))[case_name]
        res = verify.run_unit(ccls, case_name, case, goal_rlimit=rlimit)
        d = res.to_json()
        d["prop"] = ccls.prop
        d["doc"] = (ccls.__doc__ or "").strip()
        assumed = []
        for u in getattr(ccls, "uses", None) or []:
            u = u[0] if isinstance(u, tuple) else u
            assumed.append({"contract": u.cname, "target": u.target, "assumed": bool(getattr(u, "abstract", False)),
                            "statement": " ".join((u.__doc__ or "").split())[:400]})
        d["uses"] = assumed
        if xc_n and not d.get("unsupported"):
            # CPython cross-check of the engine + the same contract read at run time on the real function
            try:
                from . import crosscheck
                d["crosscheck"] = crosscheck.crosscheck_unit(ccls, case, n=xc_n, seed=arg[5] if len(arg) > 5 else 0)
            except Exception:
                d["crosscheck"] = {"compared": 0, "skipped": "cross-check crashed: " + traceback.format_exc()[-400:], "mismatches": [],
                                   "contract_evals": 0, "contract_failures": [], "contract_errors": []}
        return d
    except Exception:
        return {"contract": cname, "case": case_name, "error": traceback.format_exc(), "obligations": [], "target": "?",
                "unsupported": None, "functions": {}, "dropped": [], "paths": 0, "seconds": 0, "solver_seconds": 0,
                "canary": None, "prop": "?", "doc": ""}


def _fn_worker(arg):
    kind, modname, prop, name, tier, seed = arg
    t0 = time.time()
    try:
        import logging
        logging.disable(logging.CRITICAL)
        from . import extract
        extract.ensure_repo_on_path()
        importlib.import_module(modname)
        reg = FD_REGISTRY if kind == "fd" else BND_REGISTRY
        for entry in reg.get(prop, []):
            if entry[0] == name:
                out = entry[1]() if kind == "fd" else entry[1](tier, seed)
                out["name"] = name
                out["seconds"] = round(time.time() - t0, 3)
                return out
        return {"name": name, "error": "not registered"}
    except Exception:
        return {"name": name, "error": traceback.format_exc(), "seconds": round(time.time() - t0, 3)}


# ---------------------------------------------------------------------------------------------- known findings
def load_known_findings():
    path = os.path.join(VERIF, "known_findings.json")
    if not os.path.exists(path):
        return []
    with open(path) as fh:
        return json.load(fh)["findings"]


def finding_matches(entry, prop, obligation, witness_text):
    if entry.get("property") != prop:
        return False
    pats = entry.get("obligation", "*")
    if not any(fnmatch.fnmatch(obligation, p) for p in (pats if isinstance(pats, list) else [pats])):
        return False
    needle = entry.get("witness_contains")
    if needle:
        needles = needle if isinstance(needle, list) else [needle]
        return all(n in witness_text for n in needles)
    return True


# ---------------------------------------------------------------------------------------------- main
def run_check(prop, tier="quick", seed=0, only=None, jobs=None):
    t_start = time.time()
    from . import contract, extract, verify
    extract.ensure_repo_on_path()
    mods = PROPERTY_MODULES.get(prop, [])
    for m in mods:
        importlib.import_module(m)
    rlimit = None if tier == "quick" else 60_000_000
    xc_n = 0 if os.environ.get("VERIF_CROSSCHECK") == "0" else (6 if tier == "quick" else 40)
    units = []
    for ccls in contract.REGISTRY.get(prop, []):
        if getattr(ccls, "abstract", False):
            continue   # assumed contract used at call sites only (listed in the evidence assumptions)
        for case_name, case in verify.get_cases(ccls):
            if only and not any(fnmatch.fnmatch(f"{ccls.cname}[{case_name}]", o) for o in only):
                continue
            units.append((ccls.__module__, ccls.cname, case_name, rlimit, xc_n, seed))
    fns = []
    for kind, reg in (("fd", FD_REGISTRY), ("bnd", BND_REGISTRY)):
        for entry in reg.get(prop, []):
            if kind == "bnd" and tier not in entry[2]:
                continue
            if only and not any(fnmatch.fnmatch(entry[0], o) for o in only):
                continue
            fns.append((kind, entry[1].__module__, prop, entry[0], tier, seed))
    jobs = jobs or int(os.environ.get("VERIF_JOBS", "16"))
    unit_results, fn_results = [], []
    ctx = mp.get_context("fork")
    with ctx.Pool(min(jobs, max(1, len(units) + len(fns))), maxtasksperchild=8) as pool:
        ur = [pool.apply_async(_unit_worker, (u,)) for u in units]
        fr = [pool.apply_async(_fn_worker, (f,)) for f in fns]
        budget = 600 if tier == "quick" else 3600
        for u, r in zip(units, ur):
            try:
                unit_results.append(r.get(timeout=max(5, budget - (time.time() - t_start))))
            except mp.TimeoutError:
                unit_results.append({"contract": u[1], "case": u[2], "error": None, "unsupported": "unit timed out",
                                     "obligations": [], "target": "?", "functions": {}, "dropped": [], "paths": 0,
                                     "seconds": budget, "solver_seconds": 0, "canary": None, "prop": prop, "doc": ""})
        for f, r in zip(fns, fr):
            try:
                fn_results.append((f[0], r.get(timeout=max(5, budget - (time.time() - t_start)))))
            except mp.TimeoutError:
                fn_results.append((f[0], {"name": f[3], "error": "timed out"}))
        pool.terminate()
    # A bounded pass drives real threads, sockets and timers: a failure counts only if the same clause fails again when the
    # pass is repeated ALONE in a fresh process (twice) - scheduling luck on a loaded machine must not look like a violation,
    # and a real defect reproduces.  (Deterministic passes simply fail three times.)
    if os.environ.get("VERIF_NO_CONFIRM") != "1":
        confirmed_results = []

        def failing(kind, res):
            if kind == "bnd":
                return {x["obligation"] for x in res.get("failures", [])}
            return {o["name"] for o in res.get("obligations", []) if not o["ok"]}

        for (kind, r), f in zip(fn_results, fns):
            if not r.get("error") and failing(kind, r) and not r.get("self_confirmed"):
                names = failing(kind, r)
                first = set(names)
                reruns = 0
                for _ in range(2):
                    if not names:
                        break
                    with ctx.Pool(1) as solo:
                        try:
                            again = solo.apply_async(_fn_worker, (f,)).get(timeout=max(60, 600 if tier == "quick" else 3600))
                        except mp.TimeoutError:
                            again = None          # cannot repeat in time: keep the verdict
                        solo.terminate()
                    if again is None or again.get("error"):
                        break
                    reruns += 1
                    names &= failing(kind, again)
                r = dict(r, repeated_alone=reruns, not_reproduced_alone=sorted(first - names)[:8])
                if kind == "bnd":
                    r["failures"] = [x for x in r["failures"] if x["obligation"] in names]
                else:
                    r["obligations"] = [dict(o, ok=True, note="failed once under load, not reproduced alone") if (not o["ok"] and o["name"] not in names) else o
                                        for o in r["obligations"]]
            confirmed_results.append((kind, r))
        fn_results = confirmed_results
    return assemble(prop, tier, seed, unit_results, fn_results, time.time() - t_start)


def assemble(prop, tier, seed, unit_results, fn_results, wall):
    known = load_known_findings()
    machinery_errors = []
    obligations = []       # (name, verdict, backend, seconds)
    violations = []        # dicts
    undecided = []
    functions = {}
    dropped = set()
    solver_s = 0.0
    out_of_reach = []
    vacuity = []
    canary_counts = {}
    callee_contracts = {}
    xc = {"units_compared": 0, "runs_compared": 0, "contract_evaluations": 0, "skipped": {}, "disagreements": []}
    for u in unit_results:
        tag = f"{u['contract']}[{u['case']}]"
        c = u.get("crosscheck")
        distrust = False
        if c:
            xc["runs_compared"] += c.get("compared", 0)
            xc["contract_evaluations"] += c.get("contract_evals", 0)
            if c.get("compared"):
                xc["units_compared"] += 1
            elif c.get("skipped"):
                xc["skipped"][c["skipped"][:90]] = xc["skipped"].get(c["skipped"][:90], 0) + 1
            if c.get("mismatches"):
                distrust = True
                xc["disagreements"].append({"unit": tag, "first": c["mismatches"][0]})
                machinery_errors.append(f"{tag}: engine disagrees with CPython on concrete inputs; its verdicts are not trusted: {json.dumps(c['mismatches'][0], default=str)[:400]}")
            for ce in c.get("contract_errors") or []:
                xc["skipped"]["contract not evaluable natively: " + ce[:60]] = xc["skipped"].get("contract not evaluable natively: " + ce[:60], 0) + 1
            rt_seen = set()
            for cf in c.get("contract_failures") or []:
                for clause in cf["failed_clauses"][:2]:
                    if clause in rt_seen:
                        continue       # one witness per clause
                    rt_seen.add(clause)
                    violations.append({"obligation": f"{u.get('prop', prop)}/RT/{tag}/{clause}"[:200], "unit": tag, "kind": "rt", "model": cf["inputs"],
                                       "replay": {"status": "confirmed", "failed_clauses": cf["failed_clauses"], "inputs": cf["inputs"], "observed": cf["observed"]},
                                       "solver": "RT (contract evaluated on a native run of the real function)", "target": u.get("target")})
        if u.get("error"):
            machinery_errors.append(f"{tag}: {u['error'][-1500:]}")
            continue
        if u.get("unsupported"):
            out_of_reach.append({"unit": tag, "reason": u["unsupported"]})
            continue
        functions.update(u["functions"])
        dropped.update(u["dropped"])
        for cu in u.get("uses") or []:
            callee_contracts.setdefault(cu["contract"], dict(cu, used_by=[]))["used_by"].append(tag)
        solver_s += u["solver_seconds"]
        canary_counts[u["canary"] or "none"] = canary_counts.get(u["canary"] or "none", 0) + 1
        if u["canary"] == "discharged":
            machinery_errors.append(f"{tag}: canary obligation (False) was discharged: path condition is vacuous")
        elif u["canary"] not in ("refuted", "lemma"):
            vacuity.append({"unit": tag, "canary": u["canary"]})
        if not u["obligations"]:
            machinery_errors.append(f"{tag}: zero obligations generated")
        for ob in u["obligations"]:
            if distrust and ob["verdict"] == "discharged":
                ob = dict(ob, verdict="undecided", reason="engine disagrees with CPython on this function (cross-check)")
            obligations.append({"name": ob["name"], "verdict": ob["verdict"], "backend": ob["backend"] or "z3",
                                "seconds": ob["seconds"], "unit": tag})
            if ob["verdict"] == "refuted" and "quantifier-free relaxation" in (ob["backend"] or "") and (ob.get("replay") or {}).get("status") != "confirmed":
                # a candidate counter-model of the relaxation (quantified hypotheses dropped) that the real code does not confirm
                # decides nothing.  (Models of the finite-model search keep every hypothesis, instantiated over the whole index
                # range of the bounded sequences: they are reported like solver models, with no-failing-input-found when the
                # replay does not confirm them.)
                obligations[-1]["verdict"] = "undecided"
                undecided.append({"obligation": ob["name"], "unit": tag, "reason": "candidate counter-model not confirmed by the replay on the real code "
                                  f"({(ob.get('replay') or {}).get('status')}): {ob.get('reason') or ''}"[:300]})
            elif ob["verdict"] == "refuted":
                violations.append({"obligation": ob["name"], "unit": tag, "kind": "vc", "model": ob.get("model"),
                                   "replay": ob.get("replay"), "solver": ob["backend"], "target": u["target"]})
            elif ob["verdict"] == "undecided":
                undecided.append({"obligation": ob["name"], "unit": tag, "reason": ob.get("reason")})
    fd_domains = []
    bnd_reports = []
    for kind, r in fn_results:
        if r.get("error"):
            machinery_errors.append(f"{kind}:{r.get('name')}: {str(r['error'])[-1500:]}")
            continue
        if kind == "fd":
            fd_domains.append({k: r.get(k) for k in ("name", "domain", "size", "exhaustive", "seconds", "samples", "repeated_alone", "not_reproduced_alone") if k in r or k in ("name", "domain", "size", "exhaustive", "seconds", "samples")})
            for ob in r["obligations"]:
                oname = f"{prop}/FD/{r['name']}/{ob['name']}"
                obligations.append({"name": oname, "verdict": "discharged" if ob["ok"] else "refuted", "backend": "FD",
                                    "seconds": 0, "unit": r["name"]})
                if not ob["ok"]:
                    violations.append({"obligation": oname, "unit": r["name"], "kind": "fd", "model": ob.get("witness"),
                                       "replay": {"status": "confirmed", "failed_clauses": [ob.get("detail", ob["name"])],
                                                  "inputs": ob.get("witness")}, "solver": "FD (exhaustive execution of the real code)"})
        else:
            bnd_reports.append({k: r.get(k) for k in ("name", "scope", "evaluations", "distinct", "seconds", "samples", "rule", "repeated_alone", "not_reproduced_alone") if k in r or k in ("name", "scope", "evaluations", "distinct", "seconds", "samples", "rule")})
            for f in r.get("failures", []):
                oname = f"{prop}/BND/{r['name']}/{f['obligation']}"
                violations.append({"obligation": oname, "unit": r["name"], "kind": "bnd", "model": f.get("witness"),
                                   "replay": {"status": "confirmed", "failed_clauses": [f.get("detail", "")], "inputs": f.get("witness")},
                                   "solver": "BND (bounded execution of the real code)"})
    # ---- classify violations against known findings; write replay files
    from . import extract as _ex
    rbase = os.path.join(VERIF, "replays") if _ex.REPO == "/repo" else os.path.join(os.environ.get("TMPDIR", "/tmp"), "verif-scratch-replays")
    rdir = os.path.join(rbase, prop)
    os.makedirs(rdir, exist_ok=True)
    for old in os.listdir(rdir):       # replay files belong to one run
        try:
            os.remove(os.path.join(rdir, old))
        except OSError:
            pass
    lines = []
    new_violations = 0
    known_hits = []
    spurious = []
    seen_names = {}
    # one report per named obligation: the same clause refuted on several paths of a unit is one violation (the witness
    # with a confirmed native replay is preferred); the number of refuted paths is kept in the replay file
    grouped = {}
    for v in violations:
        key = (v["kind"], v["obligation"])
        g = grouped.get(key)
        if g is None:
            grouped[key] = v
            v["also_refuted_on_paths"] = 0
        else:
            g["also_refuted_on_paths"] += 1
            if (v.get("replay") or {}).get("status") == "confirmed" and (g.get("replay") or {}).get("status") != "confirmed":
                v["also_refuted_on_paths"] = g["also_refuted_on_paths"]
                grouped[key] = v
    violations = list(grouped.values())
    for v in violations:
        rep = v.get("replay") or {}
        status = rep.get("status")
        wtext = json.dumps({"model": v.get("model"), "replay": rep}, default=str, sort_keys=True)
        hit = next((k for k in known if k.get("status") == "known" and finding_matches(k, prop, v["obligation"], wtext)), None)
        base = "".join(ch if ch.isalnum() or ch in "-_." else "_" for ch in v["obligation"])[:180]
        used = seen_names.get(base, 0)
        seen_names[base] = used + 1
        fname = base + (f".{used}" if used else "") + ".json"
        rpath = os.path.join(rdir, fname)
        with open(rpath, "w") as fh:
            json.dump({"property": prop, "obligation": v["obligation"], "kind": v["kind"], "unit": v["unit"],
                       "target": v.get("target"), "solver": v["solver"], "counter_model": v.get("model"), "replay": rep, "also_refuted_on_paths": v.get("also_refuted_on_paths", 0),
                       "how_to_rerun": f"./check {prop} --only '{v['unit']}'"}, fh, indent=1, default=str)
        if hit is not None:
            known_hits.append((hit, v))
            continue
        if v["kind"] == "vc" and status == "spurious":
            spurious.append(v)
            lines.append(f"VIOLATION property={prop} replay={rpath} no-failing-input-found")
            new_violations += 1
            continue
        if v["kind"] == "vc" and status not in ("confirmed",):
            # replay machinery failed: still a refuted obligation with a solver model
            lines.append(f"VIOLATION property={prop} replay={rpath} no-failing-input-found")
            new_violations += 1
            continue
        lines.append(f"VIOLATION property={prop} replay={rpath}")
        new_violations += 1
    seen = set()
    for hit, v in known_hits:
        if hit["id"] not in seen:
            seen.add(hit["id"])
            lines.append(f"KNOWN-FINDING: property={prop} {hit['what']}")
    discharged = sum(1 for o in obligations if o["verdict"] == "discharged")
    return {
        "prop": prop, "tier": tier, "seed": seed, "wall": wall, "obligations": obligations, "discharged": discharged,
        "violations": violations, "new_violations": new_violations, "known_hits": [h["id"] for h, _ in known_hits],
        "undecided": undecided, "out_of_reach": out_of_reach, "machinery_errors": machinery_errors,
        "functions": functions, "dropped": sorted(dropped), "solver_s": solver_s, "fd_domains": fd_domains,
        "bounded": bnd_reports, "lines": lines, "vacuity_notes": vacuity, "crosscheck": xc, "canaries": canary_counts,
        "callee_contracts": [dict(v, used_by=sorted(set(v["used_by"]))[:6] + (["..."] if len(set(v["used_by"])) > 6 else [])) for v in callee_contracts.values()],
    }
