"""./check replay <replay file>: re-decide the obligation a replay file names, on the current tree.

A replay file is written for every refuted obligation (see runner.assemble).  Replaying it re-runs exactly the unit that
produced it (VC unit, finite-domain function or bounded pass) against the tree in VERIF_REPO (default /repo) and prints
whether the obligation still fails, with the concrete input where one exists.  Exit 1: still violated, 0: holds now,
2: no verdict."""
from __future__ import annotations

import json
import sys


def main(argv):
    if not argv:
        print("usage: ./check replay <replay file>")
        return 2
    with open(argv[0]) as fh:
        rec = json.load(fh)
    prop, unit, name = rec["property"], rec["unit"], rec["obligation"]
    print(f"replay of {name}\n  unit: {unit}\n  target: {rec.get('target')}\n  decided by: {rec.get('solver')}")
    rep = rec.get("replay") or {}
    if rep.get("inputs") is not None:
        print("  recorded input:", json.dumps(rep.get("inputs"), default=str)[:800])
    if rep.get("failed_clauses"):
        print("  recorded failure:", "; ".join(map(str, rep["failed_clauses"]))[:800])
    import importlib
    importlib.import_module(f"checks.{prop}")
    from pyvc import runner
    res = runner.run_check(prop, tier="quick", only=[unit])
    again = [v for v in res["violations"] if v["obligation"] == name]
    if again:
        r = again[0].get("replay") or {}
        print(f"STILL-VIOLATED {name} status={r.get('status')}")
        print("  input now:", json.dumps(r.get("inputs"), default=str)[:800])
        print("  failed:", "; ".join(map(str, r.get("failed_clauses") or []))[:800])
        return 1
    other = [v["obligation"] for v in res["violations"]]
    if other:
        print(f"obligation holds now; other obligations of the unit fail: {other[:5]}")
        return 1
    if not res["obligations"] and not res["bounded"]:
        print("unit produced nothing (renamed or removed?)")
        return 2
    print(f"HOLDS-NOW {name} ({res['discharged']} obligations of the unit discharged)")
    return 0


if __name__ == "__main__":
    sys.exit(main(sys.argv[1:]))
