"""Run one verification unit: (contract, case) -> obligations, verdicts, counterexamples, replays."""
from __future__ import annotations

import copy
import os
import inspect
import time
import traceback
import types

import z3

from . import extract, seqops
from .contract import Const, Elem, ElemList, Facade, FixedList, Link, NoneUnless, OpaqueField, RegionList, Loop, MapOf, Obj, OneOf, Optional, Region, Root, Same, SeqOf, Spec, SymDict, _Scalar
from .core import Explorer, Infeasible, Path, PathEnd, PyRaise
from .interp import Interp, OldNS
from .interp_call import Frame
from .interp_stmt import _Return
from .values import (DictCell, ExcV, ObjCell, Opaque, Ref, SeqCell, SeqV, Sym, Unsupported, mk, sort_of, to_term)


# ---------------------------------------------------------------------------------------------- inputs
def make_symbolic(I: Interp, spec, hint, root=None, env=None):
    path = I.path
    if isinstance(spec, _Scalar):
        name = "in:" + hint
        if spec.kind == "int":
            t = z3.Int(name)
        elif spec.kind == "bool":
            t = z3.Bool(name)
        else:
            t = z3.FP(name, sort_of("float"))
        if spec.kind == "int":
            if spec.lo is not None:
                path.assume(t >= spec.lo)
            if spec.hi is not None:
                path.assume(t <= spec.hi)
        path.ex.inputs[name] = {"kind": spec.kind, "term": t}
        return Sym(spec.kind, t)
    if isinstance(spec, SeqOf):
        name = "in:" + hint
        arr = z3.Array(name + ".a", z3.IntSort(), sort_of(spec.elem))
        if spec.length is not None:
            n = spec.length
            nt = z3.IntVal(n)
        else:
            n = z3.Int(name + ".n")
            nt = n
            path.assume(n >= spec.min_len)
            if spec.max_len is not None:
                path.assume(n <= spec.max_len)
        seq = SeqV(spec.kind, spec.elem, arr=arr, length=n)
        if spec.kind in ("bytes", "bytearray"):
            path.assume(seqops.all_elems(seq, lambda t: z3.And(t >= 0, t <= 255)))
        elif spec.kind == "str":
            path.assume(seqops.all_elems(seq, lambda t: z3.And(t >= 0, t <= 0x10FFFF)))
        path.ex.inputs[name] = {"kind": "seq", "seqkind": spec.kind, "elem": spec.elem, "arr": arr, "length": nt}
        if spec.kind in ("list", "bytearray"):
            return path.alloc(SeqCell(seq))
        return seq
    if isinstance(spec, Const):
        return I.lift(spec.value)
    if isinstance(spec, Optional):
        b = z3.Bool("in:" + hint + ".is_none")
        path.ex.inputs["in:" + hint + ".is_none"] = {"kind": "bool", "term": b}
        if I.branch(Sym("bool", b)):
            return None
        return make_symbolic(I, spec.inner, hint, root, env)
    if isinstance(spec, MapOf):
        from .values import MapCell
        name = "in:" + hint
        dom = z3.Array(name + ".dom", z3.IntSort(), z3.BoolSort())
        fields = {}
        optional = {}
        for f, fs in spec.fields.items():
            if isinstance(fs, NoneUnless):
                optional[f] = fs.flag
                fs = fs.inner
            if not isinstance(fs, _Scalar):
                raise Unsupported("MapOf fields must be scalars")
            fields[f] = (fs.kind, z3.Array(f"{name}.{f}", z3.IntSort(), sort_of(fs.kind)))
        path.ex.inputs[name + ".dom"] = {"kind": "map", "dom": dom, "fields": fields}
        mref = path.alloc(MapCell("int", "ref", dom, None, spec.cls, fields))
        path.cell(mref).optional = optional
        return mref
    if isinstance(spec, Region):
        from .values import MapCell
        regions = path.ghost.setdefault("regions", {})
        if id(spec) in regions:
            return regions[id(spec)]
        name = "in:region:" + spec.name
        n = z3.Int(name + ".n")
        path.assume(n >= 0)
        k = z3.Int("k!dom")
        dom = z3.Lambda([k], z3.And(k >= 0, k < n))
        fields = {}
        for f, fs in spec.fields.items():
            if isinstance(fs, _Scalar):
                fields[f] = (fs.kind, z3.Array(f"{name}.{f}", z3.IntSort(), sort_of(fs.kind)))
            elif isinstance(fs, SeqOf) and fs.elem == "int" and fs.kind in ("str", "bytes"):
                # a text / bytes field: one array of characters and one length per object
                fields[f] = ("seq:" + fs.kind, (z3.Array(f"{name}.{f}.a", z3.IntSort(), z3.ArraySort(z3.IntSort(), z3.IntSort())),
                                                 z3.Array(f"{name}.{f}.n", z3.IntSort(), z3.IntSort())))
            elif isinstance(fs, Link):
                fields[f] = ("link", z3.Array(f"{name}.{f}", z3.IntSort(), z3.IntSort()))
            elif isinstance(fs, Facade):
                fields[f] = ("facade", (fs.cls, fs.back))
            elif isinstance(fs, OpaqueField):
                fields[f] = ("opaque", fs.pytype)
            else:
                raise Unsupported("Region fields must be scalars, Link(), Facade(cls) or OpaqueField()")
        path.ex.inputs[name + ".n"] = {"kind": "int", "term": n}
        path.ex.inputs[name] = {"kind": "region", "n": n, "fields": {f: v for f, v in fields.items() if v[0] not in ("facade", "opaque")}}
        for f, (kind, arr) in fields.items():
            if kind.startswith("seq:"):
                kq = z3.Int("k!len")
                hi = 255 if kind == "seq:bytes" else 0x10FFFF
                iq = z3.Int("i!chr")
                path.assume(z3.ForAll([kq], z3.Select(arr[1], kq) >= 0))
                path.assume(z3.ForAll([kq, iq], z3.And(z3.Select(z3.Select(arr[0], kq), iq) >= 0, z3.Select(z3.Select(arr[0], kq), iq) <= hi)))
        ref = path.alloc(MapCell("int", "ref", dom, None, spec.cls, fields, n=n, rname=spec.name))
        from .values import reach_definition
        for f, (kind, arr) in fields.items():
            if kind == "link":
                path.assume(reach_definition(spec.name, f, arr))
        regions[id(spec)] = ref
        path.ghost.setdefault("regions_by_name", {})[spec.name] = ref
        return ref
    if isinstance(spec, RegionList):
        from .values import RegionListCell
        return path.alloc(RegionListCell(make_symbolic(I, spec.region, hint, root, env)))
    if isinstance(spec, ElemList):
        from .values import ElemListCell
        rref = make_symbolic(I, spec.region, hint, root, env)
        keys = seqops.fresh(path, "list", "int", "in:" + hint + ".keys", register=False)
        karr, kn, _ = seqops.as_array(keys)
        q = z3.Int(path.fresh_name("kq"))
        path.assume(z3.ForAll([q], z3.Implies(z3.And(q >= 0, q < kn), z3.And(z3.Select(karr, q) >= 0, z3.Select(karr, q) < path.cell(rref).n))))
        return path.alloc(ElemListCell(rref, keys))
    if isinstance(spec, Elem):
        from .values import MapElem
        rref = make_symbolic(I, spec.region, hint, root, env)
        if spec.optional:
            b = z3.Bool(f"in:{hint}.is_none")
            path.ex.inputs[f"in:{hint}.is_none"] = {"kind": "bool", "term": b}
            if I.branch(Sym("bool", b)):
                return None
        key = z3.Int(f"in:{hint}.key")
        path.ex.inputs[f"in:{hint}.key"] = {"kind": "int", "term": key}
        path.assume(z3.And(key >= 0, key < path.cell(rref).n))
        return MapElem(rref, key)
    if isinstance(spec, OneOf):
        for n, alt in enumerate(spec.alternatives[:-1]):
            b = z3.Bool(f"in:{hint}.alt{n}")
            path.ex.inputs[f"in:{hint}.alt{n}"] = {"kind": "bool", "term": b}
            if I.branch(Sym("bool", b)):
                return make_symbolic(I, alt, hint, root, env)
        return make_symbolic(I, spec.alternatives[-1], hint, root, env)
    if isinstance(spec, Root):
        if root is None:
            raise Unsupported("Root() outside an object spec")
        return root
    if isinstance(spec, Same):
        parts = spec.expr.split(".")
        v = (env or {})[parts[0]]
        for a in parts[1:]:
            v = I.get_attr(v, a)
        return v
    if isinstance(spec, Obj):
        ref = path.alloc(ObjCell(spec.cls, partial=True))
        cell = path.cell(ref)
        for f, s in spec.fields.items():
            cell.attrs[f] = make_symbolic(I, s, f"{hint}.{f}", root if root is not None else ref, env)
        return ref
    if isinstance(spec, FixedList):
        items = [make_symbolic(I, s, f"{hint}[{k}]") for k, s in enumerate(spec.items)]
        seq = SeqV(spec.kind, seqops.elem_kind_of_items(items) if items else None, items=items)
        return path.alloc(SeqCell(seq)) if spec.kind == "list" else seq
    if isinstance(spec, dict):
        return path.alloc(DictCell({k: make_symbolic(I, s, f"{hint}[{k!r}]", root, env) for k, s in spec.items()}))
    if isinstance(spec, SymDict):
        from .values import SymKey
        d = {}
        for n, (ks, vs) in enumerate(spec.entries):
            d[SymKey(make_symbolic(I, ks, f"{hint}.key{n}", root, env))] = make_symbolic(I, vs, f"{hint}.value{n}", root, env)
        return path.alloc(DictCell(d))
    raise Unsupported(f"input spec {spec!r}")


_CONCRETE_ROOT = []      # the outermost object being built by make_concrete (Root() back references)


def make_concrete(spec, hint, model):
    """Real Python value for a spec under a counter-model (same naming scheme as make_symbolic)."""
    if isinstance(spec, _Scalar):
        v = model.get("in:" + hint)
        if spec.kind == "float":
            if isinstance(v, dict) and "float_bits" in v:
                import struct

                return struct.unpack(">d", struct.pack(">Q", v["float_bits"]))[0]
            return 0.0
        if v is None:
            v = 0 if spec.kind == "int" else False
        return v
    if isinstance(spec, SeqOf):
        v = model.get("in:" + hint) or {"len": spec.length or spec.min_len, "items": []}
        n = v["len"]
        items = list(v["items"]) + [0] * (n - len(v["items"]))
        if spec.elem == "float":
            import struct

            items = [struct.unpack(">d", struct.pack(">Q", i["float_bits"]))[0] if isinstance(i, dict) and "float_bits" in i else 0.0 for i in items]
        if spec.elem == "bool":
            items = [bool(i) for i in items]
        if spec.kind == "bytes":
            return bytes(i & 0xFF for i in items)
        if spec.kind == "bytearray":
            return bytearray(i & 0xFF for i in items)
        if spec.kind == "str":
            return "".join(chr(max(0, min(i, 0x10FFFF))) for i in items)
        if spec.kind == "tuple":
            return tuple(items)
        return list(items)
    if isinstance(spec, Optional):
        return None if model.get("in:" + hint + ".is_none") else make_concrete(spec.inner, hint, model)
    if isinstance(spec, Const):
        return spec.value
    if isinstance(spec, Obj):
        obj = object.__new__(spec.cls)
        import logging as _lg
        null = _lg.getLogger("verif.null")
        null.disabled = True
        for lname in ("_logger", "_communication_logger", "_bytestream_logger"):
            try:
                object.__setattr__(obj, lname, null)   # logging is dropped by extraction (A-LOG); replays need the objects
            except Exception:
                pass
        outermost = not _CONCRETE_ROOT
        if outermost:
            _CONCRETE_ROOT.append(obj)
        try:
            for f, s in spec.fields.items():
                object.__setattr__(obj, f, _CONCRETE_ROOT[0] if isinstance(s, Root) else make_concrete(s, f"{hint}.{f}", model))
        finally:
            if outermost:
                _CONCRETE_ROOT.pop()
        return obj
    if isinstance(spec, FixedList):
        items = [make_concrete(s, f"{hint}[{k}]", model) for k, s in enumerate(spec.items)]
        return items if spec.kind == "list" else tuple(items)
    if isinstance(spec, dict):
        return {k: make_concrete(s, f"{hint}[{k!r}]", model) for k, s in spec.items()}
    if isinstance(spec, Region):
        cache = model.setdefault("__regions__", {})
        if spec.name in cache:
            return cache[spec.name]
        m = model.get("in:region:" + spec.name) or {"n": model.get(f"in:region:{spec.name}.n", 0), "objects": []}
        n = max(0, min(int(m["n"]), 70000))
        objs = [object.__new__(spec.cls) for _ in range(n)]
        for k, o in enumerate(objs):
            vals = m["objects"][k] if k < len(m["objects"]) else {}
            for f, fs in spec.fields.items():
                if isinstance(fs, Link):
                    t = vals.get(f, -1)
                    v = objs[t] if isinstance(t, int) and 0 <= t < n else None
                elif isinstance(fs, Facade):
                    v = object.__new__(fs.cls)
                    object.__setattr__(v, fs.back, o)
                elif isinstance(fs, OpaqueField):
                    v = f"{spec.name}#{k}" if fs.pytype is str else fs.pytype()
                elif isinstance(fs, SeqOf):
                    items = vals.get(f, [])
                    v = "".join(chr(max(0, min(i, 0x10FFFF))) for i in items) if fs.kind == "str" else bytes(i & 0xFF for i in items)
                else:
                    v = vals.get(f, 0 if fs.kind == "int" else False)
                object.__setattr__(o, f, v)
            object.__setattr__(o, "g_region", objs)     # native reading of region_of(): the list of all objects of the region
        cache[spec.name] = objs
        return objs
    if isinstance(spec, RegionList):
        return make_concrete(spec.region, hint, model)
    if isinstance(spec, Elem):
        objs = make_concrete(spec.region, hint, model)
        if spec.optional and model.get(f"in:{hint}.is_none"):
            return None
        k = model.get(f"in:{hint}.key", 0)
        if not objs:
            return None
        return objs[k] if isinstance(k, int) and 0 <= k < len(objs) else objs[0]
    raise Unsupported(f"input spec {spec!r}")


# ---------------------------------------------------------------------------------------------- unit
class UnitResult:
    def __init__(self, contract_name, case_name, target):
        self.contract = contract_name
        self.case = case_name
        self.target = target
        self.obligations = []     # dicts
        self.unsupported = None   # reason string if the unit is out of reach
        self.error = None         # machinery error (traceback)
        self.functions = {}
        self.dropped = []
        self.paths = 0
        self.seconds = 0.0
        self.solver_seconds = 0.0
        self.canary = None        # 'refuted' (good) | 'discharged' (vacuous!) | None
        self.replays = []

    def to_json(self):
        return self.__dict__


def contract_functions(ccls, prefix):
    out = []
    for klass in reversed(ccls.__mro__):
        for name, fn in klass.__dict__.items():
            if name.startswith(prefix) and isinstance(fn, (types.FunctionType, staticmethod)):
                out = [(n, f) for n, f in out if n != name]
                out.append((name, getattr(fn, "__func__", fn)))
    return out


def bind_by_name(fn, namespace):
    params = list(inspect.signature(fn).parameters)
    missing = [p for p in params if p not in namespace]
    if missing:
        raise Unsupported(f"contract function {fn.__qualname__} mentions unknown names {missing}")
    return [namespace[p] for p in params]


def get_cases(ccls):
    cases = getattr(ccls, "cases", None)
    if cases is None:
        return [("default", {})]
    if callable(cases):
        cases = cases()
    return list(cases)


def resolve_target(ccls, case):
    """(raw function, defining class or None, param-name list)."""
    obj, owner, module = extract.lookup(ccls.target)
    fn = extract.raw_function(obj)
    info = extract.info_for_function(fn)
    if info is None:
        raise Unsupported(f"no source for {ccls.target}")
    defcls = owner if isinstance(owner, type) else None
    return fn, defcls, info, obj


def run_unit(ccls, case_name, case, goal_rlimit=None, loop_specs=None) -> UnitResult:
    res = UnitResult(ccls.cname, case_name, ccls.target)
    t0 = time.time()
    try:
        _run_unit(ccls, case_name, case, res, goal_rlimit)
    except Unsupported as exc:
        res.unsupported = str(exc)
    except Exception:
        res.error = traceback.format_exc()
    res.seconds = time.time() - t0
    return res


def _callee_substitutions(ccls):
    """Contracts of callees used modularly: {function object: substitution callable}."""
    from .modular import make_substitution

    subs = {}
    for callee_contract in getattr(ccls, "uses", []) or []:
        case_map = None
        if isinstance(callee_contract, tuple):
            callee_contract, case_map = callee_contract
        obj, owner, module = extract.lookup(callee_contract.target)
        fn = extract.raw_function(obj)
        subs[fn] = make_substitution(callee_contract, case_map)
    return subs


def _run_lemma(ccls, case_name, case, res, goal_rlimit):
    """Lemma unit: goals are z3 formulas built by the contract from live class constants (no code path)."""
    from .core import Obligation, solve_obligation, GOAL_RLIMIT

    obj, owner, module = extract.lookup(ccls.target)
    path, sha, _ = None, None, None
    import inspect as _i
    src = _i.getsourcefile(obj if isinstance(obj, type) else module)
    tree, sha, _ = extract.parse_file(src)
    res.functions[ccls.target] = {"function": ccls.target, "file": src, "sha256": sha, "lines": None}
    label = f"{ccls.prop}/{ccls.target}[{case_name}]"
    goals = ccls.goals(**case)
    for name, (hyps, goal, mvars) in goals.items():
        ob = Obligation(f"{label}/{name}", list(hyps), goal, [], "lemma")
        solve_obligation(ob, goal_rlimit or GOAL_RLIMIT, mvars)
        res.solver_seconds += ob.seconds
        d = {"name": ob.name, "verdict": ob.verdict, "backend": ob.solver, "seconds": round(ob.seconds, 4),
             "reason": ob.reason, "model": ob.model, "path": "lemma"}
        if ob.verdict == "refuted" and hasattr(ccls, "replay"):
            try:
                d["replay"] = ccls.replay(case, name, ob.model or {})
            except Exception:
                d["replay"] = {"status": "replay-error", "detail": traceback.format_exc()}
        res.obligations.append(d)
    res.canary = "lemma"
    res.paths = 0


def _run_unit(ccls, case_name, case, res, goal_rlimit):
    if getattr(ccls, "lemma", False):
        return _run_lemma(ccls, case_name, case, res, goal_rlimit)
    fn, defcls, info, obj = resolve_target(ccls, case)
    res.functions[ccls.target] = info.describe()
    ex = Explorer(**({"goal_rlimit": goal_rlimit} if goal_rlimit else {}))
    specs = ccls.inputs(**case) if case else ccls.inputs()
    requires = contract_functions(ccls, "requires")
    ensures = contract_functions(ccls, "ensures")
    raises_fn = contract_functions(ccls, "raises")
    loops = getattr(ccls, "loops", {}) or {}
    if callable(loops) and not isinstance(loops, dict):
        loops = loops(**case) if case else loops()
    subs = _callee_substitutions(ccls)
    codec_tables = getattr(ccls, "codec_tables", None)
    canary_done = [False]
    # contracts with quantified hypotheses of their own (lemmas, region invariants) ask for a vacuity canary on EVERY path
    every_path_canary = getattr(ccls, "canary", "") == "every-path" or bool(os.environ.get("VERIF_CANARY_ALL"))
    params = [p.arg for p in info.node.args.posonlyargs + info.node.args.args]
    label = f"{ccls.prop}/{ccls.target}[{case_name}]"

    def one_path(path: Path):
        I = Interp(path, callee_contracts=subs, codec_tables=codec_tables() if callable(codec_tables) else codec_tables)
        I.loop_specs = {k: v for k, v in loops.items() if isinstance(k, str)}
        I.case = case
        I.allow_text_conversions = bool(getattr(ccls, "text_conversions_abstracted", False))
        I.rely = list(getattr(ccls, 'rely', []) or [])
        I.top_frame = None
        I.unit_label = label
        frame = Frame(fn.__globals__, defcls, None, info)
        I.top_frame = frame
        args = {}
        for p in params:
            if p not in specs:
                d = _default_for(fn, info, p)
                if d is _NODEFAULT:
                    raise Unsupported(f"contract gives no input spec for parameter {p}")
                args[p] = I.lift(d)
            else:
                args[p] = make_symbolic(I, specs[p], p)
        for p, v in args.items():
            frame.locals[p] = v
        if params:
            frame.self_name = params[0]
        frame.loop_contracts = {k: v for k, v in loops.items() if isinstance(k, int)}
        from .interp_call import number_loops

        frame.loop_ordinals = number_loops(info.node)
        from .interp_call import number_comprehensions
        frame.comp_ordinals = number_comprehensions(info.node)
        comps = getattr(ccls, "comprehensions", None) or {}
        frame.comp_contracts = (comps(**case) if case else comps()) if callable(comps) else comps
        I.old_heap = path.snapshot_heap()
        old_ns = OldNS(dict(args))
        frame.old_ns = old_ns
        ns = dict(args)
        ns["old"] = old_ns
        ns["case"] = I.lift(case)
        # lemma-backed axioms (each lemma is a separately verified unit)
        ax = getattr(ccls, "axioms", None)
        if ax is not None:
            for h in (ax(**case) if case else ax()):
                path.assume(h)
        # preconditions
        for name, f in requires:
            v = I.spec_call(f, bind_by_name(f, ns))
            path.assume(I.truthy(v))
        raise_conds = {}
        for name, f in raises_fn:
            d = I.spec_call(f, bind_by_name(f, ns))
            cell = path.cell(d)
            for k, c in cell.d.items():
                t = I.truthy(c)
                raise_conds[k] = z3.BoolVal(t) if isinstance(t, bool) else t
        # body
        outcome, value = "return", None
        I.depth = 1
        try:
            I.exec_block(info.node.body, frame)
        except _Return as r:
            value = r.value
        except PyRaise as pr:
            outcome, value = "raise", pr.exc
        res.functions.update({k: v.describe() for k, v in I.functions_seen.items()})
        res.dropped = sorted(set(res.dropped) | I.dropped)
        if outcome == "raise":
            declared = [k for k in raise_conds if isinstance(k, type) and issubclass(value.cls, k)]
            may = tuple(getattr(ccls, "may_raise", ()) or ())
            if not declared and may and issubclass(value.cls, may):
                # the contract leaves open WHEN these exceptions occur (e.g. whatever a call-out raises); only what holds
                # at a normal return and the when_raised clauses are obligations
                for name, f in contract_functions(ccls, "when_raised"):
                    v = I.spec_call(f, bind_by_name(f, dict(ns, exc=value)))
                    cell = path.cell(v) if isinstance(v, Ref) else None
                    for cname, c in (cell.d.items() if isinstance(cell, DictCell) else [(name, v)]):
                        t = I.truthy(c)
                        path.oblige(f"{label}/when-raised.{value.cls.__name__}.{cname}", z3.BoolVal(t) if isinstance(t, bool) else t, assume_after=False)
                return
            if not declared:
                path.oblige(f"{label}/no-unexpected-exception.{value.cls.__name__}", z3.BoolVal(False), assume_after=False)
            else:
                path.oblige(f"{label}/raises.{declared[0].__name__}.only-when", raise_conds[declared[0]], assume_after=False)
                # what must hold when the function raises ("... raises and changes nothing"): unchanged_when_raised(self, old, ...)
                for name, f in contract_functions(ccls, "when_raised"):
                    v = I.spec_call(f, bind_by_name(f, dict(ns, exc=value)))
                    cell = path.cell(v) if isinstance(v, Ref) else None
                    for cname, c in (cell.d.items() if isinstance(cell, DictCell) else [(name, v)]):
                        t = I.truthy(c)
                        path.oblige(f"{label}/when-raised.{declared[0].__name__}.{cname}", z3.BoolVal(t) if isinstance(t, bool) else t, assume_after=False)
                if every_path_canary:
                    path.oblige(f"{label}/canary", z3.BoolVal(False), assume_after=False, kind="canary")
            return
        for k, c in raise_conds.items():
            path.oblige(f"{label}/raises.{k.__name__}.whenever", z3.Not(c), assume_after=False)
        ns2 = dict(ns)
        ns2["result"] = value
        for name, f in ensures:
            v = I.spec_call(f, bind_by_name(f, ns2))
            cell = path.cell(v) if isinstance(v, Ref) else None
            if isinstance(cell, DictCell):
                for k, c in cell.d.items():
                    t = I.truthy(c)
                    path.oblige(f"{label}/{name}.{k}", z3.BoolVal(t) if isinstance(t, bool) else t, assume_after=False)
            else:
                t = I.truthy(v)
                for n, conj in enumerate(_conjuncts(z3.BoolVal(t) if isinstance(t, bool) else t)):
                    path.oblige(f"{label}/{name}" + (f".{n}" if n else ""), conj, assume_after=False)
        if not canary_done[0] or every_path_canary:
            canary_done[0] = True
            path.oblige(f"{label}/canary", z3.BoolVal(False), assume_after=False, kind="canary")

    ex.run(one_path)
    ex.solve_all()
    res.paths = ex.paths
    res.solver_seconds = ex.solver_seconds
    refuted_paths = [list(o.path) for o in ex.obligations if o.kind != "canary" and o.verdict == "refuted"]
    for ob in ex.obligations:
        if ob.kind == "canary":
            if ob.verdict == "discharged" and any(list(ob.path)[:len(rp)] == rp for rp in refuted_paths):
                # the path went on after a refuted obligation, which is assumed from there on: what follows may well be
                # vacuous - the refutation is the verdict of this path, not a defect of the unit's hypotheses
                res.canaries = getattr(res, "canaries", 0) + 1
                continue
            if res.canary != "discharged":      # one vacuous path is enough to distrust the unit
                res.canary = ob.verdict
            res.canaries = getattr(res, "canaries", 0) + 1
            continue
        res.obligations.append({
            "name": ob.name, "verdict": ob.verdict, "backend": ob.solver, "seconds": round(ob.seconds, 4),
            "reason": ob.reason, "model": ob.model, "path": "".join("T" if b else "F" for b in ob.path),
        })
    if not canary_done[0]:
        res.canary = "no-normal-return-path"
    # replay refuted obligations on the real code
    for ob in res.obligations:
        if ob["verdict"] == "refuted":
            try:
                custom = getattr(ccls, "replay", None)
                ob["replay"] = custom(case, ob["name"], ob["model"] or {}) if custom is not None else None
                if ob["replay"] is None and _uses_ghost_views_of_real_functions(ccls):
                    # the inputs are ghost-shaped (assumed views of real repository functions): running the real bodies on
                    # them natively says nothing; without a hand-written replay there is no failing input to show
                    ob["replay"] = {"status": "not-replayable", "why": "the unit's inputs are ghost views of repository objects (assumed call-site contracts on real functions); no native replay is defined for it"}
                if ob["replay"] is None:
                    ob["replay"] = replay(ccls, case, ob["model"] or {})
            except Exception:
                ob["replay"] = {"status": "replay-error", "detail": traceback.format_exc()}
            if isinstance(ob.get("model"), dict):
                ob["model"].pop("__regions__", None)     # the objects built for the replay are not part of the counter-model


def _uses_ghost_views_of_real_functions(ccls):
    for u in getattr(ccls, "uses", None) or []:
        u = u[0] if isinstance(u, tuple) else u
        if getattr(u, "abstract", False) and not u.target.startswith("spec.ext:"):
            return True
    return False


def _conjuncts(t):
    if z3.is_and(t):
        out = []
        for c in t.children():
            out.extend(_conjuncts(c))
        return out
    return [t]


_NODEFAULT = object()


def _default_for(fn, info, p):
    a = info.node.args
    params = [x.arg for x in a.posonlyargs + a.args]
    defaults = list(fn.__defaults__ or ())
    i = params.index(p)
    di = i - (len(params) - len(defaults))
    if di < 0:
        return _NODEFAULT
    return defaults[di]


# ---------------------------------------------------------------------------------------------- replay
def replay(ccls, case, model):
    """Run the real function in CPython on the concretised counter-model and evaluate the contract natively."""
    fn, defcls, info, obj = resolve_target(ccls, case)
    specs = ccls.inputs(**case) if case else ccls.inputs()
    params = [p.arg for p in info.node.args.posonlyargs + info.node.args.args]
    args = {}
    for p in params:
        if p in specs:
            args[p] = make_concrete(specs[p], p, model)
        else:
            args[p] = _default_for(fn, info, p)
    import contextlib
    ctx = contextlib.nullcontext()
    prep = getattr(ccls, "replay_prepare", None)
    if prep is not None:
        ctx = prep(args, model) or ctx
    try:
        old = types.SimpleNamespace(**copy.deepcopy(args))
    except Exception:
        old = types.SimpleNamespace(**{k: _shallow(v) for k, v in args.items()})
    ns = dict(args)
    ns["old"] = old
    ns["case"] = case
    shown = {k: _show(v) for k, v in args.items()}
    for name, f in contract_functions(ccls, "requires"):
        if not f(*bind_by_name(f, ns)):
            return {"status": "spurious", "why": f"precondition {name} false on concretised model", "inputs": shown}
    raise_conds = {}
    for name, f in contract_functions(ccls, "raises"):
        raise_conds.update(f(*bind_by_name(f, ns)))
    outcome, value = "return", None
    box = {}

    def _call():
        try:
            box["value"] = fn(*[args[p] for p in params])
        except BaseException as exc:  # noqa
            box["exc"] = exc

    import threading as _th
    th = _th.Thread(target=_call, daemon=True)
    with ctx:
        th.start()
        th.join(getattr(ccls, "replay_timeout", 5.0))
    if th.is_alive():
        return {"status": "blocked", "why": "the real function did not return within the replay timeout (it waits for "
                "another thread; the environment of the counter-model cannot be replayed by a plain call)", "inputs": shown}
    if "exc" in box:
        outcome, value = "raise", box["exc"]
        if isinstance(value, NotImplementedError) and value.args == ("external",):
            # an abstract stand-in of spec.ext was called natively: this run shows nothing about the real code
            return {"status": "not-replayable", "why": "the counter-model's environment contains an abstract stand-in without a native reading", "inputs": shown}
    else:
        value = box.get("value")
    failed = []
    if outcome == "raise":
        declared = [k for k in raise_conds if isinstance(value, k)]
        may = tuple(getattr(ccls, "may_raise", ()) or ())
        if not declared and may and isinstance(value, may):
            pass
        elif not declared:
            failed.append(f"unexpected exception {type(value).__name__}: {value}")
        elif not raise_conds[declared[0]]:
            failed.append(f"raised {type(value).__name__} although its raising condition is false: {value}")
        else:
            for name, f in contract_functions(ccls, "when_raised"):
                r = f(*bind_by_name(f, dict(ns, exc=value)))
                if isinstance(r, dict):
                    failed.extend(f"when-raised.{name}.{k}" for k, c in r.items() if not c)
                elif not r:
                    failed.append(f"when-raised.{name}")
    else:
        for k, c in raise_conds.items():
            if c:
                failed.append(f"returned normally although {k.__name__} is required")
        ns2 = dict(ns)
        ns2["result"] = value
        for name, f in contract_functions(ccls, "ensures"):
            try:
                r = f(*bind_by_name(f, ns2))
            except Exception as exc:
                return {"status": "spec-error", "why": f"{name}: concrete evaluation of the contract raised {type(exc).__name__}: {exc}",
                        "inputs": shown}
            if isinstance(r, dict):
                failed.extend(f"{name}.{k}" for k, c in r.items() if not c)
            elif not r:
                failed.append(name)
    return {
        "status": "confirmed" if failed else "spurious",
        "failed_clauses": failed,
        "inputs": shown,
        "observed": {"outcome": outcome, "value": _show(value)},
    }


def _shallow(v):
    try:
        o = object.__new__(type(v))
        o.__dict__.update(copy.deepcopy(dict(vars(v))))
        return o
    except Exception:
        return v


def _show(v, depth=0):
    if isinstance(v, (bytes, bytearray)):
        return {"bytes_hex": bytes(v[:64]).hex(), "len": len(v)}
    if isinstance(v, (int, float, str, bool)) or v is None:
        return v if not isinstance(v, float) else repr(v)
    if isinstance(v, (list, tuple)) and depth < 3:
        return [_show(x, depth + 1) for x in v[:32]]
    if isinstance(v, dict) and depth < 3:
        return {str(k): _show(x, depth + 1) for k, x in list(v.items())[:32]}
    if hasattr(v, "__dict__") and depth < 3:
        return {"class": type(v).__name__, "fields": {k: _show(x, depth + 1) for k, x in list(vars(v).items())[:16]
                                                        if not k.endswith("logger")}}
    try:
        return repr(v)[:200]
    except Exception:       # a __repr__ that needs fields the contract's input shape does not have
        return f"<{type(v).__name__} object>"
