"""Modular use of a callee's contract at a call site: assert requires, havoc modifies, assume ensures."""
from __future__ import annotations

import z3

from .core import PyRaise
from .values import DictCell, ExcV, ObjCell, Ref, SeqCell, SeqV, Sym, Unsupported


def make_substitution(ccls, case_map=None):
    from .verify import bind_by_name, contract_functions, make_symbolic
    from .interp import OldNS
    from . import extract

    def substitute(I, fn, args, kwargs, defcls):
        info = extract.info_for_function(fn)
        params = [p.arg for p in info.node.args.posonlyargs + info.node.args.args]
        ns = {}
        defaults = list(fn.__defaults__ or ())
        for i, p in enumerate(params):
            if i < len(args):
                ns[p] = args[i]
            elif p in kwargs:
                ns[p] = kwargs[p]
            else:
                ns[p] = I.lift(defaults[i - (len(params) - len(defaults))])
        path = I.path
        caller_case = getattr(I, "case", None) or {}
        callee_case = case_map(caller_case) if case_map else caller_case
        site = f"call:{ccls.target.split(':')[1]}"
        saved_old = I.old_heap
        I.old_heap = path.snapshot_heap()
        try:
            ns["old"] = OldNS(dict(ns))
            ns["case"] = I.lift(callee_case)
            for name, f in contract_functions(ccls, "requires"):
                v = I.spec_call(f, bind_by_name(f, ns))
                cell = path.cell(v) if isinstance(v, Ref) else None
                named = list(cell.d.items()) if isinstance(cell, DictCell) else [(None, v)]   # a dict = named pre-conditions
                for cname, c in named:
                    t = I.truthy(c)
                    path.oblige(f"{I.unit_label}/{site}.{name}" + (f".{cname}" if cname is not None else ""),
                                z3.BoolVal(t) if isinstance(t, bool) else t)
            for name, f in contract_functions(ccls, "raises"):
                d = I.spec_call(f, bind_by_name(f, ns))
                for k, c in path.cell(d).d.items():
                    attrs = None
                    if isinstance(c, SeqV) and c.items is not None and len(c.items) == 2:
                        c, attrs = c.items
                    if I.branch(c):
                        exc = ExcV(k, ())
                        if attrs is not None:
                            exc.attrs.update(path.cell(attrs).d)
                        raise PyRaise(exc)
            # havoc what the callee may modify
            n = path.ghost["callsite"] = path.ghost.get("callsite", 0) + 1
            mods = getattr(ccls, "modifies", None) or {}
            if callable(mods):
                mods = mods(**callee_case)
            rspec = getattr(ccls, "returns", None)
            if callable(rspec) and not hasattr(rspec, "kind"):
                rspec = rspec(**callee_case)
            for expr_name, spec in mods.items():
                if expr_name.startswith("region("):
                    # "region(x).field": the callee may change this field of ANY object of x's region
                    pname, fname = expr_name[len("region("):].split(").")
                    elem = ns[pname]
                    rcell = path.cell(elem.map_ref)
                    kind, arr = rcell.fields[fname]
                    rcell.fields = dict(rcell.fields)
                    rcell.fields[fname] = (kind, z3.Array(path.fresh_name(f"{site}#{n}.{fname}"), z3.IntSort(), arr.sort().range()))
                    continue
                parts = expr_name.split(".")
                base = ns[parts[0]]
                for a in parts[1:-1]:
                    base = I.get_attr(base, a)
                I.set_attr(base, parts[-1], make_symbolic(I, spec, f"{site}#{n}.{expr_name}", env=ns))
            # `in_every_case*` clauses: assumed of the havocked state however the call ends (normal return or may_raise)
            for name, f in contract_functions(ccls, "in_every_case"):
                t = I.truthy(I.spec_call(f, bind_by_name(f, ns)))
                if t is False:
                    raise Unsupported(f"clause '{name}' of the call-site contract {ccls.cname} is constantly false here")
                path.assume(t)
            # exceptions the callee's contract leaves open (may_raise): the call may end in any of them, after having changed
            # whatever it may modify
            for k in (getattr(ccls, "may_raise", None) or []):
                if path.decide(z3.Bool(path.fresh_name(f"{site}.may_raise.{k.__name__}"))):
                    raise PyRaise(ExcV(k, ()))
            creates = getattr(ccls, "returns_new", None)
            if creates is not None:
                # the callee returns a NEW object: the next object of this region
                rref = make_symbolic(I, creates, f"{site}#{n}.region", env=ns)
                # the region stands for ALL objects of its kind the run creates: its (ghost) size is at least what is created
                path.assume(I.alloc_counter(rref) < path.cell(rref).n)
                result = I.allocate(rref)
            else:
                result = make_symbolic(I, rspec, f"{site}#{n}.result", env=ns) if rspec is not None else None
            ns["result"] = result
            for name, f in contract_functions(ccls, "ensures"):
                v = I.spec_call(f, bind_by_name(f, ns))
                cell = path.cell(v) if isinstance(v, Ref) else None
                clauses = list(cell.d.items()) if isinstance(cell, DictCell) else [(name, v)]
                for cname, c in clauses:
                    t = I.truthy(c)
                    if t is False:
                        # a postcondition that is literally false would silently end the path (everything after the call
                        # vacuously proved): that is a defect of the contract (e.g. no `returns` shape), never a proof
                        raise Unsupported(f"postcondition '{cname}' of the call-site contract {ccls.cname} is constantly false here "
                                          f"(missing `returns` shape?)")
                    path.assume(t)
            return result
        finally:
            I.old_heap = saved_old

    substitute.contract = ccls
    return substitute
