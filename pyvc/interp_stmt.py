"""Statement execution, loops (unrolling / invariants), assignment targets."""
from __future__ import annotations

import ast

import z3

from . import seqops
from .contract import ElemList
from .core import PathEnd, PyRaise
from .values import (BoundMethod, Closure, DictCell, ElemListCell, EnumerateV, ExcV, MapCell, MapElem, ObjCell, RegionListCell, Opaque, RangeV, Ref, SeqCell,
                     SeqV, Sym, Unsupported, is_scalar, kind_of, mk, sort_of, to_term)

UNROLL_LIMIT = 40


class _Return(Exception):
    def __init__(self, value):
        super().__init__()
        self.value = value


class _Break(Exception):
    pass


class _Continue(Exception):
    pass


LOGGER_NAMES = ("_logger", "_communication_logger", "logger", "LOG", "log")


def _is_logging_call(node):
    """`self._logger.debug(...)`, `self._communication_logger.info(...)`, `logging.debug(...)`, `LOG.x(...)`."""
    if not isinstance(node, ast.Call) or not isinstance(node.func, ast.Attribute):
        return False
    f = node.func
    if f.attr not in ("debug", "info", "warning", "error", "exception", "critical", "log"):
        return False
    v = f.value
    if isinstance(v, ast.Attribute) and (v.attr in LOGGER_NAMES or v.attr.endswith("logger")):
        return True
    if isinstance(v, ast.Name) and v.id in ("logging",) + LOGGER_NAMES:
        return True
    return False


def assigned_names(nodes):
    """Names (and attribute/subscript bases) possibly written inside a loop body: used for havoc."""
    names, attrs, mutated = set(), set(), set()

    class V(ast.NodeVisitor):
        def visit_Name(self, n):
            if isinstance(n.ctx, (ast.Store, ast.Del)):
                names.add(n.id)

        def visit_Attribute(self, n):
            if isinstance(n.ctx, (ast.Store, ast.Del)):
                attrs.add(ast.unparse(n))
            self.generic_visit(n)

        def visit_Subscript(self, n):
            if isinstance(n.ctx, (ast.Store, ast.Del)):
                mutated.add(ast.unparse(n.value))
            self.generic_visit(n)

        def visit_AugAssign(self, n):
            if isinstance(n.target, ast.Name):
                names.add(n.target.id)
                mutated.add(n.target.id)  # `x += y` mutates lists/bytearrays in place
            elif isinstance(n.target, ast.Attribute):
                attrs.add(ast.unparse(n.target))
            self.generic_visit(n)

        def visit_Call(self, n):
            if isinstance(n.func, ast.Attribute) and n.func.attr in (
                    "append", "extend", "remove", "pop", "clear", "insert", "update", "setdefault", "add", "discard"):
                mutated.add(ast.unparse(n.func.value))
            self.generic_visit(n)

        def visit_FunctionDef(self, n):
            pass

        def visit_Lambda(self, n):
            pass

    for nd in nodes:
        V().visit(nd)
    return names, attrs, mutated


class StmtMixin:
    def exec_block(self, stmts, frame):
        for s in stmts:
            self.exec(s, frame)

    def exec(self, node, frame):
        m = getattr(self, "s_" + type(node).__name__, None)
        if m is None:
            raise Unsupported(f"statement {type(node).__name__} at line {node.lineno}")
        return m(node, frame)

    def s_Expr(self, node, frame):
        if isinstance(node.value, ast.Constant):
            return
        if _is_logging_call(node.value):
            self.note_dropped(f"logging call line {node.lineno}")
            return
        self.eval(node.value, frame)

    def s_Pass(self, node, frame):
        pass

    def s_Import(self, node, frame):
        import importlib

        for a in node.names:
            mod = importlib.import_module(a.name)
            if a.asname:
                frame.locals[a.asname] = mod
            else:
                frame.locals[a.name.split(".")[0]] = importlib.import_module(a.name.split(".")[0])

    def s_ImportFrom(self, node, frame):
        import importlib

        pkg = frame.globals.get("__package__") if frame.globals else None
        if node.level:
            base = (frame.globals.get("__name__") if "__path__" in frame.globals else pkg) or pkg
            mod = importlib.import_module("." * node.level + (node.module or ""), pkg)
        else:
            mod = importlib.import_module(node.module)
        for a in node.names:
            try:
                val = getattr(mod, a.name)
            except AttributeError:
                val = importlib.import_module(mod.__name__ + "." + a.name)
            frame.locals[a.asname or a.name] = val

    def s_Global(self, node, frame):
        raise Unsupported("global statement")

    def s_Return(self, node, frame):
        raise _Return(self.eval(node.value, frame) if node.value is not None else None)

    def s_Break(self, node, frame):
        raise _Break()

    def s_Continue(self, node, frame):
        raise _Continue()

    def s_Assert(self, node, frame):
        if not self.branch(self.eval(node.test, frame)):
            raise PyRaise(ExcV(AssertionError, ()))

    def s_Delete(self, node, frame):
        for t in node.targets:
            if isinstance(t, ast.Name):
                frame.locals.pop(t.id, None)
            elif isinstance(t, ast.Subscript):
                base = self.eval(t.value, frame)
                if isinstance(t.slice, ast.Slice):
                    lo = self.eval(t.slice.lower, frame) if t.slice.lower else None
                    hi = self.eval(t.slice.upper, frame) if t.slice.upper else None
                    self.del_slice(base, lo, hi)
                else:
                    self.del_item(base, self.eval(t.slice, frame))
            elif isinstance(t, ast.Attribute):
                base = self.eval(t.value, frame)
                cell = self.path.cell(base)
                name = self.mangle(t.attr, frame)
                if name not in cell.attrs:
                    raise PyRaise(ExcV(AttributeError, (name,)))
                del cell.attrs[name]
            else:
                raise Unsupported("del target")

    def del_slice(self, base, lo, hi):
        if not isinstance(base, Ref) or not isinstance(self.path.cell(base), SeqCell):
            raise Unsupported("del slice of non-list")
        cell = self.path.cell(base)
        seq = cell.seq
        lo2, hi2 = seqops.clamp_slice(seq, lo, hi)
        cell.seq = seqops.remove_range(seq, lo2, hi2)

    def del_item(self, base, idx):
        if isinstance(base, Ref):
            cell = self.path.cell(base)
            if isinstance(cell, DictCell):
                key = self.dict_key(cell, idx)
                if key.__class__.__name__ == "_Missing" or key not in cell.d:
                    raise PyRaise(ExcV(KeyError, (idx,)))
                cell.d = dict(cell.d)
                del cell.d[key]
                return
            if isinstance(cell, MapCell):
                k = self.map_key(cell, idx)
                if not self.path.decide(z3.Select(cell.dom, k)):
                    raise PyRaise(ExcV(KeyError, (idx,)))
                cell.dom = z3.Store(cell.dom, k, z3.BoolVal(False))
                return
            if isinstance(cell, SeqCell) and cell.seq.items is not None and isinstance(idx, int):
                items = list(cell.seq.items)
                try:
                    del items[idx]
                except IndexError:
                    raise PyRaise(ExcV(IndexError, ()))
                cell.seq = SeqV(cell.seq.kind, cell.seq.elem, items=items)
                return
            if isinstance(cell, SeqCell):
                seq = cell.seq
                it = to_term(idx, "int")
                nt = seqops.len_term(seq)
                if not isinstance(idx, int) or idx < 0:
                    if self.path.decide(it < 0):
                        it = it + nt
                if not self.path.decide(z3.And(it >= 0, it < nt)):
                    raise PyRaise(ExcV(IndexError, ()))
                it = z3.simplify(it)
                lo = it.as_long() if z3.is_int_value(it) else it
                cell.seq = seqops.remove_range(seq, lo, (lo + 1) if isinstance(lo, int) else z3.simplify(it + 1))
                return
            if isinstance(cell, ObjCell):
                m = self.find_method(cell.cls, "__delitem__")
                if m:
                    self.call_value(BoundMethod(m[0], base, m[1]), [idx], {})
                    return
        raise Unsupported("del item")

    # ------------------------------------------------------------------ assignment
    def s_Assign(self, node, frame):
        v = self.eval(node.value, frame)
        for t in node.targets:
            self.assign_target(t, v, frame)

    def s_AnnAssign(self, node, frame):
        if node.value is not None:
            self.assign_target(node.target, self.eval(node.value, frame), frame)

    def s_AugAssign(self, node, frame):
        t = node.target
        if isinstance(t, ast.Name):
            cur = self.lookup_name(t.id, frame)
            rhs = self.eval(node.value, frame)
            frame.locals[t.id] = self.aug(type(node.op), cur, rhs)
        elif isinstance(t, ast.Attribute):
            base = self.eval(t.value, frame)
            name = self.mangle(t.attr, frame)
            cur = self.get_attr(base, name)
            rhs = self.eval(node.value, frame)
            self.set_attr(base, name, self.aug(type(node.op), cur, rhs))
        elif isinstance(t, ast.Subscript):
            base = self.eval(t.value, frame)
            idx = self.eval(t.slice, frame)
            cur = self.get_item(base, idx)
            rhs = self.eval(node.value, frame)
            self.set_item(base, idx, self.aug(type(node.op), cur, rhs))
        else:
            raise Unsupported("augmented assignment target")

    def aug(self, op, cur, rhs):
        # in-place extension of mutable sequences keeps identity
        if op is ast.Add and isinstance(cur, Ref) and isinstance(self.path.cell(cur), SeqCell):
            cell = self.path.cell(cur)
            other = self.as_seq(rhs)
            if other is None:
                if isinstance(rhs, (RangeV,)):
                    raise Unsupported("+= range")
                raise PyRaise(ExcV(TypeError, ("not iterable",)))
            cell.seq = seqops.concat(cell.seq, other, cell.seq.kind)
            return cur
        return self.binop(op, cur, rhs)

    def assign_target(self, t, v, frame):
        if isinstance(t, ast.Name):
            frame.locals[t.id] = v
        elif isinstance(t, ast.Attribute):
            base = self.eval(t.value, frame)
            self.set_attr(base, self.mangle(t.attr, frame), v)
        elif isinstance(t, ast.Subscript):
            base = self.eval(t.value, frame)
            if isinstance(t.slice, ast.Slice):
                raise Unsupported("slice assignment")
            self.set_item(base, self.eval(t.slice, frame), v)
        elif isinstance(t, (ast.Tuple, ast.List)):
            items = self.iter_concrete(v)
            if any(isinstance(e, ast.Starred) for e in t.elts):
                raise Unsupported("starred unpacking")
            if len(items) != len(t.elts):
                raise PyRaise(ExcV(ValueError, ("unpack",)))
            for e, x in zip(t.elts, items):
                self.assign_target(e, x, frame)
        else:
            raise Unsupported("assignment target")

    def set_item(self, base, idx, v):
        if isinstance(base, Ref):
            cell = self.path.cell(base)
            if isinstance(cell, DictCell):
                idx = self.unwrap_key(idx)
                key = self.dict_key(cell, idx)
                if key is not None and key.__class__.__name__ == "_Missing":
                    from .values import SymKey
                    if isinstance(idx, Sym):
                        key = SymKey(idx)          # a new entry under a symbolic key (it differs from every stored key on this path)
                    else:
                        key = self.hashable_key(idx)
                cell.d = dict(cell.d)
                cell.d[key] = v
                return
            if isinstance(cell, MapCell):
                k = self.map_key(cell, idx)
                cell.dom = z3.Store(cell.dom, k, z3.BoolVal(True))
                cell.val = z3.Store(cell.val, k, self.map_store_value(cell, v))
                return
            if isinstance(cell, SeqCell):
                seq = cell.seq
                n = seqops.length(seq)
                if isinstance(idx, int) and seq.items is not None:
                    if idx < -n or idx >= n:
                        raise PyRaise(ExcV(IndexError, ()))
                    items = list(seq.items)
                    items[idx] = v
                    cell.seq = SeqV(seq.kind, seqops.elem_kind_of_items(items), items=items)
                    return
                it = to_term(idx, "int")
                nt = seqops.len_term(seq)
                if self.path.decide(it < 0):
                    it = it + nt
                if not self.path.decide(z3.And(it >= 0, it < nt)):
                    raise PyRaise(ExcV(IndexError, ()))
                cell.seq = seqops.store(seq, it, v)
                return
            if isinstance(cell, ObjCell):
                m = self.find_method(cell.cls, "__setitem__")
                if m:
                    self.call_value(BoundMethod(m[0], base, m[1]), [idx, v], {})
                    return
        raise Unsupported(f"item assignment on {base!r}")

    # ------------------------------------------------------------------ control flow
    def s_If(self, node, frame):
        if self.branch(self.eval(node.test, frame)):
            self.exec_block(node.body, frame)
        else:
            self.exec_block(node.orelse, frame)

    def s_Raise(self, node, frame):
        if node.exc is None:
            if self.current_exc:
                raise PyRaise(self.current_exc[-1])
            raise PyRaise(ExcV(RuntimeError, ("No active exception",)))
        v = self.eval(node.exc, frame)
        if isinstance(v, type) and issubclass(v, BaseException):
            v = ExcV(v, ())
        if isinstance(v, Ref) and isinstance(self.path.cell(v), ObjCell) and issubclass(self.path.cell(v).cls, BaseException):
            v = ExcV(self.path.cell(v).cls, ())
        if not isinstance(v, ExcV):
            raise Unsupported(f"raise of {v!r}")
        raise PyRaise(v)

    def s_Try(self, node, frame):
        try:
            try:
                self.exec_block(node.body, frame)
            except PyRaise as pr:
                exc = pr.exc
                for h in node.handlers:
                    if self.handler_matches(h, exc, frame):
                        if h.name:
                            frame.locals[h.name] = exc
                        self.current_exc.append(exc)
                        try:
                            self.exec_block(h.body, frame)
                        finally:
                            self.current_exc.pop()
                        break
                else:
                    raise
            else:
                self.exec_block(node.orelse, frame)
        finally:
            # NOTE: control-flow exceptions of the engine (PathEnd, Infeasible, Unsupported) also pass here;
            # running the finalbody for them would be wrong, so only do it for Python-level outcomes.
            import sys

            et = sys.exc_info()[0]
            if et is None or issubclass(et, (PyRaise, _Return, _Break, _Continue)):
                self.exec_block(node.finalbody, frame)

    def handler_matches(self, h, exc, frame):
        if h.type is None:
            return True
        t = self.eval(h.type, frame)
        classes = self.iter_concrete(t) if isinstance(t, SeqV) else [t]
        return any(isinstance(c, type) and issubclass(exc.cls, c) for c in classes)

    def s_With(self, node, frame):
        for item in node.items:
            ctx = self.eval(item.context_expr, frame)
            self.enter_context(ctx, item, frame)
        try:
            self.exec_block(node.body, frame)
        finally:
            import sys

            et = sys.exc_info()[0]
            if et is None or issubclass(et, (PyRaise, _Return, _Break, _Continue)):
                for item in reversed(node.items):
                    self.exit_context(item, frame)

    def enter_context(self, ctx, item, frame):
        held = self.path.ghost.setdefault("locks_held", [])
        held.append(ast.unparse(item.context_expr))
        if item.optional_vars is not None:
            self.assign_target(item.optional_vars, ctx, frame)

    def exit_context(self, item, frame):
        self.path.ghost["locks_held"].pop()

    def s_FunctionDef(self, node, frame):
        frame.locals[node.name] = Closure(node, frame, frame.defcls, node.name)

    def s_ClassDef(self, node, frame):
        raise Unsupported("nested class definition")

    # ------------------------------------------------------------------ loops
    def s_While(self, node, frame):
        inv = self.loop_contract(node, frame)
        if inv is not None:
            return self.loop_with_invariant(node, frame, inv, None)
        n = 0
        while True:
            if not self.branch(self.eval(node.test, frame)):
                self.exec_block(node.orelse, frame)
                return
            n += 1
            if n > UNROLL_LIMIT:
                raise Unsupported(f"while loop at line {node.lineno} needs an invariant (unrolled {UNROLL_LIMIT}x)")
            try:
                self.exec_block(node.body, frame)
            except _Break:
                return
            except _Continue:
                continue

    def s_For(self, node, frame):
        it = self.eval(node.iter, frame)
        inv = self.loop_contract(node, frame)
        if inv is not None:
            seq0 = self.as_seq(it) if not isinstance(it, (RangeV, EnumerateV)) else None
            if seq0 is not None and seq0.peel is not None:
                # concrete-shape prefix ++ symbolic tail: run the prefix iterations concretely, the invariant
                # (whose index `i` then counts tail elements) governs the tail
                prefix, tail = seq0.peel
                for x in prefix:
                    self.assign_target(node.target, seqops._as_elem(seq0, x), frame)
                    try:
                        self.exec_block(node.body, frame)
                    except _Break:
                        return
                    except _Continue:
                        continue
                it = tail
            return self.loop_with_invariant(node, frame, inv, it)
        items = self.try_iter_concrete(it)
        if items is not None:
            for x in items:
                self.assign_target(node.target, x, frame)
                try:
                    self.exec_block(node.body, frame)
                except _Break:
                    return
                except _Continue:
                    continue
            self.exec_block(node.orelse, frame)
            return
        # symbolic trip count without invariant: unroll under feasibility pruning (unwinding obligation)
        getter, count = self.indexer(it)
        j = 0
        while True:
            c = count > j if not isinstance(count, int) else count > j
            if not self.path.decide(c if isinstance(c, bool) else z3.simplify(c)):
                self.exec_block(node.orelse, frame)
                return
            if j >= UNROLL_LIMIT:
                raise Unsupported(f"for loop at line {node.lineno} needs an invariant (unrolled {UNROLL_LIMIT}x)")
            self.assign_target(node.target, getter(j), frame)
            j += 1
            try:
                self.exec_block(node.body, frame)
            except _Break:
                return
            except _Continue:
                continue

    def indexer(self, it):
        """(getter(index) -> element value, count) for symbolic-length iterables."""
        if isinstance(it, RangeV):
            if it.step != 1:
                if isinstance(it.step, int) and it.step > 0:
                    lo, hi = to_term(it.lo, "int"), to_term(it.hi, "int")
                    st = it.step
                    cnt = z3.If(hi > lo, (hi - lo + (st - 1)) / st, 0)
                    return (lambda j: mk("int", lo + to_term(j, "int") * st)), z3.simplify(cnt)
                raise Unsupported("range step")
            lo, hi = to_term(it.lo, "int"), to_term(it.hi, "int")
            cnt = z3.simplify(z3.If(hi > lo, hi - lo, 0))
            return (lambda j: mk("int", lo + to_term(j, "int"))), cnt
        if isinstance(it, EnumerateV):
            g, c = self.indexer(it.it)
            return (lambda j: SeqV("tuple", None, items=[self.binop(ast.Add, j, it.start), g(j)])), c
        if isinstance(it, Ref) and isinstance(self.path.cell(it), RegionListCell):
            # the list of all objects of a heap region, in key order
            region = self.path.cell(it).region
            return (lambda j: MapElem(region, z3.simplify(to_term(j, "int")))), self.path.cell(region).n
        if isinstance(it, Ref) and isinstance(self.path.cell(it), ElemListCell):
            ec = self.path.cell(it)
            return (lambda j: MapElem(ec.region, z3.simplify(to_term(seqops.select(seqops.symbolic(ec.keys), to_term(j, "int")), "int")))), seqops.length(ec.keys)
        seq = self.as_seq(it)
        if seq is not None:
            if seq.items is not None:
                def getter(j, seq=seq):
                    if isinstance(j, int):
                        return seqops._as_elem(seq, seq.items[j])
                    return seqops._as_elem(seq, seqops.select(seq, to_term(j, "int")))
                return getter, len(seq.items)
            return (lambda j: seqops._as_elem(seq, seqops.select(seq, to_term(j, "int")))), seq.length
        if isinstance(it, Ref) and isinstance(self.path.cell(it), ObjCell):
            raise Unsupported("iteration over object")
        raise Unsupported(f"iteration over {it!r}")

    def try_iter_concrete(self, it):
        if isinstance(it, RangeV):
            if all(isinstance(x, int) for x in (it.lo, it.hi, it.step)):
                return list(range(it.lo, it.hi, it.step))
            return None
        if isinstance(it, EnumerateV):
            inner = self.try_iter_concrete(it.it)
            if inner is None or not isinstance(it.start, int):
                return None
            return [SeqV("tuple", None, items=[i + it.start, x]) for i, x in enumerate(inner)]
        if isinstance(it, Ref):
            cell = self.path.cell(it)
            if isinstance(cell, DictCell):
                return [k.sym if k.__class__.__name__ == "SymKey" else k for k in cell.d.keys()]
            if isinstance(cell, ObjCell):
                m = self.find_method(cell.cls, "__iter__")
                if m is None:
                    raise PyRaise(ExcV(TypeError, ("not iterable",)))
                iterator = self.call_value(BoundMethod(m[0], it, m[1]), [], {})
                return self.drain_iterator(iterator)
        seq = self.as_seq(it)
        if seq is not None:
            if seq.items is not None:
                return [seqops._as_elem(seq, x) for x in seq.items]
            return None
        if isinstance(it, (Sym, Opaque)):
            raise PyRaise(ExcV(TypeError, ("not iterable",)))
        if isinstance(it, _ItemsView):
            return it.items
        try:
            return [self.lift(x) for x in it]
        except TypeError:
            raise PyRaise(ExcV(TypeError, ("not iterable",)))

    def drain_iterator(self, iterator):
        if isinstance(iterator, Ref) and isinstance(self.path.cell(iterator), ObjCell):
            m = self.find_method(self.path.cell(iterator).cls, "__next__")
            out = []
            while True:
                try:
                    out.append(self.call_value(BoundMethod(m[0], iterator, m[1]), [], {}))
                except PyRaise as pr:
                    if issubclass(pr.exc.cls, StopIteration):
                        return out
                    raise
                if len(out) > 10000:
                    raise Unsupported("iterator too long")
        return self.try_iter_concrete(iterator)

    def iter_concrete(self, it):
        items = self.try_iter_concrete(it)
        if items is None:
            raise Unsupported("iteration with symbolic length where a concrete shape is needed")
        return items

    # ---- invariants
    def loop_contract(self, node, frame):
        """Invariant function registered for this loop (by ordinal within the function under verification)."""
        lc = getattr(frame, "loop_contracts", None)
        if not lc:
            return None
        return lc.get(frame.loop_ordinals.get(id(node)))

    def loop_with_invariant(self, node, frame, inv, it):
        """Hoare rule for loops. `inv` is a LoopSpec(invariant=callable, decreases=callable|None)."""
        path = self.path
        is_for = isinstance(node, ast.For)
        label = f"{getattr(self, 'unit_label', '')}/{frame.info.qualname if frame.info else ''}.loop{frame.loop_ordinals[id(node)]}"
        if is_for:
            getter, count = self.indexer(it)
            count_t = to_term(count, "int")
        # 1. initiation
        idx0 = 0
        self.check_invariant(inv, frame, idx0 if is_for else None, label + "/init", it)
        # 2. havoc everything the body may write
        names, attrs, mutated = assigned_names(node.body + ([node.target] if is_for else []))
        attrs = set(attrs) | set(inv.modifies)
        self.havoc(frame, names, attrs, mutated, inv)
        if is_for:
            j = z3.Int(path.fresh_name("j"))
            path.assume(z3.And(j >= 0, j <= count_t))
            jv = mk("int", j)
        else:
            jv = None
        self.assume_invariant(inv, frame, jv, it)
        # 3. one arbitrary iteration, or exit
        if is_for:
            cont = path.decide(j < count_t)
        else:
            cont = self.branch(self.eval(node.test, frame))
        if cont:
            variant0 = self.eval_variant(inv, frame, jv, it)
            if is_for:
                self.assign_target(node.target, getter(jv), frame)
            broke = False
            try:
                self.exec_block(node.body, frame)
            except _Break:
                broke = True
            except _Continue:
                pass
            if broke:
                return  # continue after the loop with the current (arbitrary-iteration) state
            nxt = mk("int", j + 1) if is_for else None
            self.check_invariant(inv, frame, nxt, label + "/preserve", it)
            if variant0 is not None:
                v1 = self.eval_variant(inv, frame, nxt, it)
                path.oblige(label + "/decreases", z3.And(to_term(variant0, "int") >= 0, to_term(v1, "int") < to_term(variant0, "int")))
            raise PathEnd()
        self.exec_block(node.orelse, frame)

    def _inv_args(self, fn, frame, idx, it):
        import inspect

        params = list(inspect.signature(fn).parameters)
        args = []
        for p in params:
            if p == "i":
                args.append(idx)
            elif p == "it":
                args.append(it)
            elif p == "old":
                args.append(frame.old_ns)
            elif p == "case":
                args.append(self.lift(getattr(self, "case", None)))
            elif p in frame.locals:
                args.append(frame.locals[p])
            else:
                raise Unsupported(f"invariant mentions unknown local '{p}'")
        return args

    def check_invariant(self, inv, frame, idx, name, it):
        for cname, fn in inv.clauses:
            v = self.spec_call(fn, self._inv_args(fn, frame, idx, it))
            t = self.truthy(v)
            t = t if not isinstance(t, bool) else z3.BoolVal(t)
            parts = _split_and(t)
            for k, part in enumerate(parts):
                self.path.oblige(f"{name}.{cname}" + (f".{k}" if len(parts) > 1 else ""), part, assume_after=False)
            self.path.assume(t)

    def assume_invariant(self, inv, frame, idx, it):
        for cname, fn in inv.clauses:
            v = self.spec_call(fn, self._inv_args(fn, frame, idx, it))
            self.path.assume(self.truthy(v))

    def eval_variant(self, inv, frame, idx, it):
        if inv.decreases is None:
            return None
        return self.spec_call(inv.decreases, self._inv_args(inv.decreases, frame, idx, it))

    def havoc(self, frame, names, attrs, mutated, inv):
        """Replace everything the loop body may write by fresh values of the same shape."""
        path = self.path
        for n in sorted(names):
            if n in frame.locals:
                frame.locals[n] = self.fresh_typed(inv, n) if n in inv.types else self.fresh_like(frame.locals[n], n)
        for expr in sorted(mutated):
            try:
                v = self.eval(ast.parse(expr, mode="eval").body, frame)
            except PyRaise:
                continue
            if isinstance(v, Ref):
                cell = path.cell(v)
                if expr in inv.types and isinstance(inv.types[expr], ElemList):
                    nv = self.fresh_typed(inv, expr)
                    path.heap[v.addr] = path.cell(nv)       # from here on: a list of region objects of any length
                    continue
                if isinstance(cell, ElemListCell):
                    cell.keys = self.fresh_like(cell.keys, expr)
                    continue
                if isinstance(cell, SeqCell):
                    if expr in inv.types:
                        nv = self.fresh_typed(inv, expr)
                        cell.seq = path.cell(nv).seq if isinstance(nv, Ref) else nv
                    else:
                        cell.seq = self.fresh_like(cell.seq, expr)
                elif isinstance(cell, MapCell):
                    cell.dom = z3.Array(path.fresh_name(expr + ".dom"), cell.dom.sort().domain(), z3.BoolSort())
                    cell.val = z3.Array(path.fresh_name(expr + ".val"), cell.val.sort().domain(), cell.val.sort().range())
                elif isinstance(cell, DictCell):
                    raise Unsupported("havoc of concrete dict mutated in loop")
                elif isinstance(cell, ObjCell):
                    raise Unsupported("havoc of object mutated in loop")
        for expr in sorted(attrs):
            if expr.startswith("alloc:"):
                # the loop body may create objects of this region
                rname = expr[len("alloc:"):]
                t = z3.Int(path.fresh_name(f"hv.alloc.{rname}"))
                path.assume(t >= 0)
                path.ghost.setdefault("alloc", {})[rname] = t
                continue
            if expr.startswith("region:"):
                # "region:<name>.<field>": the loop body may change this field of ANY object of the region
                rname, fname = expr[len("region:"):].split(".")
                rref = path.ghost.get("regions_by_name", {}).get(rname)
                if rref is None:
                    continue
                rcell = path.cell(rref)
                kind, arr = rcell.fields[fname]
                rcell.fields = dict(rcell.fields)
                rcell.fields[fname] = (kind, z3.Array(path.fresh_name(f"hv.{rname}.{fname}"), z3.IntSort(), arr.sort().range()))
                continue
            node = ast.parse(expr, mode="eval").body
            base = self.eval(node.value, frame)
            name = self.mangle(node.attr, frame)
            try:
                cur = self.get_attr(base, name)
            except PyRaise:
                continue
            self.set_attr(base, name, self.fresh_typed(inv, expr) if expr in inv.types else self.fresh_like(cur, expr))

    def fresh_typed(self, inv, name):
        from .verify import make_symbolic
        n = self.path.fresh_name("hv")
        saved = dict(self.path.ex.inputs)
        v = make_symbolic(self, inv.types[name], f"{name}~{n}")
        self.path.ex.inputs.clear()
        self.path.ex.inputs.update(saved)
        return v

    def fresh_like(self, v, hint):
        path = self.path
        if isinstance(v, bool) or (isinstance(v, Sym) and v.kind == "bool"):
            return Sym("bool", z3.Bool(path.fresh_name(hint)))
        if isinstance(v, int) or (isinstance(v, Sym) and v.kind == "int"):
            return Sym("int", z3.Int(path.fresh_name(hint)))
        if isinstance(v, float) or (isinstance(v, Sym) and v.kind == "float"):
            return Sym("float", z3.FP(path.fresh_name(hint), sort_of("float")))
        if isinstance(v, (bytes, str)):
            v = seqops.from_py(v)
        if isinstance(v, SeqV):
            ek = v.elem or (seqops.elem_kind_of_items(v.items) if v.items is not None else None) or "int"
            return seqops.fresh(path, v.kind, ek, hint, register=False)
        if isinstance(v, Ref):
            cell = path.cell(v)
            if isinstance(cell, SeqCell):
                return path.alloc(SeqCell(self.fresh_like(cell.seq, hint)))
            raise Unsupported(f"havoc of reference-valued local '{hint}'")
        if v is None:
            raise Unsupported(f"havoc of None-valued local '{hint}' (type unknown)")
        raise Unsupported(f"havoc of {v!r}")


def _split_and(t):
    if z3.is_and(t):
        out = []
        for c in t.children():
            out.extend(_split_and(c))
        return out
    return [t]


class _ItemsView:
    def __init__(self, items):
        self.items = items
