"""Attribute access, calls (inlining / contracts / models), object creation, lifting of live Python objects."""
from __future__ import annotations

import ast
import builtins
import enum
import inspect
import struct as _struct
import types

import z3

from . import extract, seqops
from .core import Infeasible, PyRaise
from .interp_stmt import _Return, _ItemsView
from .values import (BoundMethod, Closure, DictCell, ElemListCell, EnumerateV, ExcV, F32, F64, MapCell, MapElem, ObjCell, OldView, Opaque,
                     RNE, RangeV, Ref, SeqCell, SeqV, SuperV, Sym, Unsupported, fpval, is_scalar, kind_of, mk, sort_of,
                     to_term)

MAX_DEPTH = 40


class Frame:
    def __init__(self, globals_, defcls=None, parent=None, info=None):
        self.locals = {}
        self.globals = globals_
        self.defcls = defcls
        self.parent = parent
        self.info = info
        self.loop_contracts = None
        self.loop_ordinals = {}
        self.old_ns = None


def number_comprehensions(fnode):
    """Ordinal (1-based, source order) for every list comprehension directly in the function."""
    out = {}
    n = 0

    def visit(node):
        nonlocal n
        for child in ast.iter_child_nodes(node):
            if isinstance(child, (ast.FunctionDef, ast.Lambda, ast.ClassDef)):
                continue
            if isinstance(child, ast.ListComp):
                n += 1
                out[id(child)] = n
            visit(child)

    visit(fnode)
    return out


def number_loops(fnode):
    """Loop ordinal (1-based, source order) for every For/While directly in the function (not nested defs)."""
    out = {}
    n = 0
    stack = list(reversed(fnode.body))
    order = []

    def visit(node):
        nonlocal n
        for child in ast.iter_child_nodes(node):
            if isinstance(child, (ast.FunctionDef, ast.Lambda, ast.ClassDef)):
                continue
            if isinstance(child, (ast.For, ast.While)):
                n += 1
                out[id(child)] = n
            visit(child)

    visit(fnode)
    return out


STRUCT_CODES = {  # code -> (size, signed, kind)
    "B": (1, False, "int"), "b": (1, True, "int"), "H": (2, False, "int"), "h": (2, True, "int"),
    "L": (4, False, "int"), "l": (4, True, "int"), "I": (4, False, "int"), "i": (4, True, "int"),
    "Q": (8, False, "int"), "q": (8, True, "int"), "f": (4, None, "float"), "d": (8, None, "float"),
    "?": (1, None, "bool"),
}


def parse_struct_format(fmt):
    """'>HBB10s5sH' -> [('H',1), ..., ('s',10)]; only big-endian standard sizes.  FmtStr: counts may be symbolic."""
    from .values import FmtStr, Sym

    parts = fmt.parts if isinstance(fmt, FmtStr) else [fmt]
    first = parts[0] if parts and isinstance(parts[0], str) else ""
    if not first or first[0] not in ">!":
        raise Unsupported(f"struct format without big-endian prefix: {fmt!r}")
    out = []
    num = None  # pending count: str digits or Sym
    skip_first = True
    for part in parts:
        if isinstance(part, Sym):
            if num not in (None, ""):
                raise Unsupported("struct format: digits followed by symbolic count")
            num = part
            continue
        text = part[1:] if skip_first else part
        skip_first = False
        for ch in text:
            if ch.isdigit():
                if isinstance(num, Sym):
                    raise Unsupported("struct format: symbolic count followed by digits")
                num = (num or "") + ch
                continue
            if ch == " ":
                continue
            cnt = num if isinstance(num, Sym) else (int(num) if num else 1)
            num = None
            if ch == "s":
                out.append(("s", cnt))
            elif ch in STRUCT_CODES:
                if isinstance(cnt, Sym):
                    raise Unsupported("symbolic repeat count of a numeric struct code")
                out.extend([(ch, 1)] * cnt)
            else:
                raise Unsupported(f"struct code {ch!r}")
    return out


class CallMixin:
    # ------------------------------------------------------------------ lifting
    def lift(self, v):
        """Bring a live Python object into value space."""
        if isinstance(v, (Sym, SeqV, Ref, Opaque, ExcV, BoundMethod, Closure, RangeV, EnumerateV, SuperV, OldView)):
            return v
        if v is None or isinstance(v, (bool, int, float, str, bytes, type, types.FunctionType, types.BuiltinFunctionType,
                                       types.ModuleType, types.MethodType, enum.Enum)):
            return v
        key = id(v)
        if key in self.lifted:
            return self.lifted[key][1]
        if isinstance(v, list):
            items = [self.lift(x) for x in v]
            r = self.path.alloc(SeqCell(SeqV("list", seqops.elem_kind_of_items(items) if items else None, items=items)))
        elif isinstance(v, tuple):
            r = SeqV("tuple", None, items=[self.lift(x) for x in v])
        elif isinstance(v, bytearray):
            r = self.path.alloc(SeqCell(seqops.from_py(v)))
        elif isinstance(v, dict):
            r = self.path.alloc(DictCell({k: self.lift(x) for k, x in v.items()}))
        else:
            return v  # opaque concrete Python object (logger, settings, codec tables ...)
        self.lifted[key] = (v, r)
        return r

    # ------------------------------------------------------------------ attribute access
    def find_method(self, cls, name):
        """(function-or-descriptor, defining class) following the MRO of a live class."""
        for c in cls.__mro__:
            if name in c.__dict__:
                return c.__dict__[name], c
        return None

    def get_attr(self, base, name):
        if isinstance(base, MapElem):
            cell = self.old_heap[base.map_ref.addr] if base.old else self.path.cell(base.map_ref)
            if name in cell.fields:
                kind, arr = cell.fields[name]
                if kind == "facade":
                    fcls, back = arr
                    return self.path.alloc(ObjCell(fcls, {back: base}))
                if kind == "opaque":
                    return Opaque(arr, f"{cell.rname}.{name}")
                if kind.startswith("seq:"):
                    return SeqV(kind[4:], "int", arr=z3.Select(arr[0], base.key), length=z3.Select(arr[1], base.key))
                t = z3.Select(arr, base.key)
                if kind == "link":
                    t = z3.simplify(t)
                    if getattr(self, "spec_depth", 0) > 0 or getattr(self, "pure_depth", 0) > 0:
                        return MapElem(base.map_ref, t, old=base.old)      # specification context: key -1 stands for None
                    if self.path.decide(t == -1):
                        return None
                    return MapElem(base.map_ref, t, old=base.old)
                flag = getattr(cell, "optional", {}).get(name)
                if flag is not None and getattr(self, "spec_depth", 0) == 0 and getattr(self, "pure_depth", 0) == 0:
                    if not self.path.decide(z3.Select(cell.fields[flag][1], base.key)):
                        return None       # the code sees None; contracts read value and flag as two fields
                return Sym(kind, t)
            if name == "__class__":
                return cell.refcls
            m = self.find_method(cell.refcls, name)
            if m is None:
                if getattr(self, "spec_depth", 0) == 0 and getattr(self, "pure_depth", 0) == 0:
                    # as for partial input objects (B15): a field the contract's shape does not describe is outside the
                    # contract's reach, not an AttributeError of the program
                    raise Unsupported(f"the code reads the instance field '{name}' of {cell.refcls.__name__}, which the contract's region shape does not describe")
                raise PyRaise(ExcV(AttributeError, (name,)))
            return self._bind(m[0], m[1], base, cell.refcls)
        if isinstance(base, OldView):
            cell = self.old_heap[base.ref.addr]
            if isinstance(cell, (MapCell, DictCell)):
                return BoundMethod(("dict", name), base)
            return self._wrap_old(self._obj_attr(base.ref, cell, name, old=True))
        if isinstance(base, Ref):
            cell = self.path.cell(base)
            if isinstance(cell, ObjCell):
                return self._obj_attr(base, cell, name)
            if isinstance(cell, SeqCell):
                return BoundMethod(("seq", name), base)
            if isinstance(cell, ElemListCell):
                return BoundMethod(("elist", name), base)
            if isinstance(cell, (DictCell, MapCell)):
                return BoundMethod(("dict", name), base)
        if isinstance(base, SeqV):
            return BoundMethod(("seq", name), base)
        if isinstance(base, (bytes, str)) and name in ("decode", "encode", "upper", "lower", "strip", "join", "startswith",
                                                        "endswith", "split", "format", "replace", "hex", "isdigit", "find",
                                                        "rstrip", "lstrip", "count", "index", "zfill", "ljust", "rjust"):
            return BoundMethod(("str", name), base)
        if isinstance(base, SuperV):
            mro = type(None).__mro__
            cell = self.path.cell(base.self_val) if isinstance(base.self_val, Ref) else None
            cls = cell.cls if cell is not None else base.self_val
            mro = cls.__mro__
            start = mro.index(base.cls) + 1
            for c in mro[start:]:
                if name in c.__dict__:
                    return self._bind(c.__dict__[name], c, base.self_val, cls)
            raise PyRaise(ExcV(AttributeError, (name,)))
        if isinstance(base, ExcV):
            if name == "args":
                return SeqV("tuple", None, items=list(base.args))
            if name in base.attrs:
                return base.attrs[name]
            if name == "errno":
                return base.attrs.get("errno", base.args[0] if base.args else None)
            raise Unsupported(f"exception attribute {name}")
        if isinstance(base, Sym):
            if base.kind == "int" and name == "to_bytes":
                return BoundMethod(("int", name), base)
            raise Unsupported(f"attribute {name} of symbolic scalar")
        if isinstance(base, Opaque):
            raise Unsupported(f"attribute {name} of opaque value")
        if isinstance(base, (BoundMethod, Closure)):
            raise Unsupported(f"attribute {name} of function value")
        if isinstance(base, type):
            m = self.find_method(base, name)
            if m is not None:
                return self._bind(m[0], m[1], None, base)
            try:
                return self.lift(getattr(base, name))
            except AttributeError:
                raise PyRaise(ExcV(AttributeError, (name,)))
        try:
            return self.lift(getattr(base, name))
        except AttributeError:
            raise PyRaise(ExcV(AttributeError, (name,)))

    def _wrap_old(self, v):
        if isinstance(v, MapElem):
            return MapElem(v.map_ref, v.key, old=True)
        return OldView(v) if isinstance(v, Ref) else v

    def _obj_attr(self, ref, cell, name, old=False):
        if name in cell.attrs:
            return cell.attrs[name]
        if name == "__class__":
            return cell.cls
        if name == "__dict__":
            raise Unsupported("__dict__ access")
        m = self.find_method(cell.cls, name)
        if m is None:
            ga = self.find_method(cell.cls, "__getattr__")
            if ga is not None:
                return self.call_value(BoundMethod(ga[0], ref, ga[1]), [name], {})
            if getattr(cell, "partial", False) and getattr(self, "spec_depth", 0) == 0 and getattr(self, "pure_depth", 0) == 0:
                raise Unsupported(f"the code reads the instance field '{name}' of {cell.cls.__name__}, which the contract's input shape does not describe")
            raise PyRaise(ExcV(AttributeError, (name,)))
        return self._bind(m[0], m[1], OldView(ref) if old else ref, cell.cls)

    def _bind(self, attr, defcls, self_val, cls):
        if isinstance(attr, property) and type(attr) is not property:
            getter = type(attr).__dict__.get("__get__")
            if isinstance(getter, types.FunctionType) and extract.info_for_function(getter) is not None:
                return self.call_function(getter, [attr, self_val, cls], {}, type(attr))
        if isinstance(attr, property):
            if self_val is None:
                return attr
            return self.call_function(attr.fget, [self_val], {}, defcls)
        if isinstance(attr, classmethod):
            return BoundMethod(attr.__func__, cls, defcls)
        if isinstance(attr, staticmethod):
            return BoundMethod(attr.__func__, None, defcls)
        if isinstance(attr, types.FunctionType):
            if self_val is None:
                return BoundMethod(attr, None, defcls)
            return BoundMethod(attr, self_val, defcls)
        if hasattr(attr, "__get__") and not isinstance(attr, (type,)) and type(attr).__name__ in (
                "wrapper_descriptor", "method_descriptor", "builtin_function_or_method"):
            return BoundMethod(("native", attr), self_val, defcls)
        return self.lift(attr)

    def set_attr(self, base, name, v):
        if isinstance(base, MapElem):
            if base.old:
                raise Unsupported("assignment to the pre-state")
            cell = self.path.cell(base.map_ref)
            if name not in cell.fields:
                raise Unsupported(f"new attribute {name} on an object of a symbolic map")
            kind, arr = cell.fields[name]
            if kind in ("facade", "opaque") or kind.startswith("seq:"):
                raise Unsupported(f"assignment to the field {name} of a region object")
            cell.fields = dict(cell.fields)
            if kind == "link":
                if v is None:
                    t = z3.IntVal(-1)
                elif isinstance(v, MapElem) and v.map_ref.addr == base.map_ref.addr:
                    t = v.key
                else:
                    raise Unsupported("a link field can only hold None or an object of the same region")
                cell.fields[name] = (kind, z3.Store(arr, base.key, t))
                return
            cell.fields[name] = (kind, z3.Store(arr, base.key, to_term(v, kind)))
            return
        if isinstance(base, Ref):
            cell = self.path.cell(base)
            if isinstance(cell, ObjCell):
                m = self.find_method(cell.cls, name)
                if m is not None and isinstance(m[0], property):
                    if m[0].fset is None:
                        raise PyRaise(ExcV(AttributeError, (name,)))
                    self.call_function(m[0].fset, [base, v], {}, m[1])
                    return
                fr = self.frame_rule
                if fr is not None:
                    fr(base, name, v)
                cell.attrs[name] = v
                return
        if isinstance(base, ExcV):
            base.attrs[name] = v
            return
        raise Unsupported(f"attribute assignment on {base!r}")

    # ------------------------------------------------------------------ calls
    def e_Call(self, node, frame):
        if isinstance(node.func, ast.Name) and node.func.id == "super" and not node.args:
            return SuperV(frame.defcls, frame.locals.get(frame.self_name) if getattr(frame, "self_name", None) else None)
        fn = self.eval(node.func, frame)
        args = []
        for a in node.args:
            if isinstance(a, ast.Starred):
                args.extend(self.iter_concrete(self.eval(a.value, frame)))
            else:
                if isinstance(a, ast.GeneratorExp):
                    args.append(_Gen(a, frame))
                else:
                    args.append(self.eval(a, frame))
        kwargs = {}
        for k in node.keywords:
            if k.arg is None:
                d = self.eval(k.value, frame)
                cell = self.path.cell(d) if isinstance(d, Ref) else None
                if not isinstance(cell, DictCell):
                    raise Unsupported("** of non-dict")
                kwargs.update(cell.d)
            else:
                kwargs[k.arg] = self.eval(k.value, frame)
        args = [self.force_gen(a, fn) for a in args]
        return self.call_value(fn, args, kwargs)

    def force_gen(self, a, fn):
        if isinstance(a, _Gen):
            if fn in (builtins.all, builtins.any):
                return a
            r = self.comprehension(a.node, a.frame, "list")
            if fn is builtins.next and isinstance(r, Ref):
                self.path.ghost.setdefault("genexp", set()).add(r.addr)    # next(<generator expression>, default): see models.m_next
            return r
        return a

    def call_value(self, fn, args, kwargs):
        self.depth += 1
        try:
            if self.depth > MAX_DEPTH:
                raise Unsupported("call depth exceeded")
            return self._call_value(fn, args, kwargs)
        finally:
            self.depth -= 1

    def _call_value(self, fn, args, kwargs):
        if isinstance(fn, BoundMethod):
            if isinstance(fn.fn, tuple):
                return self.call_model_method(fn.fn, fn.self_val, args, kwargs)
            full = ([fn.self_val] if fn.self_val is not None else []) + list(args)
            return self.call_function(fn.fn, full, kwargs, fn.defcls)
        if isinstance(fn, Closure):
            return self.call_closure(fn, args, kwargs)
        if isinstance(fn, types.MethodType):
            return self.call_function(fn.__func__, [self.lift(fn.__self__)] + list(args), kwargs, None)
        if isinstance(fn, type):
            return self.instantiate(fn, args, kwargs)
        if isinstance(fn, types.FunctionType):
            return self.call_function(fn, args, kwargs, None)
        if fn in self.models:
            return self.models[fn](self, args, kwargs)
        if callable(fn) and not isinstance(fn, (Sym, Ref, SeqV, Opaque)):
            return self.call_native(fn, args, kwargs)
        if isinstance(fn, Ref) and isinstance(self.path.cell(fn), ObjCell):
            m = self.find_method(self.path.cell(fn).cls, "__call__")
            if m is not None:
                return self.call_value(BoundMethod(m[0], fn, m[1]), args, kwargs)
        raise Unsupported(f"call of {fn!r}")

    def call_native(self, fn, args, kwargs):
        """Real call of a non-repository callable on concrete arguments (pure stdlib helpers)."""
        from .values import is_concrete

        def conc(v):
            if isinstance(v, SeqV):
                p = seqops.to_py(v)
                if p is not None:
                    return p
                if v.items is not None and v.kind == "tuple":
                    return tuple(conc(i) for i in v.items)
            if isinstance(v, (Sym, SeqV, Ref, Opaque, Closure, BoundMethod)):
                raise Unsupported(f"native call of {getattr(fn, '__name__', fn)} with symbolic/heap argument")
            return v

        cargs = [conc(a) for a in args]
        ckw = {k: conc(v) for k, v in kwargs.items()}
        mod = getattr(fn, "__module__", None) or ""
        info = extract.info_for_function(fn) if isinstance(fn, types.FunctionType) else None
        try:
            return self.lift(fn(*cargs, **ckw))
        except Exception as exc:  # the native callable raised: surface as Python-level exception
            raise PyRaise(ExcV(type(exc), exc.args))

    def call_function(self, fn, args, kwargs, defcls):
        # contract substitution (modular verification) or model
        if fn in self.models:
            return self.models[fn](self, args, kwargs)
        sub = self.callee_contracts.get(fn)
        if sub is not None:
            return sub(self, fn, args, kwargs, defcls)
        info = extract.info_for_function(fn)
        if info is None:
            return self.call_native(fn, args, kwargs)
        if defcls is None and "." in fn.__qualname__:
            defcls = self._class_of_function(fn)
        frame = Frame(fn.__globals__, defcls, None, info)
        self.bind_params(info.node, fn, frame, args, kwargs)
        self.functions_seen[f"{fn.__module__}:{fn.__qualname__}"] = info
        return self.run_body(info.node, frame)

    def _class_of_function(self, fn):
        mod = inspect.getmodule(fn)
        obj = mod
        for part in fn.__qualname__.split(".")[:-1]:
            if part == "<locals>":
                return None
            obj = getattr(obj, part, None)
            if obj is None:
                return None
        return obj if isinstance(obj, type) else None

    def run_body(self, fnode, frame):
        if any(isinstance(n, (ast.Yield, ast.YieldFrom)) for n in ast.walk(fnode)):
            raise Unsupported("generator function")
        frame.loop_ordinals = number_loops(fnode)
        try:
            self.exec_block(fnode.body, frame)
        except _Return as r:
            return r.value
        return None

    def bind_params(self, fnode, fn, frame, args, kwargs):
        a = fnode.args
        params = [p.arg for p in a.posonlyargs + a.args]
        defaults = list(fn.__defaults__ or ()) if fn is not None else []
        ndef = len(defaults)
        args = list(args)
        if params:
            frame.self_name = params[0]
        for i, p in enumerate(params):
            if i < len(args):
                frame.locals[p] = args[i]
            elif p in kwargs:
                frame.locals[p] = kwargs.pop(p)
            else:
                di = i - (len(params) - ndef)
                if di < 0:
                    raise PyRaise(ExcV(TypeError, (f"missing argument {p}",)))
                frame.locals[p] = self.lift(defaults[di])
        extra = args[len(params):]
        if a.vararg:
            frame.locals[a.vararg.arg] = SeqV("tuple", None, items=extra)
        elif extra:
            raise PyRaise(ExcV(TypeError, ("too many positional arguments",)))
        kwd = (fn.__kwdefaults__ or {}) if fn is not None else {}
        for p in a.kwonlyargs:
            if p.arg in kwargs:
                frame.locals[p.arg] = kwargs.pop(p.arg)
            elif p.arg in kwd:
                frame.locals[p.arg] = self.lift(kwd[p.arg])
            else:
                raise PyRaise(ExcV(TypeError, (f"missing keyword argument {p.arg}",)))
        if a.kwarg:
            frame.locals[a.kwarg.arg] = self.path.alloc(DictCell(dict(kwargs)))
        elif kwargs:
            raise PyRaise(ExcV(TypeError, (f"unexpected keyword arguments {list(kwargs)}",)))

    def call_closure(self, clo, args, kwargs):
        node = clo.node
        frame = Frame(clo.frame.globals, clo.defcls, clo.frame, clo.frame.info)
        frame.old_ns = clo.frame.old_ns
        if getattr(clo.frame, "self_name", None):
            frame.self_name = clo.frame.self_name
        if isinstance(node, ast.Lambda):
            defaults = [self.eval(d, clo.frame) for d in node.args.defaults]
            self._bind_simple(node.args, frame, args, kwargs, defaults)
            return self.eval(node.body, frame)
        defaults = [self.eval(d, clo.frame) for d in node.args.defaults]
        self._bind_simple(node.args, frame, args, kwargs, defaults)
        frame.loop_ordinals = number_loops(node)
        try:
            self.exec_block(node.body, frame)
        except _Return as r:
            return r.value
        return None

    def _bind_simple(self, a, frame, args, kwargs, defaults):
        params = [p.arg for p in a.posonlyargs + a.args]
        for i, p in enumerate(params):
            if i < len(args):
                frame.locals[p] = args[i]
            elif p in kwargs:
                frame.locals[p] = kwargs[p]
            else:
                di = i - (len(params) - len(defaults))
                if di < 0:
                    raise PyRaise(ExcV(TypeError, (f"missing argument {p}",)))
                frame.locals[p] = defaults[di]
        if a.vararg:
            frame.locals[a.vararg.arg] = SeqV("tuple", None, items=list(args[len(params):]))

    def new_frame_like(self, frame):
        f = Frame(frame.globals, frame.defcls, frame, frame.info)
        f.old_ns = frame.old_ns
        if getattr(frame, "self_name", None):
            f.self_name = frame.self_name
        return f

    # ------------------------------------------------------------------ object creation
    def instantiate(self, cls, args, kwargs):
        if cls in self.models:
            return self.models[cls](self, args, kwargs)
        if issubclass(cls, BaseException):
            return ExcV(cls, args)
        if issubclass(cls, enum.Enum):
            return self.enum_lookup(cls, args[0])
        path = getattr(inspect.getmodule(cls), "__file__", None)
        if path is None or not extract.allowed_root(path):
            return self.call_native(cls, args, kwargs)
        new = self.find_method(cls, "__new__")
        if new is not None and new[1] is not object and isinstance(new[0], (staticmethod, types.FunctionType)) and \
                extract.info_for_function(getattr(new[0], "__func__", new[0])) is not None:
            raise Unsupported(f"class {cls.__name__} defines __new__")
        init = self.find_method(cls, "__init__")
        if init is not None:
            sub0 = self.callee_contracts.get(init[0])
            creates = getattr(getattr(sub0, "contract", None), "creates", None) if sub0 is not None else None
            if creates is not None:
                # objects of this class created by the code under contract are the next objects of a heap region; the
                # (assumed) contract of __init__ says what the new object looks like
                from .verify import make_symbolic
                rref = make_symbolic(self, creates, "creates")
                self.path.assume(self.alloc_counter(rref) < self.path.cell(rref).n)     # ghost size: at least what is created
                elem = self.allocate(rref)
                self.call_value(BoundMethod(init[0], elem, init[1]), args, kwargs)
                return elem
        ref = self.path.alloc(ObjCell(cls))
        if init is not None and init[1] is not object:
            self.call_value(BoundMethod(init[0], ref, init[1]), args, kwargs)
        return ref

    def enum_lookup(self, cls, v):
        if isinstance(v, cls):
            return v
        if not isinstance(v, Sym):
            try:
                return cls(v)
            except ValueError as exc:
                raise PyRaise(ExcV(ValueError, exc.args))
        for member in cls:
            if self.path.decide(self.truthy(self.equals(v, member.value))):
                return member
        raise PyRaise(ExcV(ValueError, ("not a valid enum value",)))

    # ------------------------------------------------------------------ comprehensions
    def comprehension(self, node, frame, kind):
        if len(node.generators) != 1:
            # nested generators only with concrete shapes
            return self._comp_nested(node, frame)
        gen = node.generators[0]
        it = self.eval(gen.iter, frame)
        items = self.try_iter_concrete(it)
        sub = self.new_frame_like(frame)
        if items is not None:
            out = []
            for x in items:
                self.assign_target(gen.target, x, sub)
                if all(self.branch(self.eval(c, sub)) for c in gen.ifs):
                    out.append(self.eval(node.elt, sub))
            return self.path.alloc(SeqCell(SeqV("list", seqops.elem_kind_of_items(out) if out else None, items=out)))
        cc = getattr(frame, "comp_contracts", None)
        if cc and not gen.ifs and kind == "list":
            inv = cc.get(getattr(frame, "comp_ordinals", {}).get(id(node)))
            if inv is not None:
                return self.comprehension_with_invariant(node, frame, sub, gen, inv, it)
        if gen.ifs:
            raise Unsupported("filtering comprehension over symbolic-length sequence")
        # map rule: result[i] == elt(it[i]) for all i  (elt must be pure and scalar-valued)
        getter, count = self.indexer(it)
        i = z3.Int("mp!i")
        self.assign_target(gen.target, getter(mk("int", i)), sub)
        val = self.pure(lambda: self.eval(node.elt, sub), assume=z3.And(i >= 0, i < to_term(count, "int")))
        k = kind_of(val)
        if k is None:
            # no closed form for non-scalar elements: unroll by path forking (complete when the count is bounded by the
            # path condition, e.g. a case split of the contract; otherwise the unit is out of reach)
            count_t = to_term(count, "int")
            out = []
            for j in range(41):
                if not self.path.decide(z3.IntVal(j) < count_t):
                    return self.path.alloc(SeqCell(SeqV("list", seqops.elem_kind_of_items(out) if out else None, items=out)))
                self.assign_target(gen.target, getter(j), sub)
                out.append(self.eval(node.elt, sub))
            raise Unsupported("comprehension over symbolic-length sequence with non-scalar element (more than 40 elements possible)")
        arr = z3.Lambda([i], to_term(val, k))
        return self.path.alloc(SeqCell(SeqV("list", k, arr=arr, length=count)))

    def comprehension_with_invariant(self, node, frame, sub, gen, inv, it):
        """[elt for x in it] whose element expression has effects (a call-out that consumes input, creates objects ...) and
        whose length is symbolic: the Hoare rule for loops with the list built so far as the local `acc`."""
        from .core import PathEnd
        path = self.path
        label = f"{getattr(self, 'unit_label', '')}/{frame.info.qualname if frame.info else ''}.comprehension{frame.comp_ordinals[id(node)]}"
        getter, count = self.indexer(it)
        count_t = to_term(count, "int")
        saved = frame.locals.get("acc", _NOACC)
        frame.locals["acc"] = path.alloc(SeqCell(SeqV("list", None, items=[])))
        try:
            self.check_invariant(inv, frame, 0, label + "/init", it)
            self.havoc(frame, set(), set(inv.modifies), {"acc"}, inv)
            j = z3.Int(path.fresh_name("cj"))
            path.assume(z3.And(j >= 0, j <= count_t))
            jv = mk("int", j)
            self.assume_invariant(inv, frame, jv, it)
            if path.decide(j < count_t):
                self.assign_target(gen.target, getter(jv), sub)
                v = self.eval(node.elt, sub)
                self.call_value(self.get_attr(frame.locals["acc"], "append"), [v], {})
                self.check_invariant(inv, frame, mk("int", j + 1), label + "/preserve", it)
                raise PathEnd()
            return frame.locals["acc"]
        finally:
            if saved is _NOACC:
                frame.locals.pop("acc", None)
            else:
                frame.locals["acc"] = saved

    def _comp_nested(self, node, frame):
        out = []

        def rec(gi, fr):
            if gi == len(node.generators):
                out.append(self.eval(node.elt, fr))
                return
            gen = node.generators[gi]
            for x in self.iter_concrete(self.eval(gen.iter, fr)):
                sub = self.new_frame_like(fr)
                self.assign_target(gen.target, x, sub)
                if all(self.branch(self.eval(c, sub)) for c in gen.ifs):
                    rec(gi + 1, sub)

        rec(0, frame)
        return self.path.alloc(SeqCell(SeqV("list", seqops.elem_kind_of_items(out) if out else None, items=out)))

    # ------------------------------------------------------------------ pure sub-exploration (merging)
    def pure(self, thunk, assume=None):
        """Evaluate a side-effect-free thunk on all its sub-paths and merge the scalar results with If.

        Exceptions inside the thunk make the whole evaluation Unsupported (specs must be total)."""
        path = self.path
        saved = (path.prefix, path.pos, path.trace, path.ex.pending, list(path.pc))
        base_pc = len(path.pc)
        results = []
        pending = [[]]
        self.pure_depth = getattr(self, "pure_depth", 0) + 1
        try:
            while pending:
                pre = pending.pop()
                path.prefix, path.pos, path.trace = pre, 0, []
                local_pending = []
                path.ex.pending = local_pending
                path.truncate(base_pc)
                path.solver.push()
                try:
                    if assume is not None:
                        path.assume(assume)
                    start = len(path.pc)
                    try:
                        v = thunk()
                    except PyRaise as pr:
                        raise Unsupported(f"exception {pr.exc.cls.__name__} inside pure sub-evaluation")
                    results.append((list(path.pc[start:]), v))
                except Infeasible:
                    pass
                finally:
                    path.solver.pop()
                pending.extend(local_pending)
                if len(results) > 256:
                    raise Unsupported("too many sub-paths in pure evaluation")
        finally:
            self.pure_depth -= 1
            path.prefix, path.pos, path.trace, path.ex.pending = saved[0], saved[1], saved[2], saved[3]
            path.truncate(base_pc)
        if not results:
            raise NoFeasiblePath()
        return self.merge(results)

    def merge(self, results):
        if len(results) == 1:
            return results[0][1]
        vals = [v for _, v in results]
        k = None
        for v in vals:
            kv = kind_of(v)
            if kv is None:
                k = None
                break
            if k is None:
                k = kv
            elif k != kv:
                k = "float" if "float" in (k, kv) else "int"
        if k is None:
            first = vals[0]
            if all(v is first or (not isinstance(v, (Sym, SeqV, Ref)) and v == first and type(v) is type(first)) for v in vals):
                return first
            if all(isinstance(v, SeqV) or isinstance(v, (bytes, str)) for v in vals):
                seqs = [self.as_seq(v) for v in vals]
                kind0 = seqs[0].kind
                if all(s.kind == kind0 for s in seqs):
                    arrs = [seqops.as_array(s) for s in seqs]
                    if len({a[2] for a in arrs}) == 1:
                        arr, n = arrs[-1][0], arrs[-1][1]
                        for (cond, _), (a, ln, _) in list(zip(results, arrs))[-2::-1]:
                            c = z3.And(*cond) if cond else z3.BoolVal(True)
                            arr = z3.If(c, a, arr)
                            n = z3.If(c, ln, n)
                        return SeqV(kind0, arrs[0][2], arr=arr, length=z3.simplify(n))
            raise Unsupported("cannot merge non-scalar results of pure evaluation")
        t = to_term(vals[-1], k)
        for cond, v in results[-2::-1]:
            c = z3.And(*cond) if cond else z3.BoolVal(True)
            t = z3.If(c, to_term(v, k), t)
        return mk(k, t) if k != "float" else Sym("float", t)


_NOACC = object()


class NoFeasiblePath(Exception):
    """The assumption of a pure sub-evaluation is unsatisfiable under the path condition."""


class _Gen:
    def __init__(self, node, frame):
        self.node = node
        self.frame = frame
