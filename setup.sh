#!/bin/sh
# Builds /verif/.venv offline: python 3.12 (the repo's interpreter) + z3-solver, cvc5, jsonschema from the
# local wheelhouse; a .pth makes /venv's site-packages (secsgem editable install + its deps) importable.
set -e
cd "$(dirname "$0")"
V=.venv
if [ ! -x "$V/bin/python" ] || ! "$V/bin/python" -c "import z3, jsonschema, secsgem" 2>/dev/null; then
  rm -rf "$V"
  /venv/bin/python -m venv "$V"
  PIP_NO_INDEX=1 "$V/bin/pip" install -q --no-index --find-links /opt/veriftools/wheels z3-solver cvc5 jsonschema >/dev/null
  SP=$("$V/bin/python" -c "import site;print(site.getsitepackages()[0])")
  echo "import site; site.addsitedir('/venv/lib/python3.12/site-packages')" > "$SP/_overlay.pth"
fi
"$V/bin/python" -c "import z3, jsonschema, secsgem, sys; assert secsgem.__file__.startswith('/repo/'), secsgem.__file__; print('setup ok', z3.get_version_string())"
