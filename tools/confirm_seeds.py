#!/usr/bin/env python3
"""Confirm seeded changes at /repo's HEAD: patch applies, demo passes without / fails with, test-suite passes with; which
checks report a violation.  Usage: tools/confirm_seeds.py <seed dir> ...   (seed dir has patch.diff, demo.py, meta.json)"""
import concurrent.futures
import json
import os
import subprocess
import sys
import tempfile

PY = "/venv/bin/python"


def sh(cmd, cwd=None, timeout=1500, env=None):
    try:
        p = subprocess.run(cmd, shell=True, cwd=cwd, capture_output=True, text=True, timeout=timeout, env=env)
        return p.returncode, p.stdout + p.stderr
    except subprocess.TimeoutExpired:
        return 124, "timeout"


def one(seed, checks, run_tests=True):
    out = {"seed": seed}
    wt = tempfile.mkdtemp(prefix="seedwt.", dir="/tmp")
    os.rmdir(wt)
    rc, _ = sh(f"git -C /repo worktree add -q --detach {wt} HEAD")
    try:
        env = dict(os.environ, PYTHONPATH=wt, SECSGEM_ROOT=wt)
        # demos locate the tree relative to their own path (<tree>/_out/<X>/demo.py): run a copy inside the scratch worktree
        local = os.path.join(wt, "_out", os.path.basename(seed.rstrip("/")))
        os.makedirs(local, exist_ok=True)
        for fn in os.listdir(seed):
            if fn.endswith((".py", ".sh", ".json", ".txt")):
                sh(f"cp {os.path.join(seed, fn)} {local}/")
        demo = os.path.join(local, "demo.py")
        rc0, o0 = sh(f"cd {wt} && {PY} {demo}", timeout=300, env=env)
        out["demo_without"] = rc0
        rc, o = sh(f"cd {wt} && (git apply {seed}/patch.diff 2>/dev/null || git apply -3 {seed}/patch.diff 2>/dev/null)")
        out["applies"] = rc == 0
        if rc != 0:
            return out
        sh(f"cd {wt} && git diff -- . ':!_out' > {wt}/.applied.diff")
        rc1, o1 = sh(f"cd {wt} && {PY} {demo}", timeout=300, env=env)
        out["demo_with"] = rc1
        out["demo_tail"] = o1.strip().splitlines()[-1][:200] if o1.strip() else ""
        if run_tests:
            rct, ot = sh(f"cd {wt} && {PY} -m pytest -q -p no:cacheprovider --timeout=300 -x --ignore=_out 2>&1 | tail -3", timeout=1400)
            out["tests"] = "passed" if " passed" in ot and "failed" not in ot and "error" not in ot.lower() else ot.strip()[-200:]
        caught = {}
        for chk in checks:
            rcc, oc = sh(f"cd /verif && VERIF_REPO={wt} ./check {chk} 2>/dev/null | grep -c '^VIOLATION'", timeout=1200)
            caught[chk] = oc.strip().splitlines()[-1] if oc.strip() else "?"
        out["violations_by_check"] = caught
        out["applied_diff"] = open(f"{wt}/.applied.diff").read()
    finally:
        sh(f"git -C /repo worktree remove --force {wt}")
    return out


if __name__ == "__main__":
    jobs = []
    for arg in sys.argv[1:]:
        seed, _, checks = arg.partition(":")
        jobs.append((seed, checks.split(",") if checks else []))
    with concurrent.futures.ThreadPoolExecutor(max_workers=6) as pool:
        for res in pool.map(lambda j: one(*j), jobs):
            d = {k: v for k, v in res.items() if k != "applied_diff"}
            print(json.dumps(d), flush=True)
            if res.get("applied_diff"):
                with open(os.path.join(res["seed"], "applied_at_head.diff"), "w") as fh:
                    fh.write(res["applied_diff"])
