#!/bin/sh
# tools/try_seed.sh <patch.diff> <check-prop> [extra check args]: apply a seeded change to a scratch worktree at /repo's HEAD
# (3-way merge if the context moved), run the check against it (VERIF_REPO), remove the worktree.
P="$1"; PROP="$2"; shift 2
WT=$(mktemp -d /tmp/trysd.XXXXXX)
git -C /repo worktree add -q --detach "$WT" HEAD || exit 9
( cd "$WT" && (git apply "$P" 2>/dev/null || git apply -3 "$P" 2>/dev/null) ) || { echo "PATCH DOES NOT APPLY"; git -C /repo worktree remove --force "$WT"; exit 9; }
( cd "${VERIF_DIR:-/verif}" && VERIF_REPO="$WT" ./check "$PROP" "$@" 2>/dev/null | cut -c1-400 )
rc=$?
git -C /repo worktree remove --force "$WT"
exit $rc
