#!/bin/sh
# tools/try_mut.sh <repo-relative file> <python-regex> <replacement> <prop> [check args]: apply a one-line textual mutation to a
# scratch worktree of /repo's HEAD, run the check against it (VERIF_REPO), remove the worktree.
F="$1"; PAT="$2"; REP="$3"; PROP="$4"; shift 4
WT=$(mktemp -d /tmp/trymut.XXXXXX)
git -C /repo worktree add -q --detach "$WT" HEAD || exit 9
/venv/bin/python - "$WT/$F" "$PAT" "$REP" <<'PY' || { git -C /repo worktree remove --force "$WT"; exit 9; }
import re, sys
p, pat, rep = sys.argv[1:4]
s = open(p).read()
n = len(re.findall(pat, s, flags=re.M))
if n != 1:
    print(f"pattern matches {n} times (need exactly 1)"); sys.exit(1)
open(p, "w").write(re.sub(pat, rep, s, count=1, flags=re.M))
PY
( cd "${VERIF_DIR:-/verif}" && VERIF_REPO="$WT" ./check "$PROP" "$@" 2>/dev/null | cut -c1-400 )
git -C /repo worktree remove --force "$WT"
