#!/usr/bin/env python3
"""Regenerate the three tables of DESIGN.md Appendix C from seeded/*/meta.json, seeded/mutants.json,
seeded/_harmless/refactorings.json and the last complete selftest log (seeded/selftest_last_run.txt).
Usage: tools/gen_appendix_c.py            (rewrites the tables in DESIGN.md in place)"""
import json
import os
import re

ROOT = os.path.realpath(os.path.join(os.path.dirname(__file__), ".."))
log = {}
for line in open(os.path.join(ROOT, "seeded", "selftest_last_run.txt")):
    m = re.match(r"selftest (\S+)\s+(C\d\d) (.*?) \((\d+) VIOLATION lines\)", line)
    if m:
        log[m.group(1)] = (m.group(3).strip(), int(m.group(4)))


def short(text, n=175):
    text = " ".join(str(text).split()).replace("|", "/")
    return text if len(text) <= n else text[: n - 1] + "…"


rows = ["| seeded change | property | what it does | reported by |", "|---|---|---|---|"]
seeds = 0
for name in sorted(os.listdir(os.path.join(ROOT, "seeded"))):
    meta = os.path.join(ROOT, "seeded", name, "meta.json")
    if name.startswith("_") or not os.path.exists(meta):
        continue
    m = json.load(open(meta))
    seeds += 1
    status, n = log.get(name, ("not in the last run", 0))
    note = (m.get("confirmed") or {}).get("note", "")
    how = f"./check {m['property']} ({n} lines)" if status.startswith("reported") else f"**{status}**"
    if note.lower().startswith("missed at first") or "at first" in note.lower():
        how += " - after the check was strengthened"
    rows.append(f"| {name} | {m['property']} | {short(m.get('summary', ''))} | {how} |")
seed_table = "\n".join(rows)

rows = ["| one-line mutant | property | what it breaks | reported by |", "|---|---|---|---|"]
muts = json.load(open(os.path.join(ROOT, "seeded", "mutants.json")))["mutants"]
for m in muts:
    status, n = log.get(m["id"], ("not in the last run", 0))
    how = f"./check {m['property']} {m.get('check_args', '')}".strip() if status.startswith("reported") else f"**{status}**"
    rows.append(f"| {m['id']} | {m['property']} | `{m['file']}`: {short(m.get('breaks', ''), 120)} | {how} |")
mut_table = "\n".join(rows)

rows = ["| harmless refactoring | property | what it changes | verdict |", "|---|---|---|---|"]
harm = json.load(open(os.path.join(ROOT, "seeded", "_harmless", "refactorings.json")))["refactorings"]
for m in harm:
    status, n = log.get(m["id"], ("not in the last run", 0))
    rows.append(f"| {m['id']} | {m['property']} | `{m['file']}`: {short(m.get('what', ''), 120)} | {status} |")
harm_table = "\n".join(rows)

reported_seeds = sum(1 for name in os.listdir(os.path.join(ROOT, "seeded")) if name in log and os.path.exists(os.path.join(ROOT, "seeded", name, "meta.json")) and log[name][0].startswith("reported"))
reported_muts = sum(1 for m in muts if log.get(m["id"], ("",))[0].startswith("reported"))
silent = sum(1 for m in harm if log.get(m["id"], ("",))[0].startswith("silent"))

p = os.path.join(ROOT, "DESIGN.md")
s = open(p).read()
a = s.index("## Appendix C")
b = s.index("## Appendix D")
app = s[a:b]
t0 = app.index("| seeded change | property |")
head = app[:t0]
head = re.sub(r"\(\d+ of \d+ reported: \d+ seeded changes, \d+ mutants[^)]*\)",
              f"({reported_seeds + reported_muts} of {seeds + len(muts)} reported: {seeds} seeded changes, {len(muts)} mutants; {silent} of {len(harm)} harmless refactorings silent)", head)
new_app = head + seed_table + "\n\n" + mut_table + "\n\n" + harm_table + "\n\n"
open(p, "w").write(s[:a] + new_app + s[b:])
print(f"seeds {reported_seeds}/{seeds}, mutants {reported_muts}/{len(muts)}, harmless silent {silent}/{len(harm)}")
