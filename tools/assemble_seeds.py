#!/usr/bin/env python3
"""Copy confirmed seeded changes into /verif/seeded/<id>/ from a confirm_seeds.py result file.
Usage: tools/assemble_seeds.py <confirm.jsonl> [name-suffix-map]"""
import json
import os
import shutil
import subprocess
import sys

HEAD = subprocess.run("git -C /repo rev-parse --short HEAD", shell=True, capture_output=True, text=True).stdout.strip()
out_root = "/verif/seeded"
for line in open(sys.argv[1]):
    d = json.loads(line)
    seed = d["seed"].rstrip("/")
    prop = d.get("property") or [p for p in seed.split("/") if p.startswith("C") and p[1:3].isdigit()][0][:3]
    name = os.path.basename(seed)
    if len(name) == 1 or not name.startswith("C"):
        name = f"{prop}-{name}"
    status = None
    if not d.get("applies"):
        status = "does-not-apply-at-head"
    elif d.get("demo_without") != 0:
        status = "demo-fails-on-unchanged-tree"
    elif d.get("demo_with") == 0:
        status = "neutralised"      # the change no longer breaks the property at HEAD (a later fix removed the mechanism)
    elif d.get("tests") != "passed":
        status = "tests-fail"
    else:
        status = "confirmed"
    if status not in ("confirmed", "neutralised"):
        print(name, status, "- skipped")
        continue
    dst = os.path.join(out_root, name)
    os.makedirs(dst, exist_ok=True)
    src_patch = os.path.join(seed, "applied_at_head.diff")
    shutil.copy(src_patch if os.path.exists(src_patch) else os.path.join(seed, "patch.diff"), os.path.join(dst, "patch.diff"))
    for fn in os.listdir(seed):
        if fn.endswith(".py"):
            shutil.copy(os.path.join(seed, fn), dst)
    meta = json.load(open(os.path.join(seed, "meta.json")))
    meta["property"] = prop
    caught = {k: int(v) if str(v).isdigit() else v for k, v in (d.get("violations_by_check") or {}).items()}
    meta["confirmed"] = {
        "at_repo_head": HEAD,
        "status": status,
        "patch_applies": True,
        "demo_exit_on_unchanged_tree": d.get("demo_without"),
        "demo_exit_with_change": d.get("demo_with"),
        "demo_last_line": d.get("demo_tail"),
        "test_suite_with_change": d.get("tests"),
        "violation_lines_by_check": caught,
        "what_was_run": [
            "git -C /repo worktree add --detach <scratch> HEAD; copy demo to <scratch>/_out/<X>/",
            "/venv/bin/python <scratch>/_out/<X>/demo.py   # unchanged tree",
            "git apply patch.diff (3-way if the context moved); /venv/bin/python <scratch>/_out/<X>/demo.py",
            "/venv/bin/python -m pytest -q -p no:cacheprovider --timeout=300 -x   # in <scratch>",
            "VERIF_REPO=<scratch> ./check <property>   # count of VIOLATION lines",
            "git -C /repo worktree remove --force <scratch>",
        ],
    }
    json.dump(meta, open(os.path.join(dst, "meta.json"), "w"), indent=1)
    print(name, status, caught)
