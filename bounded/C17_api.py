"""C17: SECS-I line protocol between two real SecsIProtocol endpoints over a simulated half-duplex line."""
from __future__ import annotations

import queue
import random
import threading
import time

from pyvc.runner import bounded
from bounded import harness as H
from bounded.C01_api import Fail
from spec import e5ref as R

import secsgem.common

ENQ, EOT, ACK, NAK = 0x05, 0x04, 0x06, 0x15


class Line:
    """Connects two MemConnections: what one side writes reaches the other in chunks of `chunk` bytes, paced."""

    def __init__(self, a, b, chunk, corrupt=None, pace=0.001):
        self.a, self.b = a, b
        self.chunk = chunk
        self.corrupt = corrupt          # (direction 'ab'|'ba', index of the block (0-based), byte offset inside the block)
        self.pace = pace
        self.log = {"ab": bytearray(), "ba": bytearray()}
        self.blocks_seen = {"ab": 0, "ba": 0}
        self.q = queue.Queue()
        self.stop = False
        a.send_data = lambda data, d="ab": self._send(d, data)
        b.send_data = lambda data, d="ba": self._send(d, data)
        self.t = threading.Thread(target=self._pump, daemon=True)
        self.t.start()

    def _send(self, direction, data):
        data = bytes(data)
        if len(data) > 1:          # a block (length byte + header + data + checksum); single bytes are handshake codes
            idx = self.blocks_seen[direction]
            self.blocks_seen[direction] += 1
            if self.corrupt and self.corrupt[0] == direction and self.corrupt[1] == idx:
                p = self.corrupt[2] % len(data)
                data = data[:p] + bytes([data[p] ^ 0x41]) + data[p + 1:]
        self.log[direction] += data
        self.q.put((direction, data))
        return True

    def _pump(self):
        while not self.stop:
            try:
                direction, data = self.q.get(timeout=0.05)
            except queue.Empty:
                continue
            target = self.b if direction == "ab" else self.a
            for i in range(0, len(data), self.chunk):
                target.feed(data[i:i + self.chunk])
                if self.pace:
                    time.sleep(self.pace)

    def close(self):
        self.stop = True


def pair(chunk, corrupt=None):
    host, hc, hlog = H.make_secsi(secsgem.common.DeviceType.HOST)
    eq, ec, elog = H.make_secsi(secsgem.common.DeviceType.EQUIPMENT)
    line = Line(hc, ec, chunk, corrupt)
    for p, c in ((host, hc), (eq, ec)):
        p.enable()
        c.connect()
    return host, eq, hlog, elog, line, (hc, ec)


def transcript_ok(fwd, back, n_blocks, expect_ack):
    """fwd: ENQ block ENQ block ...; back: EOT ACK EOT ACK ... (NAK for the corrupted one, then nothing)."""
    pos = 0
    blocks = 0
    while pos < len(fwd):
        if fwd[pos] != ENQ:
            return f"byte {pos} of the sender's stream is {fwd[pos]:#x}, expected ENQ"
        pos += 1
        if pos >= len(fwd):
            break
        ln = fwd[pos]
        pos += 1 + ln + 2
        blocks += 1
    want_back = []
    for i in range(blocks):
        want_back += [EOT, ACK if expect_ack[i] else NAK]
    if list(back) != want_back:
        return f"receiver wrote {list(back)[:12]}, expected {want_back[:12]}"
    return None


def run_case(direction, body_len, chunk, corrupt_block, corrupt_offset, fails, tag):
    corrupt = None
    d = "ab" if direction == "host->eq" else "ba"
    if corrupt_block is not None:
        corrupt = (d, corrupt_block, corrupt_offset)
    host, eq, hlog, elog, line, conns = pair(chunk, corrupt)
    try:
        sender, rlog = (host, elog) if direction == "host->eq" else (eq, hlog)
        text = "".join(chr(65 + (i * 7) % 26) for i in range(body_len))
        fn = sender._settings.streams_functions.function(10, 3)({"TID": 1, "TEXT": text})
        body = fn.encode()
        n_blocks = max(1, -(-len(body) // 244))
        box = {}
        t = threading.Thread(target=lambda: box.setdefault("r", sender.send_stream_function(fn)), daemon=True)
        t.start()
        t.join(8.0 * H.scale())
        time.sleep(0.05)
        H.wait_until(lambda: len(rlog["message_received"]) >= 1, 0.6 if corrupt is None else 0.2)
        w = dict(tag, direction=direction, body_bytes=len(body), blocks=n_blocks, chunk=chunk, corrupt_block=corrupt_block, corrupt_offset=corrupt_offset)
        if t.is_alive():
            fails.add("send-returns", w, "the send call did not return within 8 s")
            return
        ok = box.get("r")
        got = rlog["message_received"]
        if corrupt is None:
            if ok is not True:
                fails.add("clean-line.send-succeeds", dict(w, result=ok), "send on an error-free line did not report success")
            if len(got) != 1 or got[0][1:3] != (10, 3) or got[0][4] != body:
                fails.add("success-means-delivered-once-intact", dict(w, delivered=[(g[1], g[2], len(g[4])) for g in got]), "a send that reported success was not delivered exactly once with identical body")
            fwd, back = (line.log["ab"], line.log["ba"]) if d == "ab" else (line.log["ba"], line.log["ab"])
            err = transcript_ok(fwd, back, n_blocks, [True] * n_blocks)
            if err:
                fails.add("enq-eot-block-ack-discipline", dict(w, problem=err), "line transcript violates ENQ / EOT / block / ACK")
        else:
            if ok is not False:
                fails.add("corrupted-block.sender-reports-failure", dict(w, result=ok, delivered=len(got)), "a block arrived with a wrong checksum but the send call did not report failure")
            if got:
                fails.add("corrupted-block.not-delivered", dict(w, delivered=[(g[1], g[2], len(g[4])) for g in got]), "a message containing a corrupted block was delivered")
            back = line.log["ba"] if d == "ab" else line.log["ab"]
            if NAK not in back:
                fails.add("corrupted-block.nak", dict(w, receiver_wrote=list(back)[:12]), "the corrupted block was not answered with NAK")
    finally:
        line.close()
        for p, c in zip((host, eq), conns):
            H.shutdown(p, c)


def run_retry(direction, body_len, chunk, corrupt_block, fails):
    """A multi-block message whose block `corrupt_block` (not the first) arrives corrupted: the send fails; the application
    sends the SAME message (same system bytes) again on the now clean line: success must mean delivered once, identical."""
    d = "ab" if direction == "host->eq" else "ba"
    host, eq, hlog, elog, line, conns = pair(chunk, (d, corrupt_block, 20))
    try:
        sender, rlog = (host, elog) if direction == "host->eq" else (eq, hlog)
        text = "".join(chr(65 + (i * 11) % 26) for i in range(body_len))
        fn = sender._settings.streams_functions.function(10, 3)({"TID": 1, "TEXT": text})
        body = fn.encode()
        msg = sender._create_message_for_function(fn, 0x0A0B0C01)
        results = []
        for _ in range(2):
            box = {}
            t = threading.Thread(target=lambda: box.setdefault("r", sender.send_message(msg)), daemon=True)
            t.start()
            t.join(8.0 * H.scale())
            if t.is_alive():
                fails.add("send-returns", {"direction": direction, "history": "failed send, then the same message again"}, "the send call did not return within 8 s")
                return
            results.append(box.get("r"))
            time.sleep(0.05)
        H.wait_until(lambda: len(rlog["message_received"]) >= 1, 0.6)
        got = rlog["message_received"]
        w = {"direction": direction, "body_bytes": len(body), "chunk": chunk, "corrupt_block_of_first_attempt": corrupt_block, "send_results": results,
             "delivered": [(g[1], g[2], len(g[4])) for g in got]}
        if results[0] is not False:
            fails.add("corrupted-block.sender-reports-failure", w, "a block arrived with a wrong checksum but the send call did not report failure")
        if results[1] is True and (len(got) != 1 or got[0][4] != body):
            fails.add("success-means-delivered-once-intact", w, "the same message sent again after a failed attempt reported success but was not delivered exactly once with identical body "
                      "(blocks of the failed attempt were kept by the receiver)")
    finally:
        line.close()
        for p, c in zip((host, eq), conns):
            H.shutdown(p, c)


@bounded("C17", "line-protocol")
def bnd_line(tier, seed):
    rnd = random.Random(seed + 17)
    fails = Fail()
    n_eval = 0
    distinct = set()
    # 237 and 480 characters of text give bodies of exactly 244 and 488 bytes (full last block)
    sizes = [0, 10, 237, 240, 480, 700] if tier == "quick" else [0, 1, 10, 230, 236, 237, 238, 240, 480, 481, 500, 700, 724, 1500]
    chunks = [1, 3, 64, 400] if tier == "quick" else [1, 2, 3, 5, 13, 64, 245, 400]
    for direction in ("host->eq", "eq->host"):
        for size in sizes:
            for chunk in chunks:
                if tier == "quick" and chunk == 1 and size > 300:
                    continue
                n_eval += 1
                distinct.add((direction, size, chunk, None))
                run_case(direction, size, chunk, None, None, fails, {})
    # corruption: every kind of position (length byte excluded: the receiver then waits for a different byte count),
    # in the first, a middle and the last block
    for direction in ("host->eq", "eq->host"):
        for size, nblocks in ((10, 1), (700, 3)):
            for blk in sorted({0, nblocks // 2, nblocks - 1}):
                for off in (1, 2, 5, 11, 12, -3, -2, -1) if tier == "thorough" else (1, 5, 12, -1):
                    n_eval += 1
                    distinct.add((direction, size, 64, blk, off))
                    run_case(direction, size, 64, blk, off, fails, {})
    # histories: a failed multi-block send followed by the same message again (D36)
    for direction in ("host->eq", "eq->host"):
        for size, blk in ((480, 1), (700, 1), (700, 2)) if tier == "quick" else ((300, 1), (480, 1), (700, 1), (700, 2), (1500, 3), (1500, 6)):
            n_eval += 1
            distinct.add((direction, size, 64, blk, "retry"))
            run_retry(direction, size, 64, blk, fails)
    return {"evaluations": n_eval, "distinct": len(distinct), "failures": list(fails),
            "scope": f"two real SecsIProtocol endpoints on a simulated line: body sizes {sizes} (1..7 blocks), both directions, line chunk sizes {chunks}, single corrupted byte in the first / middle / last block at header, data and checksum positions",
            "rule": "distinct = (direction, body size, chunk size, corrupted block, offset)", "samples": [{"direction": "host->eq", "size": 700, "chunk": 3}]}
