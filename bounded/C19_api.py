"""C19: SFDL structure definitions are read as documented (reference reading spec/sfdl_ref.py from docs/firststeps/sfdl.md)."""
from __future__ import annotations

import inspect
import random
import re

from pyvc.runner import bounded, fd
from bounded.C01_api import Fail
from spec import sfdl_ref as S

import secsgem.secs.data_items as DI
from secsgem.secs.functions._all import secs_streams_functions
from secsgem.secs.functions.sfdl_tokenizer import SFDLParseError
from secsgem.secs.variables import Array, List
from secsgem.secs.variables import functions as VF

KNOWN = {n.upper() for n, k in inspect.getmembers(DI, inspect.isclass) if hasattr(k, "__type__") and n != "DataItemBase"}


def lib_shape(v):
    """Observable shape of a generated structure: member keys in order, arrays, data item classes."""
    if isinstance(v, Array):
        return ("array", lib_shape(VF.generate(v.item_decriptor)))
    if isinstance(v, List):
        return ("record", [(k, lib_shape(x)) for k, x in v.data.items()])
    return ("item", type(v).__name__.upper())


def ref_shape(s):
    if s[0] == "item":
        return s
    if s[0] == "array":
        return ("array", ref_shape(s[2]))
    return ("record", [(k, ref_shape(m)) for k, m in s[2]])


@fd("C19", "catalogue-definitions")
def fd_catalogue():
    obs = []
    bad = []
    n = 0
    for cls in secs_streams_functions:
        fmt = cls._data_format
        if not isinstance(fmt, str) or not fmt.strip():
            continue
        n += 1
        try:
            want = ref_shape(S.shape(fmt, KNOWN))
            got = lib_shape(VF.generate(fmt))
        except Exception as exc:
            bad.append({"function": cls.__name__, "error": f"{type(exc).__name__}: {exc}"[:120]})
            continue
        if want != got:
            bad.append({"function": cls.__name__, "want": repr(want)[:200], "got": repr(got)[:200]})
    obs.append({"name": "all-catalogue-structures-as-documented", "ok": not bad and n > 100, "witness": bad[:3], "detail": "a catalogued structure definition is read differently from the documented rules"})
    return {"obligations": obs, "domain": f"{n} structure definitions of the catalogue", "size": n, "exhaustive": True, "samples": [{"function": "SecsS02F33"}]}


ITEMS = ["SVID", "ALCD", "ALID", "ALTX", "TRID", "DATAID", "RPTID", "VID", "CEID", "LENGTH", "V", "MDLN", "ACKC5", "DVVAL", "ECV"]
NAMES = ["REPORTS", "SVIDS", "DS", "ITEMS", "L1", "DATA2", "LIST"]


PATTERNS: list = []


def gen_def(rnd, depth, top=True, allow_name=True):
    """(text, reference shape) generated from the documented grammar: <ITEM> | <L [NAME] member+>.

    Not generated (the document does not say what the key is): an unnamed one-member list whose member is a *named* list."""
    if depth == 0 or (not top and rnd.random() < 0.45):
        it = rnd.choice(ITEMS)
        return f"< {it} >", ("item", it)
    n = rnd.choice((1, 1, 2, 3))
    name = rnd.choice(NAMES) if (not top and allow_name and rnd.random() < 0.4) else None
    members = []
    used = set()
    for _ in range(n):
        for _try in range(10):
            t, s = gen_def(rnd, depth - 1, top=False, allow_name=not (n == 1 and name is None))
            if n == 1:
                break
            k = S.member_key(s) if s[0] != "item" else s[1]
            if k not in used:           # a record cannot hold two members with the same key: outside the grammar's meaning
                used.add(k)
                break
        else:
            continue
        members.append((t, s))
    if not members:
        return gen_def(rnd, 0, top=False)
    ws = rnd.choice(("\n    ", " ", "\t", "\n\n  ", "   # a comment < with > brackets\n  ", "\r", "\r\n  ", " # comment ended by CR <\r ",
                     "\t# comment ended by CRLF >\r\n")) if rnd.random() < 0.9 else " "
    ws_plain = rnd.choice(("\n    ", " ", "\t", "\r", "\r\n"))
    body = ws_plain.join(t for t, _ in members)
    text = f"<{rnd.choice((' ', '', '  '))}L{(' ' + name) if name else ''}{ws}{body}{ws_plain}>"
    if name and len(members) >= 2 and members[0][1][0] != "item":
        PATTERNS.append("named-list-with-several-members-whose-first-member-is-a-list")
    if len(members) == 1:
        elem = members[0][1]
        key = name or (elem[1] if elem[0] == "item" else "DATA")
        return text, ("array", key, elem)
    return text, ("record", name or "DATA", [(S.member_key(s) if s[0] != "item" else s[1], s) for _, s in members])


def _duplicate_keys(shape):
    if isinstance(shape, tuple) and shape and shape[0] == "record":
        keys = [k for k, _ in shape[1]]
        return len(keys) != len(set(keys)) or any(_duplicate_keys(v) for _, v in shape[1])
    if isinstance(shape, tuple) and shape and shape[0] == "array":
        return _duplicate_keys(shape[-1])
    return False


@bounded("C19", "generated-definitions")
def bnd_generated(tier, seed):
    rnd = random.Random(seed + 19)
    fails = Fail()
    n_eval = 0
    distinct = set()
    count = 1500 if tier == "quick" else 15000
    for _ in range(count):
        PATTERNS.clear()
        text, ref = gen_def(rnd, rnd.choice((1, 2, 3, 4)))
        pattern = sorted(set(PATTERNS))
        n_eval += 1
        distinct.add(text)
        want = ref_shape(ref)
        try:
            chk = ref_shape(S.shape(text, KNOWN))
        except S.SfdlRefError:
            continue
        if chk != want:
            continue        # generator and reference reader disagree (e.g. comment handling): not a library matter
        try:
            got = lib_shape(VF.generate(text))
        except Exception as exc:
            fails.add("well-formed-definition-accepted" + (".named-list-first-member-list" if pattern else ""), {"text": text[:160], "pattern": pattern}, f"a well-formed definition was rejected: {type(exc).__name__}: {str(exc)[:80]}")
            continue
        if got != want:
            fails.add("shape-as-documented" + (".named-list-first-member-list" if pattern else ""), {"text": text[:160], "pattern": pattern, "got": repr(got)[:200], "want": repr(want)[:200]},
                      "shape / key order / item classes differ from the documented rules (several members: record; one member: open array; key naming)")
        # line-break twins: texts that differ from this one only in where a line break sits relative to a comment (same
        # text after whitespace normalisation, different meaning: the line break ends the comment), read in the same process
        if "#" in text:
            twins = []
            for m_ in re.finditer(r"#[^\n\r]*[\n\r]", text):
                twins.append(text[:m_.end() - 1] + " " + text[m_.end():])            # comment swallows the rest of the next line
                twins.append(text[:m_.start() + 1] + "\n" + text[m_.start() + 1:])   # comment text becomes definition text
            for tw in twins[:4]:
                n_eval += 1
                # documented: a comment runs from '#' to the line break and is ignored - so the twin must be read exactly
                # like the same text with its comments blanked out (accepted with the same shape, or rejected alike)
                blank = re.sub(r"#[^\n\r]*", " ", tw)
                outcomes = []
                for t_ in (tw, blank):
                    try:
                        outcomes.append(lib_shape(VF.generate(t_)))
                    except Exception as exc:
                        outcomes.append(("rejected", type(exc).__name__))
                if (outcomes[0][0] == "rejected") != (outcomes[1][0] == "rejected") or (outcomes[0][0] != "rejected" and outcomes[0] != outcomes[1]):
                    fails.add("line-break-twin.comments-are-ignored", {"first_read": text[:160], "then": tw[:160], "read_as": repr(outcomes[0])[:160],
                                                                       "same_text_without_comments_read_as": repr(outcomes[1])[:160]},
                              "a definition read after a well-formed text that differs from it only in a line break next to a comment is not read like "
                              "the same text with the comments removed (a bracket swallowed by a comment was accepted, or the other text's shape was returned)")
        # mutations of this definition
        toks_close = [i for i, ch in enumerate(text) if ch == ">" and "#" not in text[max(text.rfind("\n", 0, i), text.rfind("\r", 0, i)) + 1:i]]
        for p in rnd.sample(toks_close, min(2, len(toks_close))):
            n_eval += 1
            mutated = text[:p] + " " + text[p + 1:]
            try:
                S.shape(mutated, KNOWN)
                continue   # still well-formed for the reference reader (cannot happen for bracket deletion)
            except S.SfdlRefError:
                pass
            try:
                res = VF.generate(mutated)
                fails.add("missing-bracket-rejected", {"text": mutated[:160], "returned": repr(lib_shape(res))[:120]}, "a definition with a missing closing bracket was accepted")
            except Exception:
                pass
        # text after the complete definition that opens a bracket and never closes it, or names an unknown data item: the
        # definition as a whole has a missing closing bracket / an unknown name and must be rejected (D35)
        for tail, clause in ((" <", "missing-bracket-rejected"), (" < L < MDLN >", "missing-bracket-rejected"), (" < NOSUCHITEM >", "unknown-item-rejected")):
            n_eval += 1
            mutated = text.rstrip() + "\n" + tail
            try:
                res = VF.generate(mutated)
                fails.add(clause, {"text": mutated[-120:], "returned": repr(lib_shape(res))[:120]},
                          "text after the first complete structure with an unclosed bracket / an unknown data item name was silently ignored")
            except Exception:
                pass
        for it in ITEMS[:3]:
            if f"< {it} >" in text:
                n_eval += 1
                mutated = text.replace(f"< {it} >", "< NOSUCHITEM >", 1)
                try:
                    res = VF.generate(mutated)
                    fails.add("unknown-item-rejected", {"text": mutated[:160]}, "a definition with an unknown data item name was accepted")
                except SFDLParseError:
                    pass
                except Exception as exc:
                    fails.add("unknown-item-rejected-with-parse-error", {"text": mutated[:160], "raised": type(exc).__name__}, "an unknown data item name must be rejected with a parse error")
                break
    return {"evaluations": n_eval, "distinct": len(distinct), "failures": list(fails),
            "scope": f"{count} definitions generated from the documented grammar (depth <= 4, width <= 3, optional list names, comments, whitespace variants) over {len(ITEMS)} data item names, plus bracket deletions and unknown-name mutations",
            "rule": "distinct = definition texts", "samples": [{"text": "< L < TRID > < L SVIDS < SVID > > >"}]}


@fd("C19", "element-list-methods")
def fd_element_list_methods():
    """The three one-line methods of _SFDLElementList that contracts/C19_sfdl.py assumes through a ghost cursor (available, pop,
    peek) against that ghost view, natively, for every list of 0..4 elements and every number of preceding pops; and the
    top-level call of _process_tokens with tokens=None (which the contract leaves out) creating the list."""
    from secsgem.secs.functions.sfdl_tokenizer import _SFDLElementList, _SFDLSourceLocation, SFDLTokenizer
    bad = None
    total = 0
    for n in range(5):
        values = [f"e{k}" for k in range(n)]
        for popped in range(n + 1):
            total += 1
            el = _SFDLElementList()
            for k, v in enumerate(values):
                el.append(v, _SFDLSourceLocation(1, k + 1))
            got = [el.pop()[0] for _ in range(popped)]
            pos = popped
            ok = got == values[:popped] and el.available == (pos < n)
            if pos < n:
                ok = ok and el.peek()[0] == values[pos] and el.peek(0)[0] == values[pos] and el.available
                ok = ok and el.pop()[0] == values[pos]
            else:
                for op in (el.pop, el.peek):
                    try:
                        op()
                        ok = False
                    except IndexError:
                        pass
            if not ok and bad is None:
                bad = {"elements": values, "popped": popped}
    obs = [{"name": "ghost-cursor-view-of-the-element-list", "ok": bad is None, "witness": bad,
            "detail": "available / pop / peek of _SFDLElementList differ from the cursor view the contracts assume"}]
    t = SFDLTokenizer("< L < MDLN > >")
    toks = t._process_tokens(_mk_elements(["<", "MDLN", ">"]))
    obs.append({"name": "top-level-call-creates-the-token-list", "ok": isinstance(toks, list) and len(toks) == 3, "witness": {"tokens": len(toks) if isinstance(toks, list) else None},
                "detail": "_process_tokens(elements) without a token list must return a new list with the tokens"})
    return {"obligations": obs, "domain": "element lists of 0..4 elements x every number of preceding pops; one top-level call", "size": total + 1, "exhaustive": True,
            "samples": [{"elements": ["e0", "e1"], "popped": 1}]}


def _mk_elements(values):
    from secsgem.secs.functions.sfdl_tokenizer import _SFDLElementList, _SFDLSourceLocation
    el = _SFDLElementList()
    for k, v in enumerate(values):
        el.append(v, _SFDLSourceLocation(1, k + 1))
    return el
