"""Execution harness for the finite-domain / bounded tiers and for replays (DESIGN 2.5).

Real, unmodified classes of the repository run against an in-memory Connection.  Nothing under /repo is touched; every
substitution made from outside is listed here: MemConnection (transport), SyncDispatcher (optional: runs the receive and
dispatch steps on the calling thread instead of two daemon threads), VirtualTimer (optional: threading.Timer replaced in
the harness process by an object whose expiry is an explicit call)."""
from __future__ import annotations

import os
import struct
import threading
import time

import secsgem.common
import secsgem.hsms
from secsgem.common.connection import Connection
from secsgem.hsms.header import HsmsHeader, HsmsSType
from secsgem.hsms.settings import HsmsConnectMode, HsmsSettings


class MemConnection(Connection):
    """Transport stand-in: records what is written, lets the test feed bytes and connect/close events."""

    def __init__(self, settings):
        super().__init__(settings)
        self.sent = []          # list of bytes objects handed to send_data, in order
        self.enabled = False
        self.fail_sends = False
        self.auto_reply = None  # callable(frame dict) -> bytes | None: the peer's immediate answer to a written frame

    def enable(self):
        self.enabled = True

    def disable(self):
        self.enabled = False
        if self._connected:
            self.close(local=True)

    def send_data(self, data: bytes) -> bool:
        if self.fail_sends or not self._connected:
            return False
        self.sent.append(bytes(data))
        if self.auto_reply is not None and len(data) >= 14:
            n = struct.unpack(">L", data[:4])[0]
            h = data[4:14]
            fr = {"session": h[0] << 8 | h[1], "w": bool(h[2] & 0x80), "stream": h[2] & 0x7F, "function": h[3], "ptype": h[4],
                  "stype": h[5], "system": struct.unpack(">L", h[6:10])[0], "body": bytes(data[14:4 + n])}
            answer = self.auto_reply(fr)
            if answer:
                self.feed(answer)
        return True

    # --- driven by the test
    def connect(self):
        self._connected = True
        self._disconnecting = False
        self.on_connected({"source": self})

    def feed(self, data: bytes):
        self.on_data({"source": self, "data": bytes(data)})

    def close(self, local=False):
        if local:
            self._disconnecting = True
            self.on_disconnecting({"source": self})
        self._connected = False
        self.on_disconnected({"source": self})
        self._disconnecting = False

    def frames(self):
        """Parse everything written so far into (stype, system, stream, function, wbit, body, raw header)."""
        raw = b"".join(self.sent)
        out = []
        pos = 0
        while pos + 4 <= len(raw):
            n = struct.unpack(">L", raw[pos:pos + 4])[0]
            frame = raw[pos + 4:pos + 4 + n]
            h = frame[:10]
            out.append({"session": h[0] << 8 | h[1], "w": bool(h[2] & 0x80), "stream": h[2] & 0x7F, "function": h[3],
                        "ptype": h[4], "stype": h[5], "system": struct.unpack(">L", h[6:10])[0], "body": frame[10:], "header": h})
            pos += 4 + n
        return out


class MemHsmsSettings(HsmsSettings):
    def create_connection(self):
        self.mem_connection = MemConnection(self)
        return self.mem_connection


class SyncDispatcher:
    """Synchronous replacement of ProtocolDispatcher (same public operations), installed from outside for handler-level
    tests: trigger_receiver runs the receiver target now, queue_block dispatches now, on the calling thread."""

    stopping = False        # (the real dispatcher's flag 'the threads are being stopped': never, nothing runs in threads here)

    def __init__(self, protocol):
        self._p = protocol
        self.started = 0
        self.stopped = 0
        self._busy = False
        self._again = False

    def start(self):
        self.started += 1

    def stop(self):
        self.stopped += 1

    def trigger_receiver(self):
        if self._busy:
            # re-entrant trigger (a handler sends while the receive step runs): serve the send queue now - the caller
            # is about to wait for its block - and re-run the receive step afterwards
            self._again = True
            self._p._process_send_queue()
            return
        self._busy = True
        try:
            while True:
                self._again = False
                self._p._process_data()
                if not self._again:
                    break
        finally:
            self._busy = False

    def queue_block(self, source, block):
        self._p._dispatch_block(source, block)


def frame(stype=0, system=1, stream=0, function=0, w=False, body=b"", session=0, ptype=0):
    """E37 frame bytes, built independently of the library."""
    b2 = (0x80 if w else 0) | (stream & 0x7F)
    hdr = struct.pack(">HBBBBL", session, b2, function, ptype, stype, system)
    return struct.pack(">L", 10 + len(body)) + hdr + body


def make_hsms(mode="passive", sync=False, device_id=0, **kw):
    settings = MemHsmsSettings(connect_mode=HsmsConnectMode.PASSIVE if mode == "passive" else HsmsConnectMode.ACTIVE,
                               device_id=device_id, **kw)
    proto = settings.create_protocol()
    conn = proto._connection           # creates the MemConnection and wires the events
    log = {"message_received": [], "events": []}

    def on_msg(data):
        m = data["message"]
        log["message_received"].append((m.header.system, m.header.stream, m.header.function, m.header.require_response, bytes(m.data)))

    proto.events.message_received += on_msg
    for name in ("connected", "communicating", "disconnected"):
        getattr(proto.events, name).__iadd__((lambda n: (lambda data: log["events"].append(n)))(name))
    if sync:
        proto._thread = SyncDispatcher(proto)
    return proto, conn, log


def scale():
    """Stretch factor for time limits: the passes run real threads and sockets, on a loaded machine everything is slower.
    1 on an idle machine, up to 10 when the run queue is far longer than the number of cores."""
    try:
        return max(1.0, min(10.0, os.getloadavg()[0] / max(1, os.cpu_count() or 1) * 1.5))
    except OSError:  # pragma: no cover
        return 1.0


def wait_until(pred, timeout=3.0, step=0.002):
    timeout = timeout * scale()
    t0 = time.time()
    while time.time() - t0 < timeout:
        if pred():
            return True
        time.sleep(step)
    return pred()


def quiesce(proto, timeout=3.0):
    """Wait until the receiver/dispatcher threads have nothing left to do."""
    def idle():
        th = proto._thread
        q = getattr(th, "_dispatch_queue", None)
        return (q is None or q.qsize() == 0) and not getattr(th, "_receiver_thread_trigger", threading.Event()).is_set()
    ok = wait_until(idle, timeout)
    time.sleep(0.01)
    return ok and wait_until(idle, timeout)


def shutdown(proto, conn):
    try:
        if conn.connected:
            t = threading.Thread(target=conn.close, daemon=True)
            t.start()
            t.join(2.0)
    except Exception:
        pass


# ---------------------------------------------------------------------------------------------- SECS-I
from secsgem.secsi.settings import SecsISettings


class MemSecsISettings(SecsISettings):
    def create_connection(self):
        self.mem_connection = MemConnection(self)
        return self.mem_connection


def make_secsi(device_type=None, sync=False, **kw):
    dt = device_type or secsgem.common.DeviceType.HOST
    settings = MemSecsISettings(port="MEM", device_type=dt, **kw)
    proto = settings.create_protocol()
    conn = proto._connection
    log = {"message_received": [], "events": []}

    def on_msg(data):
        m = data["message"]
        log["message_received"].append((m.header.system, m.header.stream, m.header.function, m.header.require_response, bytes(m.data)))

    proto.events.message_received += on_msg
    if sync:
        proto._thread = SyncDispatcher(proto)
    return proto, conn, log


# ---------------------------------------------------------------------------------------------- virtual timers
class VirtualTimer:
    """threading.Timer replacement (harness process only): expiry is an explicit call of fire()."""

    registry: list = []

    def __init__(self, interval, function, args=None, kwargs=None):
        self.interval = interval
        self.function = function
        self.args = args or ()
        self.kwargs = kwargs or {}
        self.started = False
        self.cancelled = False
        self.fired = False
        self.daemon = True
        self.name = "virtual"
        VirtualTimer.registry.append(self)

    def start(self):
        self.started = True

    def cancel(self):
        self.cancelled = True

    def is_alive(self):
        return self.started and not self.cancelled and not self.fired

    def join(self, timeout=None):
        return None

    def fire(self):
        if self.is_alive():
            self.fired = True
            self.function(*self.args, **self.kwargs)
            return True
        return False


class virtual_timers:
    """Context manager installing VirtualTimer as threading.Timer."""

    def __enter__(self):
        self._real = threading.Timer
        VirtualTimer.registry = []
        threading.Timer = VirtualTimer
        return VirtualTimer

    def __exit__(self, *a):
        threading.Timer = self._real

    @staticmethod
    def pending():
        return [t for t in VirtualTimer.registry if t.is_alive()]


# ---------------------------------------------------------------------------------------------- GEM handlers on HSMS
def make_gem(kind="equipment", initial_control_state="EQUIPMENT_OFFLINE", initial_online="REMOTE", mode="passive", t3=0.2, **kw):
    """Real GemEquipmentHandler / GemHostHandler over the real HsmsProtocol on a MemConnection, synchronous dispatcher.
    Call inside `with virtual_timers():`."""
    import secsgem.gem
    dt = secsgem.common.DeviceType.EQUIPMENT if kind == "equipment" else secsgem.common.DeviceType.HOST
    settings = MemHsmsSettings(connect_mode=HsmsConnectMode.PASSIVE if mode == "passive" else HsmsConnectMode.ACTIVE, device_type=dt, **kw)
    settings.timeouts.t3 = t3
    if kind == "equipment":
        handler = secsgem.gem.GemEquipmentHandler(settings, initial_control_state, initial_online)
    else:
        handler = secsgem.gem.GemHostHandler(settings)
    proto = handler.protocol
    conn = proto._connection
    proto._thread = SyncDispatcher(proto)
    proto._send_select_req_thread = lambda: None
    return handler, proto, conn


def gem_to_communicating(handler, proto, conn):
    """enable, connect, select, answer the S1F13 with COMMACK 0."""
    handler.enable()
    conn.connect()
    conn.feed(frame(stype=1, system=0x0A0B0C0D, session=0xFFFF))
    sent = [f for f in conn.frames() if f["stype"] == 0 and f["stream"] == 1 and f["function"] == 13]
    if sent:
        from spec import e5ref as R
        conn.feed(frame(0, sent[-1]["system"], 1, 14, False, R.encode(("L", [("B", b"\x00"), ("L", [])]))))
    conn.sent.clear()
    return handler.communication_state.current.name



class inline_threads:
    """Context manager: threads started by the given repository modules run their target synchronously in start()
    (used for trigger_collection_events, whose sender thread would otherwise wait for S6F12 in the background)."""

    def __init__(self, *modules):
        self.modules = modules

    def __enter__(self):
        real = threading

        class InlineThread:
            def __init__(self, target=None, args=(), kwargs=None, daemon=None, name=None, group=None):
                self._t, self._a, self._k = target, args, kwargs or {}
                self.daemon = daemon
                self.name = name

            def start(self):
                self._t(*self._a, **self._k)

            def join(self, timeout=None):
                return None

            def is_alive(self):
                return False

        class Shim:
            Thread = InlineThread

            def __getattr__(self, n):
                return getattr(real, n)

        self._saved = [(m, m.threading) for m in self.modules]
        for m in self.modules:
            m.threading = Shim()
        return self

    def __exit__(self, *a):
        for m, t in self._saved:
            m.threading = t
