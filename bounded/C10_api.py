"""C10: bounded pass on real loopback sockets: bytes for which send_data returned True must arrive completely."""
from __future__ import annotations

import socket
import threading
import time

from pyvc.runner import bounded
from bounded.C01_api import Fail
from bounded import harness as H

import secsgem.common
import secsgem.hsms
from secsgem.common.tcp_client_connection import TcpClientConnection
from secsgem.hsms.settings import HsmsSettings


def run_case(sizes, pacing, rcvbuf=None):
    """Send the payloads through a real TcpClientConnection object whose socket is a connected non-blocking loopback
    socket (installed from outside: no receiver thread); the peer reads as `pacing` says until EOF."""
    srv = socket.socket(socket.AF_INET, socket.SOCK_STREAM)
    srv.setsockopt(socket.SOL_SOCKET, socket.SO_REUSEADDR, 1)
    if rcvbuf:
        srv.setsockopt(socket.SOL_SOCKET, socket.SO_RCVBUF, rcvbuf)
    srv.bind(("127.0.0.1", 0))
    srv.listen(1)
    port = srv.getsockname()[1]
    cli = socket.socket(socket.AF_INET, socket.SOCK_STREAM)
    cli.connect(("127.0.0.1", port))
    peer, _ = srv.accept()
    cli.setblocking(False)
    conn = TcpClientConnection(HsmsSettings(port=port))
    conn._sock = cli
    received = bytearray()
    done = threading.Event()

    def reader():
        delay, chunk = pacing
        if delay:
            time.sleep(delay)
        peer.settimeout(10)
        try:
            while True:
                b = peer.recv(chunk)
                if not b:
                    break
                received.extend(b)
                if delay and chunk < 4096:
                    time.sleep(0.0005)
        except Exception:
            pass
        done.set()

    t = threading.Thread(target=reader, daemon=True)
    t.start()
    accepted = bytearray()
    results = []
    for n, size in enumerate(sizes):
        payload = bytes(((i * 131 + n * 7) & 0xFF) for i in range(size)) if size < 70000 else (bytes(range(256)) * (size // 256 + 1))[:size]
        box = {}
        th = threading.Thread(target=lambda: box.setdefault("r", conn.send_data(payload)), daemon=True)
        th.start()
        # send_data legitimately lasts as long as the peer needs to drain the payload: the limit follows the reader's pace
        th.join((20 + pacing[0] + (size / max(1, pacing[1])) * 0.004) * H.scale())
        ok = box.get("r")
        results.append(ok)
        if ok:
            accepted.extend(payload)
        if ok is None:
            break
    cli.close()
    done.wait(20 * H.scale())
    peer.close()
    srv.close()
    return bytes(accepted), bytes(received), results


def run_lifecycle(size, pacing):
    """Full life cycle of the real TcpClientConnection: enable() connects, send_data, disable(); the peer reads until EOF."""
    srv = socket.socket(socket.AF_INET, socket.SOCK_STREAM)
    srv.setsockopt(socket.SOL_SOCKET, socket.SO_REUSEADDR, 1)
    srv.setsockopt(socket.SOL_SOCKET, socket.SO_RCVBUF, 16384)   # small window: most of a large message is still in
    srv.bind(("127.0.0.1", 0))                                    # the sender's queue when the connection is disabled
    srv.listen(1)
    port = srv.getsockname()[1]
    conn = TcpClientConnection(HsmsSettings(port=port))
    up = threading.Event()
    conn.on_connected.register(lambda _d: up.set())
    conn.enable()
    srv.settimeout(5)
    peer, _ = srv.accept()
    up.wait(5)
    received = bytearray()
    done = threading.Event()

    def reader():
        delay, chunk = pacing
        if delay:
            time.sleep(delay)
        peer.settimeout(10)
        try:
            while True:
                b = peer.recv(chunk)
                if not b:
                    break
                received.extend(b)
        except Exception:
            pass
        done.set()

    threading.Thread(target=reader, daemon=True).start()
    payload = (bytes(range(256)) * (size // 256 + 1))[:size]
    box = {}
    th = threading.Thread(target=lambda: box.setdefault("r", conn.send_data(payload)), daemon=True)
    th.start()
    th.join(20 * H.scale())
    d = threading.Thread(target=conn.disable, daemon=True)
    d.start()
    d.join(10 * H.scale())
    done.wait(15)
    try:
        peer.close()
        srv.close()
    except Exception:
        pass
    return box.get("r"), payload, bytes(received), not d.is_alive()


def run_replaced_connection(size=512 * 1024):
    """History: a passive (listening) connection is in the middle of send_data() to peer A, which has stopped reading; A
    half-closes; the library closes that connection and listens again; peer B connects.  The send belongs to the connection
    with A: it must report failure (or deliver everything to A) - never success with part of the bytes on B's connection.
    Returns (result of send_data | 'raised:<type>' | None when it did not return, bytes A got, bytes B got, payload)."""
    import secsgem.hsms as _hsms
    port = free_port()
    settings = _hsms.HsmsSettings(address="127.0.0.1", port=port, connect_mode=_hsms.HsmsConnectMode.PASSIVE)
    conn = settings.create_connection()
    connected = threading.Event()

    def on_connected(event):
        event["source"]._sock.setsockopt(socket.SOL_SOCKET, socket.SO_SNDBUF, 16384)      # a small send buffer keeps the payload small
        connected.set()

    conn.on_connected.register(on_connected)
    conn.enable()
    peers = []

    def connect():
        end = time.time() + 10 * H.scale()
        while True:
            sk = socket.socket(socket.AF_INET, socket.SOCK_STREAM)
            sk.setsockopt(socket.SOL_SOCKET, socket.SO_RCVBUF, 8192)
            sk.settimeout(2)
            try:
                sk.connect(("127.0.0.1", port))
                peers.append(sk)
                return sk
            except OSError:
                sk.close()
                if time.time() > end:
                    return None
                time.sleep(0.02)

    try:
        peer_a = connect()
        if peer_a is None or not connected.wait(5 * H.scale()):
            return "setup-failed", b"", b"", b""
        data = bytes((i * 7 + (i >> 8)) & 0xFF for i in range(4096)) * (size // 4096)
        box = {}

        def sender():
            try:
                box["r"] = conn.send_data(data)
            except Exception as exc:  # noqa: BLE001
                box["r"] = "raised:" + type(exc).__name__

        th = threading.Thread(target=sender, daemon=True)
        th.start()
        got_a = bytearray()
        try:
            while len(got_a) < 16 * 1024:
                got_a += peer_a.recv(65536)
        except OSError:
            pass
        time.sleep(1.0)
        peer_a.shutdown(socket.SHUT_WR)
        peer_b = None
        end = time.time() + 10 * H.scale()
        while peer_b is None and time.time() < end:
            try:
                peer_b = socket.create_connection(("127.0.0.1", port), timeout=0.2)
                peers.append(peer_b)
            except OSError:
                time.sleep(0.005)
        got_b = bytearray()
        for sk, buf, tmo in ((peer_b, got_b, 1.5), (peer_a, got_a, 0.5)):
            if sk is None:
                continue
            sk.settimeout(tmo)
            try:
                while True:
                    chunk = sk.recv(1 << 20)
                    if not chunk:
                        break
                    buf += chunk
            except OSError:
                pass
        th.join(20 * H.scale())
        return (None if th.is_alive() else box.get("r")), bytes(got_a), bytes(got_b), data
    finally:
        for sk in peers:
            try:
                sk.close()
            except OSError:
                pass
        t = threading.Thread(target=conn.disable, daemon=True)
        t.start()
        t.join(5)


def free_port():
    s = socket.socket()
    s.bind(("127.0.0.1", 0))
    p = s.getsockname()[1]
    s.close()
    return p


@bounded("C10", "api-loopback")
def bnd_loopback(tier, seed):
    fails = Fail()
    n_eval = 0
    distinct = set()
    big = 8 * 1024 * 1024
    cases = [([1], (0, 65536)), ([14, 100, 1000], (0, 65536)), ([65536], (0, 100)), ([262144], (0.3, 65536)), ([1024 * 1024], (0.5, 1024)),
             ([big], (0.5, 65536)), ([big, 10, big // 2], (1.0, 4096)), ([3 * 1024 * 1024], (0, 65536))]
    if tier == "thorough":
        cases += [([big * 2], (2.0, 512)), ([1] * 200, (0, 1)), ([big, big], (0.2, 8192))]
    for sizes, pacing in cases:
        n_eval += 1
        distinct.add((tuple(sizes), pacing))
        accepted, received, results = run_case(sizes, pacing)
        if None in results:
            fails.add("send-returns", {"sizes": sizes, "pacing": pacing}, "send_data did not return although the peer had time to drain the payload (20 s + the reader's pace)")
        elif received != accepted:
            k = next((i for i in range(min(len(received), len(accepted))) if received[i] != accepted[i]), min(len(received), len(accepted)))
            fails.add("success-means-delivered", {"sizes": sizes, "reader_delay_s": pacing[0], "read_chunk": pacing[1], "results": results,
                                                  "bytes_reported_sent": len(accepted), "bytes_arrived": len(received), "first_difference_at": k},
                      "send_data returned True but the peer did not receive exactly those bytes")
    for size, pacing in [(1000, (0, 65536)), (65536, (0.3, 4096)), (262144, (2.0, 4096)), (1024 * 1024, (2.0, 65536))]:
        n_eval += 1
        distinct.add(("lifecycle", size, pacing))
        ok, payload, received, disabled = run_lifecycle(size, pacing)
        if ok and received != payload:
            fails.add("success-means-delivered-after-disable", {"size": size, "reader_delay_s": pacing[0], "read_chunk": pacing[1],
                                                                "bytes_arrived": len(received)},
                      "send_data returned True, the connection was then disabled, and the peer did not receive all bytes")
        if ok is None:
            fails.add("send-returns", {"size": size, "pacing": pacing, "lifecycle": True}, "send_data did not return although the peer had time to drain the payload (20 s + the reader's pace)")
    # history: the connection is replaced while a send is in progress (D41)
    n_eval += 1
    distinct.add(("replaced-connection", 512 * 1024))
    res, got_a, got_b, payload = run_replaced_connection()
    if res is True and got_a != payload:
        fails.add("success-means-delivered", {"history": "peer A stalls and half-closes during the send, the library listens again, peer B connects", "result": res,
                                              "payload_bytes": len(payload), "bytes_arrived_at_the_peer_of_the_send": len(got_a), "bytes_arrived_at_the_next_peer": len(got_b)},
                  "send_data returned True but the peer of this send did not receive all bytes (the rest went to the next connection)")
    elif got_b and res != "setup-failed":
        fails.add("no-bytes-on-another-connection", {"result": res, "bytes_arrived_at_the_next_peer": len(got_b)}, "bytes of a send begun on one connection were written to the next connection")
    return {"evaluations": n_eval, "distinct": len(distinct), "failures": list(fails),
            "scope": "payloads 1 B .. 8 MiB (thorough 16 MiB) on loopback sockets, peer reading immediately / after a delay / in small chunks; one history with the connection replaced during a send",
            "rule": "distinct = (payload sizes, reader pacing)", "samples": [{"sizes": [8388608], "pacing": [0.5, 65536]}]}
