"""C16: bounded / exhaustive passes for SECS-I splitting, reassembly and corruption detection (real classes)."""
from __future__ import annotations

import random
import struct

from pyvc.runner import bounded, fd
from bounded import harness as H
from bounded.C01_api import Fail
from spec import e5ref as R

import secsgem.common
from secsgem.secsi.header import SecsIHeader
from secsgem.secsi.message import SecsIBlock, SecsIMessage


def ref_block(device, r, w, stream, function, block, e, system, data):
    hdr = struct.pack(">HBBHI", device | (0x8000 if r else 0), stream | (0x80 if w else 0), function, block | (0x8000 if e else 0), system)
    body = hdr + data
    return bytes([len(body)]) + body + struct.pack(">H", sum(body) & 0xFFFF)


def lengths(tier, rnd):
    base = [0, 1, 2, 243, 244, 245, 487, 488, 489, 731, 732, 733, 244 * 10, 244 * 10 + 1, 244 * 255, 244 * 256, 244 * 256 + 7]
    base += [rnd.randint(0, 5000) for _ in range(10)]
    if tier == "thorough":
        base += [244 * 32767, 244 * 32767 - 1, 244 * 32766 + 1, 244 * 4000]
    else:
        base += [244 * 2000 + 5]
    return base


@bounded("C16", "api-split-reassemble")
def bnd_split(tier, seed):
    rnd = random.Random(seed + 16)
    fails = Fail()
    n_eval = 0
    distinct = set()
    headers = [dict(system=0, device_id=0, stream=0, function=0, require_response=False, from_equipment=False),
               dict(system=0xFFFFFFFF, device_id=0x7FFF, stream=127, function=255, require_response=True, from_equipment=True),
               dict(system=0x01020304, device_id=0x1234, stream=6, function=11, require_response=True, from_equipment=False)]
    for n in lengths(tier, rnd):
        body = bytes((i * 31 + n) & 0xFF for i in range(n))
        hd = headers[n % 3]
        n_eval += 1
        distinct.add(("split", min(n, 244 * 3) if n % 244 else ("mult", min(n // 244, 5))))
        try:
            msg = SecsIMessage(SecsIHeader(**hd), body)
            blocks = msg.blocks
        except Exception as exc:
            fails.add("split", {"length": n}, f"{type(exc).__name__}: {exc}")
            continue
        want_n = max(1, -(-n // 244))
        ok = len(blocks) == want_n
        problems = []
        if not ok:
            problems.append(f"{len(blocks)} blocks, expected {want_n}")
        else:
            for i, b in enumerate(blocks):
                h = b.header
                if len(b.data) > 244 or b.data != body[244 * i:244 * (i + 1)]:
                    problems.append(f"block {i + 1}: wrong data slice")
                if h.block != i + 1 or h.last_block != (i == want_n - 1):
                    problems.append(f"block {i + 1}: number {h.block} end-bit {h.last_block}")
                if (h.system, h.device_id, h.stream, h.function, h.require_response, h.from_equipment) != (
                        hd["system"], hd["device_id"], hd["stream"], hd["function"], hd["require_response"], hd["from_equipment"]):
                    problems.append(f"block {i + 1}: header fields changed")
                if len(problems) > 3:
                    break
        if problems:
            fails.add("split-blocks", {"length": n, "header": hd}, "; ".join(problems[:3]))
            continue
        # encode each block (vs independent reference), decode it back, reassemble through the real protocol
        proto, conn, log = H.make_secsi(sync=True)
        other = SecsIMessage(SecsIHeader(system=hd["system"] ^ 1, device_id=1, stream=1, function=1, require_response=True), b"")
        try:
            seq = list(blocks)
            if len(seq) > 1:   # interleave a block of another transaction after the first block
                seq = [seq[0]] + list(other.blocks) + seq[1:]
            limit = 400
            done = []
            orig = proto._on_connection_message_received
            proto._on_connection_message_received = lambda src, m: done.append(m)
            for b in seq if len(seq) <= limit else seq[:limit // 2] + seq[-limit // 2:]:
                enc = b.encode()
                h = b.header
                ref = ref_block(h.device_id, h.from_equipment, h.require_response, h.stream, h.function, h.block, h.last_block, h.system, b.data)
                if enc != ref:
                    fails.add("block-encode-exact", {"length": n, "block": h.block, "got": enc[:16].hex(), "want": ref[:16].hex()}, "block bytes differ from E4")
                    break
                dec = SecsIBlock.decode(enc)
                if dec is None or dec.data != b.data or dec.header.encode() != h.encode():
                    fails.add("block-decode-inverse", {"length": n, "block": h.block}, "decode(encode(block)) differs")
                    break
                if len(seq) <= limit:
                    proto._dispatch_block(proto, dec)
            if len(seq) <= limit:
                mine = [m for m in done if m.header.system == hd["system"]]
                if len(mine) != 1 or mine[0].data != body or (mine[0].header.stream, mine[0].header.function, mine[0].header.device_id,
                                                                mine[0].header.require_response, mine[0].header.from_equipment) != (
                        hd["stream"], hd["function"], hd["device_id"], hd["require_response"], hd["from_equipment"]):
                    fails.add("reassemble", {"length": n, "delivered": len(mine), "got_len": len(mine[0].data) if mine else None},
                              "reassembly (interleaved with another transaction) does not yield the original header and body exactly once")
                if len(seq) > 1 and len([m for m in done if m.header.system == (hd["system"] ^ 1)]) != 1:
                    fails.add("reassemble-other", {"length": n}, "the interleaved single-block message was not delivered exactly once")
        finally:
            pass
    return {"evaluations": n_eval, "distinct": len(distinct), "failures": list(fails),
            "scope": "body lengths 0,1,243..245,487..489,731..733, multiples of 244 up to 244*2000 (thorough: up to the 32767-block limit), random lengths; 3 header value sets; interleaving with a second transaction",
            "rule": "distinct = (length class)", "samples": [{"length": 245, "blocks": 2}]}


@bounded("C16", "api-corruption")
def bnd_corruption(tier, seed):
    """Every single-byte corruption (every position x every other byte value) of sample encoded blocks is rejected."""
    rnd = random.Random(seed + 161)
    fails = Fail()
    n_eval = 0
    samples = [ref_block(1, False, True, 1, 1, 1, True, 7, b""), ref_block(0x7FFF, True, False, 127, 255, 0x7FFF, False, 0xFFFFFFFF, bytes(range(244))),
               ref_block(5, True, True, 6, 11, 2, True, 99, bytes(rnd.getrandbits(8) for _ in range(17)))]
    accepted = 0
    for enc in samples:
        assert SecsIBlock.decode(enc) is not None
        positions = range(len(enc)) if (tier == "thorough" or len(enc) < 60) else list(range(0, 14)) + list(range(14, len(enc), 7)) + [len(enc) - 2, len(enc) - 1]
        for p in positions:
            for v in range(256):
                if v == enc[p]:
                    continue
                n_eval += 1
                bad = enc[:p] + bytes([v]) + enc[p + 1:]
                try:
                    r = SecsIBlock.decode(bad)
                except Exception:
                    r = None
                if r is not None:
                    accepted += 1
                    fails.add("corrupted-block-rejected", {"block": enc[:14].hex(), "position": p, "value": v}, "a block with one altered byte was accepted as valid")
    return {"evaluations": n_eval, "distinct": n_eval, "failures": list(fails),
            "scope": "3 encoded blocks (0, 17, 244 data bytes) x positions x all 255 other byte values", "rule": "distinct = (block, position, value)",
            "samples": [{"position": 0, "value": 0}]}
