"""C06: replies reach exactly their requester; other messages are delivered once, in order - also after reconnects."""
from __future__ import annotations

import ast
import inspect
import random
import sys
import textwrap
import threading
import time

from pyvc.runner import bounded, fd
from bounded import harness as H
from bounded.C01_api import Fail
from spec import e5ref as R

from secsgem.common.protocol import Protocol
from secsgem.common.protocol_dispatcher import ProtocolDispatcher


def selected_protocol(sync=False):
    proto, conn, log = H.make_hsms(sync=sync)
    proto.enable()
    conn.connect()
    conn.feed(H.frame(stype=1, system=0x0BADF00D, session=0xFFFF))
    H.wait_until(lambda: proto.connection_state.current.name == "CONNECTED_SELECTED", 2.0)
    conn.sent.clear()
    return proto, conn, log


@fd("C06", "system-counter-exclusion")
def fd_counter_lock():
    """O37 guarded-by obligation: the read-modify-write of the system counter and the value handed out belong to one
    critical section.  A violation is replayed by a forced interleaving (sys.settrace): two callers get the same id."""
    src = textwrap.dedent(inspect.getsource(Protocol.get_next_system_counter))
    node = ast.parse(src).body[0]
    guarded = True
    returns_shared = False

    def walk(n, g):
        nonlocal guarded, returns_shared
        for c in ast.iter_child_nodes(n):
            gg = g
            if isinstance(c, ast.With) and any("lock" in ast.unparse(i.context_expr).lower() for i in c.items):
                gg = True
            if isinstance(c, (ast.Assign, ast.AugAssign)):
                tg = c.targets if isinstance(c, ast.Assign) else [c.target]
                if any(isinstance(t, ast.Attribute) and t.attr == "_system_counter" for t in tg) and not gg:
                    guarded = False
            if isinstance(c, ast.Return) and c.value is not None and "_system_counter" in ast.unparse(c.value) and not gg:
                returns_shared = True
            walk(c, gg)
    walk(node, False)
    witness = None
    ok = guarded and not returns_shared
    if not ok:
        # suspend thread A where the critical section is left open: at the unguarded return if there is one, else right after the increment
        ret_line = None
        if returns_shared:
            first = inspect.getsourcelines(Protocol.get_next_system_counter)[1]
            rets = [n.lineno for n in ast.walk(node) if isinstance(n, ast.Return)]
            ret_line = first + rets[-1] - 1 if rets else None
        witness = forced_duplicate_ids(ret_line)
        ok = witness is not None and witness["a"] != witness["b"]
    return {"obligations": [{"name": "counter-update-is-atomic", "ok": ok, "witness": dict(witness or {}, guarded=guarded, returns_shared_field=returns_shared),
                             "detail": "get_next_system_counter updates and re-reads the shared counter outside any lock: two concurrent callers received the same system bytes"}],
            "domain": "get_next_system_counter (AST) + one forced two-thread schedule", "size": 1, "exhaustive": False, "samples": [{"schedule": "A after increment | B whole call | A return"}]}


def forced_duplicate_ids(stop_line=None):
    proto, conn, log = H.make_hsms(sync=True)
    proto._system_counter = 100
    code = Protocol.get_next_system_counter.__code__
    src, first = inspect.getsourcelines(Protocol.get_next_system_counter)
    stop = stop_line or next((first + i for i, l in enumerate(src) if "if self._system_counter >" in l), None)
    if stop is None:
        return None
    at, go = threading.Event(), threading.Event()
    out = {}

    def tracer(frame, event, arg):
        if frame.f_code is code:
            def local(frame, event, arg):
                if event == "line" and frame.f_lineno == stop and not at.is_set():
                    at.set()
                    go.wait(5)
                return local
            return local
        return None

    def a():
        sys.settrace(tracer)
        try:
            out["a"] = proto.get_next_system_counter()
        finally:
            sys.settrace(None)
    ta = threading.Thread(target=a, daemon=True)
    ta.start()
    if not at.wait(5):
        return None
    box = {}
    tb = threading.Thread(target=lambda: box.setdefault("b", proto.get_next_system_counter()), daemon=True)
    tb.start()
    tb.join(2.0)          # (B may legitimately block on the lock while A is suspended inside the critical section)
    go.set()
    tb.join(5 * H.scale())
    out["b"] = box.get("b")
    ta.join(5 * H.scale())
    out["schedule"] = "A: counter += 1 | B: whole call | A: wrap check, return counter"
    return out


@fd("C06", "dispatcher-life-cycle")
def fd_dispatcher():
    """O41/O42: after the link is lost every thread started for it is stopped, so that after a reconnect there is exactly
    one consumer of the dispatch queue (messages handled one at a time, in order)."""
    obs = []
    proto, conn, log = H.make_hsms()
    try:
        proto.enable()
        conn.connect()
        th = proto._thread
        first = (th._receiver_thread, th._dispatcher_thread)
        conn.close()
        time.sleep(0.05)
        th._receiver_thread_trigger.set()
        th._dispatcher_thread_trigger.set()
        time.sleep(0.15)
        alive = [t.name.split("_")[2] for t in first if t is not None and t.is_alive()]
        obs.append({"name": "threads-stopped-after-disconnect", "ok": not alive, "witness": {"still_alive": alive},
                    "detail": "a protocol thread of the closed connection is still running"})
        # reconnect and observe concurrency of handlers
        conn.connect()
        conn.feed(H.frame(stype=1, system=1, session=0xFFFF))
        H.wait_until(lambda: proto.connection_state.current.name == "CONNECTED_SELECTED", 2.0)
        active = [0]
        peak = [0]
        order = []
        gate = threading.Event()

        def slow(data):
            active[0] += 1
            peak[0] = max(peak[0], active[0])
            order.append(data["message"].header.system)
            gate.wait(0.4)
            active[0] -= 1
        proto.events.message_received += slow
        for s in (11, 12, 13):
            conn.feed(H.frame(0, s, 1, 1, True, b""))
            time.sleep(0.05)
        time.sleep(0.2)
        gate.set()
        H.wait_until(lambda: len(order) == 3, 3.0)
        obs.append({"name": "one-at-a-time-after-reconnect", "ok": peak[0] <= 1, "witness": {"max_concurrent_handlers": peak[0], "order": order},
                    "detail": "after a reconnect two inbound messages were handed to the application concurrently (a stale dispatcher thread of the previous connection is still consuming)"})
        obs.append({"name": "in-order-after-reconnect", "ok": order == [11, 12, 13], "witness": {"order": order}, "detail": "messages were not delivered in arrival order after a reconnect"})
    finally:
        H.shutdown(proto, conn)
    return {"obligations": obs, "domain": "connect / close / connect life cycle of the real ProtocolDispatcher", "size": 3, "exhaustive": False, "samples": [{"history": "connect, close, connect, 3 messages"}]}


@fd("C06", "transaction-bookkeeping")
def fd_bookkeeping():
    """O38/O39: the response queue of a request exists before the request is on the wire and is removed on every exit path
    (reply, timeout, failed send); the caller gets the message from its own queue."""
    obs = []
    with H.virtual_timers():
        # reply arrives
        proto, conn, log = selected_protocol(sync=True)
        try:
            proto._settings.timeouts.t3 = 0.05
            seen = {}

            def peer(fr):
                if fr["stype"] == 0 and fr["w"]:
                    seen["registered_when_sent"] = fr["system"] in proto._response_queues
                    return H.frame(0, fr["system"], fr["stream"], fr["function"] + 1, False, R.encode(("L", [])))
            conn.auto_reply = peer
            f = proto._settings.streams_functions.function(1, 1)()
            rsp = proto.send_and_waitfor_response(f)
            obs.append({"name": "queue-registered-before-send", "ok": seen.get("registered_when_sent") is True, "witness": seen, "detail": "the response queue was not registered when the request went out"})
            obs.append({"name": "reply-returned-to-caller", "ok": rsp is not None and (rsp.header.stream, rsp.header.function) == (1, 2), "witness": {"got": str(rsp)[:80]}, "detail": "the caller did not get its reply"})
            obs.append({"name": "queue-removed-after-reply", "ok": not proto._response_queues, "witness": {"left": list(proto._response_queues)}, "detail": "a response queue was left behind"})
            conn.auto_reply = None
            rsp = proto.send_and_waitfor_response(f)
            obs.append({"name": "timeout-returns-none-and-cleans-up", "ok": rsp is None and not proto._response_queues, "witness": {"got": str(rsp)[:60], "left": list(proto._response_queues)},
                        "detail": "after a timeout the caller must get None and the queue must be removed"})
            conn.fail_sends = True
            rsp = proto.send_and_waitfor_response(f)
            obs.append({"name": "failed-send-returns-none-and-cleans-up", "ok": rsp is None and not proto._response_queues, "witness": {"got": str(rsp)[:60], "left": list(proto._response_queues)},
                        "detail": "after a failed send the caller must get None and the queue must be removed"})
        finally:
            conn.fail_sends = False
            H.shutdown(proto, conn)
    return {"obligations": obs, "domain": "exit paths of send_and_waitfor_response (reply, timeout, failed send)", "size": len(obs), "exhaustive": True, "samples": [{"path": "timeout"}]}


@bounded("C06", "concurrent-requesters")
def bnd_concurrent(tier, seed):
    """N application threads with requests outstanding, replies arriving in a random permutation (some late, some missing),
    unrelated primaries interleaved: every caller gets exactly its own reply or a timeout; the rest is delivered once, in
    order.  Real HsmsProtocol, real dispatcher threads."""
    rnd = random.Random(seed + 6)
    fails = Fail()
    n_eval = 0
    distinct = set()
    rounds = 6 if tier == "quick" else 40
    for rd in range(rounds):
        n = rnd.choice((2, 5, 12, 30))
        proto, conn, log = selected_protocol()
        # T3 must not expire for a reply that is merely slow on a loaded machine (that would be the library's documented
        # timeout, not a routing error): the limit follows the load; only the deliberately missing replies run into it
        t3 = 1.5 * H.scale()
        proto._settings.timeouts.t3 = t3
        try:
            sent = []
            lock = threading.Lock()

            def peer(fr):
                if fr["stype"] == 0 and fr["w"] and fr["stream"] == 1 and fr["function"] == 3:
                    with lock:
                        sent.append((fr["system"], fr["body"]))
                return None
            conn.auto_reply = peer
            results = {}

            def caller(k):
                f = proto._settings.streams_functions.function(1, 3)([k])
                rsp = proto.send_and_waitfor_response(f)
                results[k] = None if rsp is None else (rsp.header.system, bytes(rsp.data))
            threads = [threading.Thread(target=caller, args=(k,), daemon=True) for k in range(n)]
            for t in threads:
                t.start()
            H.wait_until(lambda: len(sent) == n, 5.0)
            t_sent = time.time()
            with lock:
                order = list(sent)
            systems = [s for s, _ in order]
            n_eval += 1
            distinct.add((n, rd))
            if len(set(systems)) != len(systems) or len(systems) != n:
                fails.add("distinct-system-bytes", {"callers": n, "systems": systems[:12]}, "two outstanding requests carry the same system bytes")
            rnd.shuffle(order)
            missing = set(s for s, _ in order[: n // 4]) if n > 2 else set()
            unrelated = []
            for i, (s, body) in enumerate(order):
                if i % 3 == 0:
                    u = 0x70000000 + i
                    unrelated.append(u)
                    conn.feed(H.frame(0, u, 1, 1, True, b""))
                if s in missing:
                    continue
                # the reply echoes the request body so that a mix-up is visible in the payload as well
                conn.feed(H.frame(0, s, 1, 4, False, body))
            fed_in_time = time.time() - t_sent < t3 * 0.6      # all replies were on their way well before any T3 could expire
            for t in threads:
                t.join(t3 + 4.0 * H.scale())
            if not fed_in_time:
                continue        # this round says nothing about routing: replies may legitimately have met expired requests
            body_of = dict(sent)
            sys_of = {}
            for s, b in sent:
                k = R.parse(b)[0][1][0][1][0]
                sys_of[k] = s
            for k in range(n):
                got = results.get(k, "no-return")
                s = sys_of.get(k)
                if s in missing:
                    if got is not None:
                        fails.add("missing-reply-times-out", {"callers": n, "caller": k, "got": repr(got)[:60]}, "a caller whose reply never arrived did not get a timeout (None)")
                elif got != (s, body_of.get(s)):
                    fails.add("caller-gets-own-reply", {"callers": n, "caller": k, "expected_system": s, "got": repr(got)[:80]}, "a caller did not receive exactly the reply with its own system bytes")
            H.quiesce(proto, 1.0)
            deliv = [m[0] for m in log["message_received"]]
            if deliv != unrelated:
                fails.add("others-delivered-once-in-order", {"callers": n, "delivered": deliv[:12], "expected": unrelated[:12]}, "unrelated inbound messages were not handed to the application exactly once in arrival order")
            if proto._response_queues:
                fails.add("no-queue-left-behind", {"left": list(proto._response_queues)[:6]}, "response queues were left behind")
        finally:
            H.shutdown(proto, conn)
    return {"evaluations": n_eval, "distinct": len(distinct), "failures": list(fails),
            "scope": f"{rounds} rounds with 2..30 concurrent requesters, replies in random permutation with a quarter missing, unrelated primaries interleaved",
            "rule": "distinct = (number of requesters, round)", "samples": [{"callers": 5, "missing": 1}]}


@fd("C06", "allocator-frame")
def fd_allocator_frame():
    """Frame condition of the allocator contract: in the whole package only __init__ and get_next_system_counter write
    Protocol._system_counter (so every id in use was handed out by the verified function)."""
    import os
    import secsgem
    root = os.path.dirname(secsgem.__file__)
    writes = []
    for dp, _, files in os.walk(root):
        for fn in files:
            if not fn.endswith(".py"):
                continue
            path = os.path.join(dp, fn)
            tree = ast.parse(open(path, encoding="utf-8").read())
            for func in ast.walk(tree):
                if isinstance(func, (ast.FunctionDef, ast.AsyncFunctionDef)):
                    for node in ast.walk(func):
                        tg = []
                        if isinstance(node, ast.Assign):
                            tg = node.targets
                        elif isinstance(node, (ast.AugAssign, ast.AnnAssign)):
                            tg = [node.target]
                        for t in tg:
                            if isinstance(t, ast.Attribute) and t.attr == "_system_counter":
                                writes.append((os.path.relpath(path, root), func.name, node.lineno))
                        if isinstance(node, ast.Call) and isinstance(node.func, ast.Name) and node.func.id == "setattr" and len(node.args) > 1 \
                                and isinstance(node.args[1], ast.Constant) and node.args[1].value == "_system_counter":
                            writes.append((os.path.relpath(path, root), func.name, node.lineno))
    outside = sorted({w for w in writes if w[1] not in ("__init__", "get_next_system_counter")})
    return {"obligations": [{"name": "only-the-allocator-writes-the-counter", "ok": not outside and len(writes) >= 2, "witness": {"writes": sorted(set(writes)), "outside": outside},
                             "detail": "Protocol._system_counter is written outside __init__/get_next_system_counter: ids handed out earlier can be handed out again"}],
            "domain": "all assignments to _system_counter in the package", "size": len(writes), "exhaustive": True, "samples": [list(w) for w in writes[:3]]}


@fd("C06", "delivery-after-handler-failure")
def fd_handler_failure():
    """Every inbound data message is handed to the application exactly once, in order - also when a handler raises and when
    a later message re-uses the system bytes of an earlier one (HSMS single-block and SECS-I multi-block reassembly)."""
    obs = []
    for kind in ("hsms", "secsi"):
        if kind == "hsms":
            proto, conn, log = selected_protocol(sync=True)
        else:
            proto, conn, log = H.make_secsi(sync=True)
            proto.enable()
            conn.connect()
        try:
            seen = []

            def handler(data, seen=seen):
                m = data["message"]
                seen.append((m.header.system, bytes(m.data)))
                if len(seen) == 1:
                    raise RuntimeError("application callback failed")
            proto.events.message_received += handler
            bodies = [R.encode(("L", [("B", b"\x01"), ("A", "first")])), R.encode(("L", [("B", b"\x01"), ("A", "second")])),
                      R.encode(("L", [("B", b"\x01"), ("A", "x" * 600)])), R.encode(("L", [("B", b"\x01"), ("A", "fourth")]))]
            systems = [5, 5, 6, 5]
            if kind == "hsms":
                for s, b in zip(systems, bodies):
                    conn.feed(H.frame(0, s, 10, 3, False, b))
            else:
                from secsgem.secsi.header import SecsIHeader
                from secsgem.secsi.message import SecsIMessage
                for s, b in zip(systems, bodies):
                    for blk in SecsIMessage(SecsIHeader(s, 0, 10, 3), b).blocks:
                        proto._dispatch_block(proto, blk)
            want = list(zip(systems, bodies))
            obs.append({"name": f"{kind}.once-in-order-despite-handler-exception", "ok": seen == want,
                        "witness": {"delivered": [(s, len(b)) for s, b in seen], "expected": [(s, len(b)) for s, b in want]},
                        "detail": "after a handler exception, messages re-using the same system bytes were lost, duplicated or merged"})
        finally:
            H.shutdown(proto, conn)
    return {"obligations": obs, "domain": "HSMS and SECS-I: 4 messages, first handler call raises, system bytes re-used", "size": 2, "exhaustive": False, "samples": [{"systems": [5, 5, 6, 5]}]}
