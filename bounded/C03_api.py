"""C03: the catalogue of stream/functions - exhaustive tables (FD) and a generated round trip for all 134 functions (BND)."""
from __future__ import annotations

import inspect
import os
import random

import yaml

from pyvc.runner import bounded, fd
from bounded.C01_api import Fail
from spec import e5ref as R

import secsgem.secs
import secsgem.secs.data_items as DI
import secsgem.secs.variables as V
from secsgem.secs.functions._all import secs_streams_functions
from secsgem.secs.functions.streams_functions import StreamsFunctions
from secsgem.secs.variables import functions as VF


def catalogue():
    return list(secs_streams_functions)


def load_yaml():
    path = os.path.join(os.path.dirname(secsgem.secs.__file__), "functions.yaml")
    with open(path, encoding="utf-8") as fh:
        return yaml.safe_load(fh)


@fd("C03", "catalogue-tables")
def fd_tables():
    obs = []
    cat = catalogue()
    sf = StreamsFunctions()
    keys = [(c.stream, c.function) for c in cat]
    dup = sorted({k for k in keys if keys.count(k) > 1})
    obs.append({"name": "stream-function-unique", "ok": not dup and len(cat) == 134, "witness": {"duplicates": dup, "count": len(cat)}, "detail": "(stream, function) is not unique in the catalogue / not 134 functions"})
    wrong = [f"S{c.stream}F{c.function}" for c in cat if sf.function(c.stream, c.function) is not c]
    obs.append({"name": "lookup-by-numbers-returns-the-class", "ok": not wrong, "witness": {"functions": wrong[:5]}, "detail": "StreamsFunctions.function(s, f) does not return the catalogued class"})
    miss = [k for k in ((0, 1), (1, 99), (99, 1), (127, 255)) if sf.function(*k) is not None]
    obs.append({"name": "lookup-of-uncatalogued-numbers", "ok": not miss, "witness": {"found": miss}, "detail": "an uncatalogued stream/function is found"})
    # containers are independent: updating one (documented customisation) must not change the catalogue others see
    from secsgem.secs.functions.base import SecsStreamFunction
    import secsgem.hsms

    class VendorS01F12(SecsStreamFunction):
        _stream = 1
        _function = 12
        _data_format = "< MDLN >"
    n_before = len(secs_streams_functions)
    settings_before = secsgem.hsms.HsmsSettings()
    custom = StreamsFunctions()
    custom.update(VendorS01F12)
    other = StreamsFunctions()
    settings_after = secsgem.hsms.HsmsSettings()
    leaked = [n for n, c in (("new container", other), ("existing settings", settings_before.streams_functions), ("new settings", settings_after.streams_functions))
              if c.function(1, 12) is VendorS01F12]
    restore = [c for c in secs_streams_functions if c is VendorS01F12]
    obs.append({"name": "containers-do-not-share-the-catalogue", "ok": not leaked and not restore and len(secs_streams_functions) == n_before and custom.function(1, 12) is VendorS01F12,
                "witness": {"leaked_into": leaked, "global_list_changed": bool(restore) or len(secs_streams_functions) != n_before},
                "detail": "StreamsFunctions.update() on one container changed what other containers (or the global catalogue) resolve S1F12 to"})
    if restore:     # undo the damage for the rest of this process
        from secsgem.secs.functions import SecsS01F12
        secs_streams_functions[:] = [SecsS01F12 if c is VendorS01F12 else c for c in secs_streams_functions]
    # name encodes the numbers
    bad = [c.__name__ for c in cat if c.__name__ != f"SecsS{c.stream:02d}F{c.function:02d}"]
    obs.append({"name": "class-name-matches-numbers", "ok": not bad, "witness": {"classes": bad[:5]}, "detail": "class name and stream/function numbers disagree"})
    # YAML agreement
    y = load_yaml()
    bad = []
    for c in cat:
        e = y.get(f"S{c.stream:02d}F{c.function:02d}")
        if e is None:
            bad.append((c.__name__, "missing in YAML"))
            continue
        flags = {"to_host": c._to_host, "to_equipment": c._to_equipment, "reply": c._has_reply, "reply_required": c._is_reply_required, "multi_block": c._is_multi_block}
        for k, v in flags.items():
            if bool(e.get(k)) != bool(v):
                bad.append((c.__name__, k, v, e.get(k)))
        # the flags of an OBJECT of the function are what the protocols put into the header (W-bit): they must be the class's
        try:
            o = c()
            inst = {"to_host": o.to_host, "to_equipment": o.to_equipment, "reply": o.has_reply, "reply_required": o.is_reply_required, "multi_block": o.is_multi_block}
            for k, v in inst.items():
                if bool(e.get(k)) != bool(v):
                    bad.append((c.__name__, "instance." + k, v, e.get(k)))
        except Exception as exc:  # noqa: BLE001
            bad.append((c.__name__, "cannot be instantiated", type(exc).__name__))
        ys = " ".join((e.get("structure") or "").split())
        cs = " ".join(c._data_format.split()) if isinstance(c._data_format, str) else ""
        if ys != cs:
            bad.append((c.__name__, "structure", cs[:40], ys[:40]))
    extra = sorted(set(y) - {f"S{c.stream:02d}F{c.function:02d}" for c in cat})
    obs.append({"name": "flags-and-structure-agree-with-yaml", "ok": not bad and not extra, "witness": {"differences": bad[:5], "only_in_yaml": extra[:5]}, "detail": "class attributes and the YAML catalogue disagree"})
    # pairing
    by = {(c.stream, c.function): c for c in cat}
    bad = []
    for c in cat:
        s, f = c.stream, c.function
        if f == 0:
            if c._has_reply or c._is_reply_required:
                bad.append((c.__name__, "abort function declares a reply"))
            continue
        if f % 2 == 1:
            partner = by.get((s, f + 1))
            if c._has_reply != (partner is not None):
                bad.append((c.__name__, f"_has_reply={c._has_reply} but secondary {'exists' if partner else 'missing'}"))
            if c._is_reply_required and not c._has_reply:
                bad.append((c.__name__, "reply required without reply"))
            if partner is not None and (partner._to_host != c._to_equipment or partner._to_equipment != c._to_host):
                bad.append((c.__name__, f"direction not mirrored by {partner.__name__}"))
        else:
            if c._has_reply or c._is_reply_required:
                bad.append((c.__name__, "secondary declares a reply"))
    obs.append({"name": "primary-secondary-pairing", "ok": not bad, "witness": {"differences": bad[:6]}, "detail": "pairing / reply flags / directions of a function disagree with its partner"})
    # MRO audit of data items: codec methods are the verified ones (no overrides)
    bad = []
    n_items = 0
    for name, k in inspect.getmembers(DI, inspect.isclass):
        if not hasattr(k, "__type__") or k.__type__ is None or name == "DataItemBase":
            continue
        n_items += 1
        base = k.__type__
        for meth in ("set", "get", "encode", "decode", "supports_value"):
            owner = next((c for c in k.__mro__ if meth in c.__dict__), None)
            if owner is not None and owner.__module__.startswith("secsgem.secs.data_items"):
                bad.append((name, meth, getattr(owner, "__name__", None)))
        inst = k()
        if getattr(inst, "count", None) != k.__count__:
            bad.append((name, "count", getattr(inst, "count", None), k.__count__))
        if base is V.Dynamic and list(inst.types) != list(k.__allowedtypes__):
            bad.append((name, "types"))
    obs.append({"name": "data-items-use-the-verified-codec", "ok": not bad and n_items > 100, "witness": {"differences": bad[:5], "items": n_items},
                "detail": "a data item overrides a codec method or its count / allowed types differ from its declaration"})
    return {"obligations": obs, "domain": f"{len(cat)} catalogued classes x YAML entries x partner functions; {n_items} data item classes", "size": len(cat) + n_items,
            "exhaustive": True, "samples": [{"function": "SecsS01F01", "reply": True}]}


# ------------------------------------------------------------------------------------------------ value generation
def leaf_values(item, rnd, size_hint):
    """(plain python value, expected get() value) pairs conforming to a data item instance."""
    typ = item.__type__ if hasattr(item, "__type__") else type(item)
    count = getattr(item, "count", -1)
    types = list(item.types) if typ is V.Dynamic else [typ]
    out = []
    for t in types:
        if t is V.Array:
            continue
        n = count if count and count > 0 else None
        if t in (V.String, V.JIS8):
            ln = n if n else size_hint
            for L in sorted({0, 1, ln}):
                if n and L > n:
                    continue
                s = "".join(chr(65 + (i % 26)) for i in range(L))
                out.append((t, s, s))
        elif t is V.Binary:
            ln = n if n else max(2, size_hint)
            for L in sorted({1, ln} if n else {0, 1, ln}):
                b = bytes((i * 3 + 1) & 0xFF for i in range(L))
                out.append((t, b, b[0] if L == 1 else b))
        elif t is V.Boolean:
            out.append((t, True, True))
            if not n or n > 1:
                out.append((t, [True, False], [True, False]))
        else:
            lo, hi = t._min, t._max
            if t is V.F8:
                # values a binary32 cannot hold: where F8 is an allowed alternative they must arrive unchanged (D44)
                vals = [0.1, 16777217.0, -1e-50]
            elif t._base_type is float:
                vals = [0.0, 1.5, -2.25] if lo < 0 else [0.0, 1.5]
            else:
                vals = [hi, lo, (lo + hi) // 2]
            out.append((t, vals[0], vals[0]))
            if not n or n > 1:
                k = min(len(vals), n) if n else len(vals)
                out.append((t, vals[:k], vals[:k] if k > 1 else vals[0]))
    return out


def gen_value(node, rnd, width, pick):
    """Plain value for a generated structure node + the value get() must return."""
    if isinstance(node, V.Array):
        elem = VF.generate(node.item_decriptor)
        n = node.count if node.count >= 0 else width
        vals = [gen_value(VF.generate(node.item_decriptor), rnd, max(0, width - 1), pick) for _ in range(n)]
        return [v for v, _ in vals], [g for _, g in vals]
    if isinstance(node, V.List):
        vals = {k: gen_value(x, rnd, width, pick) for k, x in node.data.items()}
        return {k: v for k, (v, _) in vals.items()}, {k: g for k, (_, g) in vals.items()}
    cands = leaf_values(node, rnd, 3)
    t, v, g = cands[pick % len(cands)]
    return v, g


@bounded("C03", "catalogue-roundtrip")
def bnd_roundtrip(tier, seed):
    """For each of the 134 functions: structure-conforming plain values (every alternative type of each data item once, open
    lists of length 0,1,2(,3), boundary lengths of length-limited items) -> constructor -> encode -> StreamsFunctions.decode
    (looked up only by the header's stream/function numbers) -> same class, equal value; plain values read back unchanged."""
    rnd = random.Random(seed + 3)
    fails = Fail()
    n_eval = 0
    distinct = set()
    sf = StreamsFunctions()

    class Msg:
        def __init__(self, s, f, data):
            self.header = type("H", (), {"stream": s, "function": f})()
            self.data = data

    for cls in catalogue():
        fname = f"S{cls.stream}F{cls.function}"
        if cls._data_format is None:
            n_eval += 1
            try:
                back = sf.decode(Msg(cls.stream, cls.function, cls().encode()))
                if type(back) is not cls or cls().encode() != b"":
                    fails.add("header-only-function", {"function": fname}, "header-only function does not round-trip")
            except Exception as exc:
                fails.add("header-only-function", {"function": fname}, f"{type(exc).__name__}: {exc}")
            continue
        widths = (0, 1, 2) if tier == "quick" else (0, 1, 2, 3)
        picks = range(0, 28)       # a Dynamic item has up to 2 candidate values for each of its (at most 13) alternative types
        for width in widths:
            for pick in picks:
                probe = cls()
                try:
                    value, expect = gen_value(probe.data, rnd, width, pick)
                except Exception as exc:
                    fails.add("value-generation", {"function": fname}, f"{type(exc).__name__}: {exc}")
                    break
                n_eval += 1
                distinct.add((fname, width, pick))
                w = {"function": fname, "open_list_length": width, "alternative": pick, "value": repr(value)[:140]}
                try:
                    obj = cls(value)
                except Exception as exc:
                    fails.add("accepts-conforming-value", w, f"constructor rejected a structure-conforming value: {type(exc).__name__}: {str(exc)[:100]}")
                    continue
                got = obj.get()
                if not R.same(got, expect):
                    fails.add("plain-value-read-back-unchanged", dict(w, got=repr(got)[:140]), "a plain value given to the constructor is read back changed")
                try:
                    body = obj.encode()
                    back = sf.decode(Msg(cls.stream, cls.function, body))
                except Exception as exc:
                    fails.add("decodes-by-stream-function", w, f"{type(exc).__name__}: {str(exc)[:100]}")
                    continue
                if type(back) is not cls:
                    fails.add("decodes-to-same-function", dict(w, got=type(back).__name__), "decoded object is of another function class")
                elif not R.same(back.get(), got) or back.encode() != body:
                    fails.add("decoded-value-equal", dict(w, got=repr(back.get())[:140]), "decoded value differs from the encoded one")
    return {"evaluations": n_eval, "distinct": len(distinct), "failures": list(fails),
            "scope": "134 functions x open-list lengths 0..2 (thorough 0..3) x 28 rotations through the alternative types (every alternative of every item) / boundary lengths of the data items",
            "rule": "distinct = (function, open-list length, alternative index)", "samples": [{"function": "S2F33", "open_list_length": 2}]}
