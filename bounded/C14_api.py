"""C14: finite-domain tables and the public-API bounded pass for the Item API."""
from __future__ import annotations

import random

from pyvc.runner import bounded, fd
from spec import e5ref as R
from bounded.C01_api import LEAF, Fail, boundary_values, leaf_trees, lib_value, nested_trees, _w

from secsgem.secs.item import Item
import secsgem.secs.item_number  # noqa
import secsgem.secs.item_b  # noqa
import secsgem.secs.item_boolean  # noqa
import secsgem.secs.item_str  # noqa
import secsgem.secs.item_l  # noqa


def item_cls(kind):
    Item._import_inherited()
    return Item._subclasses_by_sml[kind]


@fd("C14", "item-tables")
def fd_tables():
    """Format-code tables of the two APIs agree with each other and with E5; by-code and by-name registries are inverse."""
    Item._import_inherited()
    obs = []
    for kind, code in R.CODES.items():
        cls = Item._subclasses_by_sml.get(kind)
        ok = cls is not None and cls._hsms_type == code and Item._subclasses_by_hsms.get(code) is cls
        obs.append({"name": f"item-format-code.{kind}", "ok": ok, "witness": {"kind": kind, "code": oct(code)},
                    "detail": f"Item class for {kind} missing or its format code differs from E5 {oct(code)}"})
        if kind in LEAF:
            obs.append({"name": f"apis-agree.{kind}", "ok": cls is not None and LEAF[kind].format_code == cls._hsms_type,
                        "witness": {"kind": kind}, "detail": "variables API and Item API disagree on the format code"})
        if kind in R.SIZE and cls is not None:
            v = LEAF[kind]
            ok = cls._bytes == R.SIZE[kind] and cls._struct_code == v._struct_code and cls._minimum_value == v._min and cls._maximum_value == v._max
            obs.append({"name": f"numeric-constants.{kind}", "ok": ok, "witness": {"kind": kind, "min": repr(cls._minimum_value), "max": repr(cls._maximum_value)},
                        "detail": "Item numeric constants differ from the E5 width / from the variables API"})
    extra = set(Item._subclasses_by_hsms) - set(R.CODES.values())
    obs.append({"name": "no-unassigned-codes", "ok": not extra, "witness": {"codes": sorted(extra)}, "detail": "Item registry has codes E5 does not assign"})
    return {"obligations": obs, "domain": "15 E5 item types x 2 APIs", "size": len(obs), "exhaustive": True, "samples": [{"A": "0o20"}]}


def item_value(tree):
    """Constructor value for the Item API."""
    kind, val = tree
    if kind == "L":
        return [Item.from_value(item_obj(c)) for c in val]
    return lib_value(tree)


def item_obj(tree):
    kind, val = tree
    if kind == "L":
        return item_cls("L")([item_obj(c) for c in val])
    return item_cls(kind)(lib_value(tree))


@bounded("C14", "api-items")
def bnd_items(tier, seed):
    """Public-API pass: Item(value).value/encode vs reference and vs the variables API; Item.decode(valid encoding, any k)
    re-encodes canonically; from_value picks the matching type."""
    rnd = random.Random(seed + 14)
    fails = Fail()
    n_eval = 0
    distinct = set()
    trees = [t for t in leaf_trees(tier, rnd) if len(t[1]) < 70000]
    for tree in trees:
        kind = tree[0]
        n_eval += 1
        distinct.add((kind, len(tree[1])))
        try:
            it = item_obj(tree)
            enc = it.encode()
        except Exception as exc:
            fails.add("item-accepts-and-encodes", _w(tree), f"{type(exc).__name__}: {exc}")
            continue
        want = R.encode(tree)
        if enc != want:
            fails.add("item-encode-exact", _w(tree, {"got": enc[:12].hex(), "want": want[:12].hex()}), "Item.encode differs from the E5 bytes")
            continue
        try:
            other = LEAF[kind](lib_value(tree)).encode()
            if other != enc:
                fails.add("apis-identical-bytes", _w(tree), "variables API and Item API encode the same typed value differently")
        except Exception as exc:
            fails.add("apis-identical-bytes", _w(tree), f"variables API raised {type(exc).__name__}: {exc}")
        # holds the value
        held = it.value
        plain = R.plain(tree) if kind not in ("B",) else bytes(tree[1])
        if kind in ("A", "J"):
            plain = tree[1]
        if not R.same(held, plain) and not (kind == "B" and held == bytes(tree[1])):
            fails.add("item-holds-value", _w(tree, {"got": repr(held)[:60]}), "Item.value differs from the constructor value")
        # decode of every valid encoding (k = 1..3) re-encodes canonically
        for k in (1, 2, 3):
            try:
                data = R.encode(tree, k)
            except R.E5Error:
                continue
            try:
                back = Item.decode(data)
                ok = type(back) is item_cls(kind) and back.encode() == R.encode(R.canon(tree))
            except Exception as exc:
                fails.add("item-decode-valid", _w(tree, {"k": k}), f"{type(exc).__name__}: {exc}")
                continue
            if not ok:
                fails.add("item-decode-canonical", _w(tree, {"k": k}), "Item.decode(valid encoding).encode() is not canonical / wrong class")
    for tree in nested_trees(rnd)[:45]:
        n_eval += 1
        distinct.add(("L", len(tree[1])))
        data = R.encode(tree)
        try:
            back = Item.decode(data)
            if back.encode() != data:
                fails.add("nested-item-roundtrip", {"data": data[:20].hex()}, "nested list re-encodes differently")
            built = item_obj(tree)
            if built.encode() != data:
                fails.add("nested-item-build", {"data": data[:20].hex()}, "nested list built through the constructor encodes differently")
        except Exception as exc:
            fails.add("nested-item-roundtrip", {"data": data[:20].hex()}, f"{type(exc).__name__}: {exc}")
    # from_value
    cases = [(True, "BOOLEAN"), (False, "BOOLEAN"), ("", "A"), ("abc", "A"), (b"", "B"), (b"\x00\xff", "B"), ([], "L"), ([1, "a", [2]], "L"), (1.5, None)]
    for name in ("U1", "U2", "U4", "U8", "I1", "I2", "I4", "I8"):
        for v in boundary_values(name, rnd):
            want = None
            for cand in (("U1", "U2", "U4", "U8") if v >= 0 else ("I1", "I2", "I4", "I8")):
                lo, hi = (0, 256 ** R.SIZE[cand] - 1) if cand[0] == "U" else (-(256 ** R.SIZE[cand]) // 2, (256 ** R.SIZE[cand]) // 2 - 1)
                if lo <= v <= hi:
                    want = cand
                    break
            cases.append((v, want))
    for v, want in cases:
        n_eval += 1
        distinct.add(("from_value", type(v).__name__, want))
        try:
            it = Item.from_value(v)
        except Exception as exc:
            fails.add("from-value", {"value": repr(v)}, f"{type(exc).__name__}: {exc}")
            continue
        if want is not None and type(it) is not item_cls(want):
            fails.add("from-value-type", {"value": repr(v), "got": type(it).__name__, "want": want}, "from_value chose a different type")
        if want not in ("L", None) and not R.same(it.value, v):
            fails.add("from-value-unchanged", {"value": repr(v), "got": repr(it.value)}, "from_value changed the value")
    return {"evaluations": n_eval, "distinct": len(distinct), "failures": list(fails),
            "scope": f"{len(trees)} leaf values, 45 nested lists, {len(cases)} from_value inputs",
            "rule": "distinct = (type, element count) / (from_value kind, chosen type)", "samples": [_w(t) for t in trees[:2]]}
