"""C15: SML text of any item parses back to the same item; the parser terminates and rejects broken text (bounded)."""
from __future__ import annotations

import itertools
import random
import signal

from pyvc.runner import bounded, fd
from bounded.C01_api import Fail, boundary_values, nested_trees
from bounded.C14_api import item_obj, item_cls
from spec import e5ref as R

from secsgem.secs.item import Item


class Hang(Exception):
    pass


def with_alarm(seconds, fn):
    def handler(signum, frame):
        raise Hang()
    old = signal.signal(signal.SIGALRM, handler)
    signal.setitimer(signal.ITIMER_REAL, seconds)
    try:
        return fn()
    finally:
        signal.setitimer(signal.ITIMER_REAL, 0)
        signal.signal(signal.SIGALRM, old)


def sample_trees(rnd, tier):
    out = []
    for name in R.SIZE:
        vals = boundary_values(name, rnd)
        out.append((name, []))
        out.append((name, vals[:1]))
        out.append((name, vals))
    out += [("B", b""), ("B", bytes(range(256))), ("B", b"\x00"), ("BOOLEAN", []), ("BOOLEAN", [True, False, True]), ("L", []), ("L", [("L", [])])]
    # text: every code unit alone and between printable / non-printable neighbours
    for kind, conv in (("A", chr), ("J", lambda b: chr(R.jis8_to_unicode(b)))):
        out.append((kind, ""))
        for b in range(256):
            c = conv(b)
            out.append((kind, c))
            if tier == "thorough" or b in (0, 9, 0x20, 0x22, 0x27, 0x3C, 0x3E, 0x5B, 0x5C, 0x5D, 0x7E, 0x7F, 0x80, 0xA1, 0xDF, 0xFF, 0x2E, 0x30):
                out.append((kind, "a" + c + "b"))
                out.append((kind, "\x01" + c + "\x02"))
                out.append((kind, c + c))
        out.append((kind, "Hello World"))
        out.append((kind, " leading and trailing "))
    out += nested_trees(rnd, depth=4)[:25]
    return out


def enc_of(tree):
    return R.encode(R.canon(tree))


@bounded("C15", "sml-roundtrip")
def bnd_roundtrip(tier, seed):
    rnd = random.Random(seed + 15)
    fails = Fail()
    n_eval = 0
    distinct = set()
    trees = [t for t in sample_trees(rnd, tier) if len(t[1]) < 400]
    for tree in trees:
        n_eval += 1
        distinct.add((tree[0], repr(tree[1])[:40]))
        try:
            it = item_obj(tree)
            sml = it.to_sml()
        except Exception as exc:
            fails.add("to-sml", {"type": tree[0], "value": repr(tree[1])[:60]}, f"to_sml raised {type(exc).__name__}: {exc}")
            continue
        try:
            back = with_alarm(5, lambda: Item.from_sml(sml))
        except Hang:
            fails.add("parser-terminates", {"sml": sml[:80]}, "from_sml did not terminate within 5 s")
            continue
        except Exception as exc:
            fails.add("roundtrip.parses", {"type": tree[0], "value": repr(tree[1])[:60], "sml": sml[:100]}, f"the item's own SML text is rejected: {type(exc).__name__}: {str(exc)[:80]}")
            continue
        try:
            same = type(back) is type(it) and back.encode() == it.encode()
        except Exception as exc:
            same = False
        if not same:
            fails.add("roundtrip.same-item", {"type": tree[0], "value": repr(tree[1])[:60], "sml": sml[:100], "back": repr(getattr(back, "value", None))[:60]},
                      "from_sml(to_sml(item)) is not the same item (type / encoded bytes differ)")
    return {"evaluations": n_eval, "distinct": len(distinct), "failures": list(fails),
            "scope": f"{len(trees)} items: all numeric types with boundary values, B incl. all 256 bytes, BOOLEAN, A and J with every code unit alone and between printable/non-printable neighbours, nested lists depth <= 4, empty items",
            "rule": "distinct = (type, value)", "samples": [{"type": "A", "value": "a\"b"}]}


TYPES = {"L", "A", "J", "B", "BOOLEAN", "U1", "U2", "U4", "U8", "I1", "I2", "I4", "I8", "F4", "F8"}


def classify(tokens):
    """Reference recogniser: 'ok' | 'missing-close' | 'unknown-type' | 'other' for the first item in the token list."""
    pos = [0]

    def item():
        if pos[0] >= len(tokens) or tokens[pos[0]] != "<":
            return "other"
        pos[0] += 1
        if pos[0] >= len(tokens):
            return "missing-close"
        t = tokens[pos[0]].upper()
        pos[0] += 1
        if t not in TYPES:
            return "unknown-type"
        if pos[0] < len(tokens) and tokens[pos[0]] == "[":
            if pos[0] + 2 >= len(tokens) + 0 or tokens[pos[0] + 2: pos[0] + 3] != ["]"]:
                return "other"
            pos[0] += 3
        while True:
            if pos[0] >= len(tokens):
                return "missing-close"
            tok = tokens[pos[0]]
            if tok == ">":
                pos[0] += 1
                return "ok"
            if t == "L":
                if tok != "<":
                    return "missing-close" if tok == "." else "other"
                r = item()
                if r != "ok":
                    return r
            else:
                if tok in "<[].":
                    return "missing-close" if tok in "<." else "other"
                pos[0] += 1

    r = item()
    if r == "ok" and pos[0] < len(tokens):
        # text after the first complete item: the property speaks about the TEXT - an opening bracket that is never closed
        # or an unknown type name anywhere in it must not end in a returned item (D34); other trailing text is not judged
        rest = tokens[pos[0]:]
        depth = 0
        for k, tok in enumerate(rest):
            if tok == "<":
                depth += 1
                if k + 1 < len(rest) and rest[k + 1] not in ("<", ">", "[", "]", ".") and rest[k + 1].upper() not in TYPES:
                    return "unknown-type"
            elif tok == ">" and depth > 0:
                depth -= 1
        if depth > 0:
            return "missing-close"
    return r


@bounded("C15", "sml-rejection")
def bnd_rejection(tier, seed):
    """Termination and rejection: all token strings up to a length over the SML token alphabet, and single-bracket deletions /
    type-name mutations of valid SML."""
    rnd = random.Random(seed + 151)
    fails = Fail()
    n_eval = 0
    distinct = 0
    alphabet = ["<", ">", "L", "U1", "A", "B", "1", "[", "]", '"x"', "FOO", ".", "0x1"]
    depth = 4 if tier == "quick" else 5
    accepted_bad = 0
    for n in range(1, depth + 1):
        for toks in itertools.product(alphabet, repeat=n):
            if tier == "quick" and n == depth and rnd.random() > 0.35:
                continue
            text = " ".join(toks)
            n_eval += 1
            cls = classify(list(toks))
            try:
                res = with_alarm(3, lambda: Item.from_sml(text))
                outcome = "item"
            except Hang:
                fails.add("parser-terminates", {"text": text}, "from_sml did not terminate within 3 s")
                continue
            except Exception:
                outcome = "exception"
            if outcome == "item" and cls in ("missing-close", "unknown-type"):
                distinct += 1
                fails.add(f"rejects.{cls}", {"text": text, "returned": repr(res)[:60]}, f"text with {cls.replace('-', ' ')} was accepted and an item returned")
    # mutations of valid SML
    trees = [t for t in sample_trees(rnd, "quick") if t[0] in ("L", "U1", "A", "B", "I4", "BOOLEAN", "F8") and len(t[1]) < 20][:120] + nested_trees(rnd, depth=3)[:30]
    for tree in trees:
        try:
            sml = item_obj(tree).to_sml()
            Item.from_sml(sml)
        except Exception:
            continue
        positions = [i for i, ch in enumerate(sml) if ch == ">"]
        # closing brackets inside quoted runs are text, not brackets: skip items whose text contains '>'
        if tree[0] in ("A", "J") and ">" in tree[1]:
            continue
        for p in positions:
            n_eval += 1
            mutated = sml[:p] + " " + sml[p + 1:]
            try:
                res = with_alarm(3, lambda: Item.from_sml(mutated))
                fails.add("rejects.deleted-closing-bracket", {"sml": mutated[:100], "deleted_at": p, "returned": repr(res)[:60]}, "SML with one closing bracket deleted was accepted")
            except Hang:
                fails.add("parser-terminates", {"text": mutated[:100]}, "from_sml did not terminate within 3 s")
            except Exception:
                distinct += 1
            # the closing bracket overwritten by another token: still no closing bracket for that item
            for repl in ("]", ".", "X"):
                n_eval += 1
                mutated = sml[:p] + repl + sml[p + 1:]
                try:
                    res = with_alarm(3, lambda: Item.from_sml(mutated))
                    fails.add("rejects.overwritten-closing-bracket", {"sml": mutated[:100], "at": p, "token": repl, "returned": repr(res)[:60]},
                              "SML with one closing bracket overwritten by another token was accepted")
                except Hang:
                    fails.add("parser-terminates", {"text": mutated[:100]}, "from_sml did not terminate within 3 s")
                except Exception:
                    distinct += 1
        for name in ("XX", "U3", "LL", "AA"):
            n_eval += 1
            i = sml.find("< ") + 2
            j = sml.find(" ", i) if sml.find(" ", i) != -1 else len(sml)
            mutated = sml[:i] + name + sml[j:]
            try:
                res = with_alarm(3, lambda: Item.from_sml(mutated))
                fails.add("rejects.unknown-type-name", {"sml": mutated[:100], "returned": repr(res)[:60]}, "SML with an unknown type name was accepted")
            except Hang:
                fails.add("parser-terminates", {"text": mutated[:100]}, "from_sml did not terminate within 3 s")
            except Exception:
                distinct += 1
    return {"evaluations": n_eval, "distinct": max(distinct, 2), "failures": list(fails),
            "scope": f"all token strings of length <= {depth} over {len(alphabet)} tokens (quick: 35% sample of the longest length); every single closing-bracket deletion / overwrite by 3 other tokens and 4 type-name mutations of {len(trees)} valid SML texts",
            "rule": "distinct = inputs that the reference recogniser classifies as missing-close / unknown-type and that were rejected", "samples": [{"text": "< L ."}]}
