"""C05: HSMS session state model - finite-domain step contract on the real HsmsProtocol.

Induction over histories: the session state after a history is a function of (state, closing flag, open transactions)
only (frame audit below), so checking every step from every state of that finite tuple against the E37 table
(spec/e37 Appendix A.1 of DESIGN.md) covers every history.  System bytes are opaque to the handlers (copied, compared,
used as dict key): they are sampled at the boundary values."""
from __future__ import annotations

import ast
import inspect
import itertools
import random
import textwrap

from pyvc.runner import bounded, fd
from bounded import harness as H
from bounded.C01_api import Fail
from spec import e5ref as R

from secsgem.hsms.connection_state_machine import ConnectionState
from secsgem.hsms.protocol import HsmsProtocol

NC, NS, S = "NOT_CONNECTED", "CONNECTED_NOT_SELECTED", "CONNECTED_SELECTED"
SYSTEMS = (0, 1, 0x7FFFFFFF, 0x80000000, 0xFFFFFFFF, 0x01020304)
REQ_RSP = {1: 2, 3: 4, 5: 6}


def state_of(proto):
    return proto.connection_state.current.name


def setup(mode, state, closing, open_system):
    proto, conn, log = H.make_hsms(mode=mode, sync=True)
    proto.enable()
    if state == NC:
        return proto, conn, log
    conn.connect()
    if mode == "active":
        pass  # the select thread of active mode is neutralised below
    if state == S:
        conn.feed(H.frame(stype=1, system=0x0BADF00D))
        conn.sent.clear()
    if open_system is not None:
        proto._get_queue_for_system(open_system)        # an outstanding transaction of this endpoint
    conn._disconnecting = closing
    log["message_received"].clear()
    assert state_of(proto) == state, (state_of(proto), state)
    return proto, conn, log


def expect(state, closing, stype, system, open_system, wellformed_data=True):
    """(next state, list of expected output frames as (stype, byte2, byte3) or None=not judged, delivered?)"""
    is_open = open_system == system
    if stype in REQ_RSP:
        if closing:
            return state, [(7, stype, 4)], False
        nxt = {1: S, 3: NS, 5: state}[stype]
        return nxt, [(REQ_RSP[stype], None, None)], False
    if stype == 2:      # Select.rsp (status 0)
        return (S if (is_open or state == S) else NS), None, False
    if stype == 4:      # Deselect.rsp
        return (NS if (is_open or state == NS) else S), None, False
    if stype == 9:      # Separate.req
        return NS, [], False
    if stype in (6, 7):
        return state, None, False
    # data message
    if state != S:
        return state, [(7, 0, 4)], False
    return state, [], True


def run_step(mode, state, closing, stype, system, open_system, data=None):
    proto, conn, log = setup(mode, state, closing, open_system)
    try:
        if stype == 0:
            s, f, w, body = data
            conn.feed(H.frame(0, system, s, f, w, body))
        else:
            conn.feed(H.frame(stype, system, session=0xFFFF))
        frames = conn.frames()
        routed = None
        if open_system is not None and open_system in proto._response_queues:
            routed = proto._response_queues[open_system].qsize()
        return state_of(proto), frames, list(log["message_received"]), routed
    finally:
        conn._disconnecting = False
        H.shutdown(proto, conn)


def neutralise_threads():
    """Active mode starts a thread that sends Select.req and waits T6; the step domain drives selects explicitly."""
    HsmsProtocol._send_select_req_thread = lambda self: None


@fd("C05", "session-steps")
def fd_steps():
    neutralise_threads()
    fails = Fail()
    total = 0
    with H.virtual_timers():
        for mode, state, closing, stype in itertools.product(("passive", "active"), (NS, S), (False, True), (1, 2, 3, 4, 5, 6, 7, 9)):
            for system, open_kind in itertools.product(SYSTEMS[:3] if mode == "active" else SYSTEMS, ("none", "same", "other")):
                open_system = {"none": None, "same": system, "other": system ^ 0x55}[open_kind]
                total += 1
                nxt, outs, _ = expect(state, closing, stype, system, open_system)
                got_state, frames, delivered, routed = run_step(mode, state, closing, stype, system, open_system)
                w = {"mode": mode, "state": state, "closing": closing, "stype": stype, "system": system, "open_transaction": open_kind}
                if got_state != nxt:
                    fails.add(f"next-state.stype{stype}", dict(w, got=got_state, want=nxt), "session state after the step differs from E37")
                if outs is not None:
                    got = [(f["stype"], f["stream"] | (0x80 if f["w"] else 0), f["function"], f["system"]) for f in frames]
                    ok = len(got) == len(outs) and all(g[0] == o[0] and (o[1] is None or g[1] == o[1]) and (o[2] is None or g[2] == o[2]) and g[3] == system
                                                       for g, o in zip(got, outs))
                    if not ok:
                        fails.add(f"response.stype{stype}", dict(w, frames=got, want=outs), "frames written differ from exactly-one matching response / reject with the request's system bytes")
                if delivered:
                    fails.add(f"control-not-delivered.stype{stype}", dict(w, delivered=delivered), "a control message reached the application")
                if stype in (2, 4, 6, 7) and open_kind == "same" and routed != 1:
                    fails.add(f"routed-to-requester.stype{stype}", dict(w, queued=routed), "a response with the requester's system bytes did not reach its queue exactly once")
                if stype in (2, 4, 6, 7) and open_kind == "other" and routed:
                    fails.add(f"not-routed-to-others.stype{stype}", dict(w, queued=routed), "a response reached another caller's queue")
        # connect / disconnect steps
        for mode in ("passive", "active"):
            for state in (NS, S):
                for how in ("peer-close", "local-disable"):
                    total += 1
                    proto, conn, log = setup(mode, state, False, None)
                    try:
                        if how == "peer-close":
                            conn.close()
                        else:
                            proto.disable()
                        if state_of(proto) != NC:
                            fails.add("disconnect-step", {"mode": mode, "state": state, "how": how, "got": state_of(proto)}, "not NOT_CONNECTED after the link is gone")
                        conn.connect()
                        if state_of(proto) != NS:
                            fails.add("connect-step", {"mode": mode, "after": how, "got": state_of(proto)}, "not NOT_SELECTED after (re)connect")
                    finally:
                        H.shutdown(proto, conn)
    by = {}
    for f in fails:
        by.setdefault(f["obligation"], f)
    names = [f"next-state.stype{k}" for k in (1, 2, 3, 4, 5, 6, 7, 9)] + [f"response.stype{k}" for k in (1, 3, 5, 9)] + \
            [f"routed-to-requester.stype{k}" for k in (2, 4, 6, 7)] + [f"not-routed-to-others.stype{k}" for k in (2, 4, 6, 7)] + \
            [f"control-not-delivered.stype{k}" for k in (1, 2, 3, 4, 5, 6, 7, 9)] + ["disconnect-step", "connect-step"]
    obs = [{"name": n, "ok": n not in by, "witness": by[n]["witness"] if n in by else None, "detail": by[n]["detail"] if n in by else ""} for n in names]
    for n in by:
        if n not in names:
            obs.append({"name": n, "ok": False, "witness": by[n]["witness"], "detail": by[n]["detail"]})
    return {"obligations": obs, "domain": "2 modes x {NS,S} x closing x 8 control STypes x system bytes sample x {no/same/other open transaction} + connect/disconnect steps",
            "size": total, "exhaustive": True, "samples": [{"state": NS, "stype": 1, "expect": "Select.rsp, -> SELECTED"}]}


def data_cases(rnd):
    ok_body = R.encode(("L", [("A", "m"), ("A", "v")]))
    return [
        ("S1F1 W", (1, 1, True, b"")), ("S1F2", (1, 2, False, ok_body)), ("S1F13 W empty list", (1, 13, True, R.encode(("L", [])))),
        ("S6F11 W", (6, 11, True, R.encode(("L", [("U4", [1]), ("U4", [2]), ("L", [])])))),
        ("uncatalogued S3F1 W", (3, 1, True, b"")), ("uncatalogued S99F7", (99, 7, False, b"\x21\x01\x00")),
        ("malformed body S1F3 W", (1, 3, True, b"\x01\x05\xa5")), ("truncated body S1F2", (1, 2, False, b"\x41\x10ab")),
        ("S0F0", (0, 0, False, b"")), ("S1F0", (1, 0, False, b"")),
    ]


@fd("C05", "data-message-steps")
def fd_data():
    """A data message while not SELECTED is never delivered and is answered by exactly one Reject.req (reason 4) with its
    system bytes - for every stream/function/body; in SELECTED every well-formed data message is delivered exactly once."""
    neutralise_threads()
    rnd = random.Random(5)
    fails = Fail()
    total = 0
    with H.virtual_timers():
        for mode in ("passive", "active"):
            for label, data in data_cases(rnd):
                for system in SYSTEMS[:4]:
                    total += 1
                    st, frames, delivered, _ = run_step(mode, NS, False, 0, system, None, data)
                    w = {"mode": mode, "message": label, "system": system}
                    got = [(f["stype"], f["stream"], f["function"], f["system"]) for f in frames]
                    if st != NS or delivered or got != [(7, 0, 4, system)]:
                        fails.add("not-selected.reject-and-no-delivery", dict(w, state=st, delivered=len(delivered), frames=got),
                                  "data message while NOT SELECTED: expected no delivery and exactly one Reject.req(reason 4) with its system bytes")
                    wellformed = not label.startswith(("uncatalogued", "malformed", "truncated", "S0F0"))
                    if wellformed:
                        for open_kind in ("none", "same"):
                            total += 1
                            open_system = system if open_kind == "same" else None
                            st, frames, delivered, routed = run_step(mode, S, False, 0, system, open_system, data)
                            n_deliv = len(delivered) + (routed or 0)
                            # a message with W-bit is a primary of the peer, never the reply an own requester waits for (D40)
                            want_routed = 1 if (open_kind == "same" and not data[2]) else 0
                            if st != S or n_deliv != 1 or (routed or 0) != want_routed or any(f["stype"] != 0 for f in frames):
                                fails.add("selected.delivered-exactly-once", dict(w, open_transaction=open_kind, delivered=len(delivered), queued=routed),
                                          "well-formed data message in SELECTED was not delivered exactly once (queue of the waiting requester, else message_received)")
    by = {}
    for f in fails:
        by.setdefault(f["obligation"], f)
    names = ["not-selected.reject-and-no-delivery", "selected.delivered-exactly-once"]
    obs = [{"name": n, "ok": n not in by, "witness": by[n]["witness"] if n in by else None, "detail": by[n]["detail"] if n in by else ""} for n in names]
    return {"obligations": obs, "domain": "2 modes x 10 data messages (catalogued, uncatalogued, malformed, empty) x 4 system byte values x session state",
            "size": total, "exhaustive": True, "samples": [{"message": "uncatalogued S3F1 W", "state": NS}]}


@fd("C05", "frame-audit")
def fd_frame_audit():
    """Only the audited functions write the session state: every call of a ConnectionStateMachine transition in the
    package is in HsmsProtocol (over-approximation by method name, A-FRAME)."""
    import os
    import secsgem
    root = os.path.dirname(secsgem.__file__)
    hits = []
    for dp, _, files in os.walk(root):
        for fn in files:
            if fn.endswith(".py"):
                path = os.path.join(dp, fn)
                tree = ast.parse(open(path, encoding="utf-8").read())
                for node in ast.walk(tree):
                    if isinstance(node, ast.Call) and isinstance(node.func, ast.Attribute) and isinstance(node.func.value, ast.Attribute) \
                            and node.func.value.attr in ("_connection_state", "connection_state") and node.func.attr in ("connect", "disconnect", "select", "deselect", "_perform_transition", "timeoutT7"):
                        hits.append((os.path.relpath(path, root), node.lineno, node.func.attr))
    outside = [h for h in hits if h[0] != os.path.join("hsms", "protocol.py")]
    return {"obligations": [{"name": "session-state-written-only-by-HsmsProtocol", "ok": not outside and len(hits) >= 4,
                             "witness": {"outside": outside, "sites": hits}, "detail": "a session state transition is requested outside hsms/protocol.py"}],
            "domain": "all call sites of connection-state transitions in the package", "size": len(hits), "exhaustive": True, "samples": [list(h) for h in hits[:3]]}


@bounded("C05", "random-histories")
def bnd_histories(tier, seed):
    """Random finite histories over the property's event alphabet; the oracle state machine runs alongside."""
    neutralise_threads()
    rnd = random.Random(seed + 5)
    fails = Fail()
    n_eval = 0
    distinct = set()
    with H.virtual_timers():
        for h in range(40 if tier == "quick" else 400):
            mode = rnd.choice(("passive", "active"))
            proto, conn, log = H.make_hsms(mode=mode, sync=True)
            proto.enable()
            state = NC
            trace = []
            try:
                for step in range(rnd.randint(3, 12)):
                    ev = rnd.choice(("connect", "close", "disable", 1, 1, 3, 5, 9, 6, 7, 0, 0))
                    system = rnd.choice(SYSTEMS)
                    trace.append((ev, system))
                    before = len(conn.sent)
                    n_before = len(log["message_received"])
                    if ev == "connect":
                        if state == NC:
                            conn.connect()
                            state = NS
                        continue
                    if ev in ("close", "disable"):
                        if state != NC:
                            conn.close() if ev == "close" else proto.disable()
                            if ev == "disable":
                                proto.enable()
                            state = NC
                        continue
                    if state == NC:
                        continue
                    if ev == 0:
                        conn.feed(H.frame(0, system, 1, 1, True, b""))
                        nxt, outs, deliv = expect(state, False, 0, system, None)
                    else:
                        conn.feed(H.frame(ev, system, session=0xFFFF))
                        nxt, outs, deliv = expect(state, False, ev, system, None)
                    n_eval += 1
                    state = nxt
                    got = state_of(proto)
                    new_frames = H.MemConnection.frames(type("X", (), {"sent": conn.sent[before:]})())
                    if got != state:
                        fails.add("history.state", {"mode": mode, "trace": trace[-8:], "got": got, "want": state}, "session state diverges from the E37 oracle")
                        break
                    if outs is not None and [(f["stype"], f["system"]) for f in new_frames] != [(o[0], system) for o in outs]:
                        fails.add("history.responses", {"mode": mode, "trace": trace[-8:], "frames": [(f["stype"], f["system"]) for f in new_frames], "want": outs},
                                  "frames written differ from the oracle")
                        break
                    if (len(log["message_received"]) - n_before) != (1 if deliv else 0):
                        fails.add("history.delivery", {"mode": mode, "trace": trace[-8:]}, "delivery to the application differs from the oracle")
                        break
                distinct.add(tuple(e for e, _ in trace))
            finally:
                H.shutdown(proto, conn)
    return {"evaluations": n_eval, "distinct": len(distinct), "failures": list(fails), "scope": "random histories of 3..12 events over {connect, close, disable, Select/Deselect/Linktest/Separate/Linktest.rsp/Reject, data}",
            "rule": "distinct = event sequences", "samples": [["connect", 1, 0, "close"]]}


def _run_history(mode, events, fails, tag):
    """Drive one history on a fresh protocol; the E37 oracle runs alongside.  -> number of judged steps."""
    proto, conn, log = H.make_hsms(mode=mode, sync=True)
    proto.enable()
    state = NC
    judged = 0
    try:
        for i, (ev, system) in enumerate(events):
            before = len(conn.sent)
            n_before = len(log["message_received"])
            if ev == "connect":
                if state == NC:
                    conn.connect()
                    state = NS
                continue
            if ev in ("close", "disable"):
                if state != NC:
                    conn.close() if ev == "close" else proto.disable()
                    if ev == "disable":
                        proto.enable()
                    state = NC
                continue
            if state == NC:
                continue
            if ev == 0:
                conn.feed(H.frame(0, system, 1, 1, True, b""))
            else:
                conn.feed(H.frame(ev, system, session=0xFFFF))
            nxt, outs, deliv = expect(state, False, ev, system, None)
            judged += 1
            state = nxt
            got = state_of(proto)
            new_frames = H.MemConnection.frames(type("X", (), {"sent": conn.sent[before:]})())
            w = {"mode": mode, "history": [e for e, _ in events[:i + 1]]}
            if got != state:
                fails.add(f"{tag}.state", dict(w, got=got, want=state), "session state diverges from the E37 oracle")
                break
            if outs is not None and [(f["stype"], f["system"]) for f in new_frames] != [(o[0], system) for o in outs]:
                fails.add(f"{tag}.responses", dict(w, frames=[(f["stype"], f["system"]) for f in new_frames], want=outs), "frames written differ from the oracle")
                break
            if (len(log["message_received"]) - n_before) != (1 if deliv else 0):
                fails.add(f"{tag}.delivery", dict(w, delivered=len(log["message_received"]) - n_before, want=1 if deliv else 0),
                          "delivery to the application differs from the oracle (data is delivered exactly in SELECTED)")
                break
    finally:
        H.shutdown(proto, conn)
    return judged


@bounded("C05", "all-short-histories")
def bnd_short_histories(tier, seed):
    """EVERY history up to a length over {connect, peer close, Select.req, Deselect.req, Separate.req, data}: catches
    state that survives a disconnect or a deselect (caches, flags) which the per-step checks cannot see."""
    neutralise_threads()
    fails = Fail()
    n_eval = 0
    n_hist = 0
    alphabet = ("connect", "close", 1, 3, 9, 0)
    depth = 6 if tier == "quick" else 7
    with H.virtual_timers():
        for mode in ("passive", "active"):
            for n in range(2, depth + 1):
                for events in itertools.product(alphabet, repeat=n):
                    if events[0] != "connect" or events[-1] in ("connect", "close"):
                        continue       # normal form: starts connected, ends with a judged step
                    n_hist += 1
                    n_eval += _run_history(mode, [(e, 0x0A0B0C00 + i) for i, e in enumerate(events)], fails, "short-history")
    return {"evaluations": n_eval, "distinct": n_hist, "failures": list(fails),
            "scope": f"all histories of length <= {depth} over {{connect, peer close, Select.req, Deselect.req, Separate.req, data W}} in passive and active mode",
            "rule": "distinct = histories; evaluations = judged steps", "samples": [["connect", 1, "close", "connect", 0]]}


@fd("C05", "accept-receive-interleaving")
def fd_accept_interleaving():
    """The schedule clause of the property: a Select.req (or a data message) that is already in the receive buffer when
    the connection is accepted.  The interleaving is forced, not left to the scheduler: the connect transition is delayed
    until the dispatcher - if it is already running - has handled what is buffered."""
    obs = []
    for mode in ("passive",):
        for first, label in ((H.frame(stype=1, system=0x4242, session=0xFFFF), "select-req"), (H.frame(0, 0x4343, 1, 1, True, b""), "data")):
            proto, conn, log = H.make_hsms(mode=mode)
            try:
                proto.enable()
                real_connect = proto._connection_state.connect

                def slow_connect(real_connect=real_connect, conn=conn):
                    H.wait_until(lambda: len(conn.sent) > 0, 0.4)
                    real_connect()
                proto._connection_state.connect = slow_connect
                conn.feed(first)
                conn.connect()
                H.wait_until(lambda: len(conn.frames()) >= 1, 2.0)
                H.quiesce(proto, 1.0)
                state = state_of(proto)
                frames = [(f["stype"], f["system"], f["function"]) for f in conn.frames()]
                if label == "select-req":
                    ok = state == S and frames == [(2, 0x4242, 0)]
                    conn.feed(H.frame(0, 0x77, 1, 1, True, b""))
                    H.wait_until(lambda: len(log["message_received"]) == 1, 1.0)
                    ok = ok and [m[0] for m in log["message_received"]] == [0x77] and not [f for f in conn.frames() if f["stype"] == 7]
                    detail = "a Select.req in flight when the connection is accepted must select the session (Select.rsp, SELECTED, following data delivered)"
                else:
                    ok = state == NS and frames == [(7, 0x4343, 4)] and not log["message_received"]
                    detail = "a data message in flight when the connection is accepted is rejected (not selected), never delivered"
                obs.append({"name": f"{label}-in-flight-at-accept", "ok": ok, "witness": {"state": state, "frames": frames, "delivered": [m[0] for m in log["message_received"]]}, "detail": detail})
            finally:
                H.shutdown(proto, conn)
    return {"obligations": obs, "domain": "{Select.req, data message} buffered before the accept handler runs, connect transition delayed (forced interleaving)",
            "size": len(obs), "exhaustive": True, "samples": [{"in_flight": "select-req"}]}


@fd("C05", "state-machine-contracts")
def fd_state_machine_contracts():
    """The assumed call-site contracts of ConnectionStateMachine.select/deselect (contracts/C05_session.py) are read
    off the contract classes and compared with the real machine from every state: raises WrongSourceStateError and
    changes nothing unless the current state is the contract's source, else ends in the contract's target."""
    from contracts import C05_session as K
    from secsgem.hsms.connection_state_machine import ConnectionStateMachine
    from secsgem.common.state_machine import WrongSourceStateError
    obs = []
    total = 0
    for ccls, op in ((K.SMSelect, "select"), (K.SMDeselect, "deselect")):
        bad = None
        for start in (K.NC, K.NS, K.S):
            total += 1
            m = ConnectionStateMachine()
            if start is not K.NC:
                m.connect()
            if start is K.S:
                m.select()
            assert m.current is start
            want_raise = bool(ccls.raises(m)[WrongSourceStateError])
            try:
                getattr(m, op)()
                raised = False
            except WrongSourceStateError:
                raised = True
            want_state = start if want_raise else ccls.sm_target
            actives = sorted(s.name for s in (m.not_connected, m.connected, m.connected_not_selected, m.connected_selected) if s.active)
            if raised != want_raise or m.current is not want_state:
                bad = {"op": op, "from": start.name, "raised": raised, "contract_raises": want_raise, "state": m.current.name, "contract_state": want_state.name}
                break
        obs.append({"name": f"{op}.contract-matches-real-machine", "ok": bad is None, "witness": bad,
                    "detail": "the assumed contract of the transition differs from the real ConnectionStateMachine"})
    return {"obligations": obs, "domain": "{select, deselect} x {NOT_CONNECTED, NOT_SELECTED, SELECTED} on a real ConnectionStateMachine",
            "size": total, "exhaustive": True, "samples": [{"op": "select", "from": "CONNECTED_NOT_SELECTED", "to": "CONNECTED_SELECTED"}]}
