"""C11: GEM control state model - finite-domain step contract on the real GemEquipmentHandler (DESIGN.md Appendix A.3)."""
from __future__ import annotations

import itertools

from pyvc.runner import bounded, fd
from bounded import harness as H
from bounded.C01_api import Fail
from spec import e5ref as R

EO, AO, HO, OL, OR = "EQUIPMENT_OFFLINE", "ATTEMPT_ONLINE", "HOST_OFFLINE", "ONLINE_LOCAL", "ONLINE_REMOTE"
SVID_VALUE = {EO: 1, AO: 2, HO: 3, OL: 4, OR: 5}
CE_OFFLINE, CE_LOCAL, CE_REMOTE = 1, 2, 3


def peer(probe):
    """The host side of the link: answers S6F11 with S6F12, the S1F1 probe as configured, nothing else."""
    def reply(fr):
        if fr["stype"] != 0 or not fr["w"]:
            return None
        if (fr["stream"], fr["function"]) == (6, 11):
            return H.frame(0, fr["system"], 6, 12, False, R.encode(("B", b"\x00")))
        if (fr["stream"], fr["function"]) == (1, 1):
            if probe == "s1f2":
                return H.frame(0, fr["system"], 1, 2, False, R.encode(("L", [])))
            if probe == "s1f0":
                return H.frame(0, fr["system"], 1, 0, False, b"")
        return None
    return reply


def build(init_state, init_online, probe, events_enabled=True, t3=0.05):
    import secsgem.gem.collection_event_capability as CEC
    handler, proto, conn = H.make_gem("equipment", init_state, init_online, t3=t3)
    conn.auto_reply = peer(probe)
    H.gem_to_communicating(handler, proto, conn)
    if events_enabled:
        sysb = 0x70000000
        conn.feed(H.frame(0, sysb, 2, 33, True, R.encode(("L", [("U4", [1]), ("L", [("L", [("U4", [900]), ("L", [("U4", [1002])])])])]))))
        for ce in (CE_OFFLINE, CE_LOCAL, CE_REMOTE):
            conn.feed(H.frame(0, sysb + ce, 2, 35, True, R.encode(("L", [("U4", [1]), ("L", [("L", [("U4", [ce]), ("L", [("U4", [900])])])])]))))
        conn.feed(H.frame(0, sysb + 9, 2, 37, True, R.encode(("L", [("BOOLEAN", [True]), ("L", [])]))))
    conn.sent.clear()
    return handler, proto, conn


def current(handler):
    return handler.control_state.current.name


def drive_to(handler, conn, target, want_m):
    """Bring the handler to (target state, remembered sub-state) by operator/host operations."""
    def host(function):
        conn.feed(H.frame(0, 0x60000000 + function, 1, function, True, b""))
    for _ in range(8):
        st = current(handler)
        m = handler.control_state._online_control_state
        if st == target and (m == want_m or target in (OL, OR)):
            break
        if target in (OL, OR):
            if st == EO:
                handler.control_switch_online()
            elif st == HO:
                host(17)
            elif st == OL and target == OR:
                handler.control_switch_online_remote()
            elif st == OR and target == OL:
                handler.control_switch_online_local()
            else:
                break
        elif m != want_m and st in (OL, OR):
            handler.control_switch_online_local() if want_m == "LOCAL" else handler.control_switch_online_remote()
        elif m != want_m:
            if st == EO:
                handler.control_switch_online()
            elif st == HO:
                host(17)
        elif target == EO:
            if st in (OL, OR):
                handler.control_switch_offline()
            elif st == HO:
                host(17)
        elif target == HO:
            if st in (OL, OR):
                host(15)
            elif st == EO:
                handler.control_switch_online()
    conn.sent.clear()
    return current(handler), handler.control_state._online_control_state


def expected(state, m, event, probe):
    """(next state, raises?, ack (function, code) or None, collection events)"""
    online_m = OL if m == "LOCAL" else OR
    ev_m = CE_LOCAL if m == "LOCAL" else CE_REMOTE
    if event == "op-online":
        if state == EO:
            return (online_m, False, None, [ev_m]) if probe == "s1f2" else (HO, False, None, [])
        return state, True, None, []
    if event == "op-offline":
        if state in (OL, OR):
            return EO, False, None, [CE_OFFLINE]
        if state == HO:
            return EO, False, None, []          # E30 transition 12: the operator's switch overrides the host's off-line (D38)
        return state, True, None, []
    if event == "op-local":
        if state == OR:
            return OL, False, None, [CE_LOCAL]
        return state, True, None, []
    if event == "op-remote":
        if state == OL:
            return OR, False, None, [CE_REMOTE]
        return state, True, None, []
    if event == "s1f15":
        if state in (OL, OR):
            return HO, False, (16, 0), [CE_OFFLINE]
        return state, False, (16, 0), []
    if event == "s1f17":
        if state == HO:
            return online_m, False, (18, 0), [ev_m]
        if state in (OL, OR):
            return state, False, (18, 2), []
        return state, False, (18, 1), []
    raise KeyError(event)


@fd("C11", "control-steps")
def fd_steps():
    import secsgem.gem.collection_event_capability as CEC
    fails = Fail()
    total = 0
    events = ("op-online", "op-offline", "op-local", "op-remote", "s1f15", "s1f17")
    with H.virtual_timers(), H.inline_threads(CEC):
        for state, m, event, probe in itertools.product((EO, HO, OL, OR), ("LOCAL", "REMOTE"), events, ("s1f2", "s1f0", "none")):
            if event != "op-online" and probe != "s1f2":
                continue
            handler, proto, conn = build("EQUIPMENT_OFFLINE", "REMOTE", "s1f2")
            try:
                try:
                    got = drive_to(handler, conn, state, m)
                except Exception as exc:
                    fails.add("setup", {"state": state, "m": m, "raised": f"{type(exc).__name__}: {exc}"[:160]},
                              "an allowed operator/host operation on the way to the start configuration raised")
                    continue
                if state in (OL, OR):
                    m_eff = "LOCAL" if state == OL else "REMOTE"
                else:
                    m_eff = m
                if got[0] != state or (state not in (OL, OR) and got[1] != m_eff):
                    fails.add("setup", {"state": state, "m": m, "got": got}, "could not reach the start configuration")
                    continue
                conn.auto_reply = peer(probe)
                total += 1
                nxt, raises, ack, ces = expected(state, m_eff, event, probe)
                raised = None
                try:
                    if event == "op-online":
                        handler.control_switch_online()
                    elif event == "op-offline":
                        handler.control_switch_offline()
                    elif event == "op-local":
                        handler.control_switch_online_local()
                    elif event == "op-remote":
                        handler.control_switch_online_remote()
                    elif event == "s1f15":
                        conn.feed(H.frame(0, 0x1515, 1, 15, True, b""))
                    elif event == "s1f17":
                        conn.feed(H.frame(0, 0x1717, 1, 17, True, b""))
                except Exception as exc:
                    raised = type(exc).__name__
                w = {"state": state, "remembered": m_eff, "event": event, "probe": probe}
                now = current(handler)
                frames = [f for f in conn.frames() if f["stype"] == 0]
                if now != nxt:
                    fails.add("next-state", dict(w, got=now, want=nxt), "control state after the step differs from the E30 model")
                if raises and raised is None and now != state:
                    fails.add("refused-changes-nothing", dict(w, got=now), "an operator request that is not allowed changed the state")
                if not raises and raised is not None:
                    fails.add("allowed-accepted", dict(w, raised=raised), "an allowed operator request raised")
                if ack is not None:
                    acks = [(f["function"], f["body"], f["system"]) for f in frames if f["stream"] == 1 and f["function"] in (16, 18)]
                    want_sys = 0x1515 if ack[0] == 16 else 0x1717
                    if acks != [(ack[0], R.encode(("B", bytes([ack[1]]))), want_sys)]:
                        fails.add("acknowledge-code", dict(w, got=[(a[0], a[1].hex()) for a in acks], want=ack), "S1F16/S1F18 acknowledge code differs from the one E30 assigns to the state in which the request arrived")
                got_ces = [R.parse(f["body"])[0][1][1][1][0] for f in frames if (f["stream"], f["function"]) == (6, 11)]
                if sorted(got_ces) != sorted(ces):
                    fails.add("collection-events", dict(w, got=got_ces, want=ces), "control-state collection events differ from the transitions performed")
                # SVID 1002 equals the current state
                conn.sent.clear()
                conn.feed(H.frame(0, 0x1003, 1, 3, True, R.encode(("L", [("U4", [1002])]))))
                rsp = [f for f in conn.frames() if (f["stream"], f["function"]) == (1, 4)]
                val = R.parse(rsp[0]["body"])[0][1][0][1][0] if rsp else None
                if val != SVID_VALUE[now]:
                    fails.add("status-variable-equals-state", dict(w, state_now=now, svid_1002=val), "the reported control-state status variable differs from the current state")
            finally:
                H.shutdown(proto, conn)
        # host requests that arrive while the attempt-online probe is outstanding observe ATTEMPT_ONLINE
        for function, probe in itertools.product((15, 17, 3), ("s1f2", "s1f0")):
            total += 1
            handler, proto, conn = build("EQUIPMENT_OFFLINE", "REMOTE", "s1f2")
            try:
                inner = peer(probe)
                seen = {}

                def reply(fr, inner=inner, function=function, conn=conn, seen=seen):
                    if fr["stype"] == 0 and (fr["stream"], fr["function"]) == (1, 1) and not seen:
                        seen["state"] = current(handler)
                        body = R.encode(("L", [("U4", [1002])])) if function == 3 else b""
                        conn.feed(H.frame(0, 0xA0A0, 1, function, True, body))
                    return inner(fr)
                conn.auto_reply = reply
                handler.control_switch_online()
                frames = [f for f in conn.frames() if f["stype"] == 0]
                w = {"state": AO, "event": f"s1f{function}", "probe": probe, "observed_state_at_probe": seen.get("state")}
                rsp = [f for f in frames if f["stream"] == 1 and f["function"] == function + 1 and f["system"] == 0xA0A0]
                if len(rsp) != 1:
                    fails.add("attempt-online.answered", dict(w, replies=[(f["stream"], f["function"]) for f in frames if f["system"] == 0xA0A0]),
                              "a host request arriving during the attempt-online probe was not answered by its secondary")
                else:
                    if function == 17 and rsp[0]["body"] != R.encode(("B", b"\x01")):
                        fails.add("acknowledge-code", dict(w, got=rsp[0]["body"].hex(), want="ONLACK 1"), "S1F17 in ATTEMPT_ONLINE must be refused with ONLACK 1")
                    if function == 15 and rsp[0]["body"] != R.encode(("B", b"\x00")):
                        fails.add("acknowledge-code", dict(w, got=rsp[0]["body"].hex(), want="OFLACK 0"), "S1F15 in ATTEMPT_ONLINE must be acknowledged with OFLACK 0")
                    if function == 3:
                        val = R.parse(rsp[0]["body"])[0][1][0][1][0]
                        if val != 2:
                            fails.add("status-variable-equals-state", dict(w, svid_1002=val), "SVID 1002 read during the probe must report ATTEMPT_ONLINE (2)")
                want_end = OR if probe == "s1f2" else HO
                if current(handler) != want_end:
                    fails.add("next-state", dict(w, got=current(handler), want=want_end), "the attempt-online outcome was disturbed by a host request during the probe")
            finally:
                H.shutdown(proto, conn)
        # initial configurations
        for init_state, init_online in itertools.product(("EQUIPMENT_OFFLINE", "ATTEMPT_ONLINE", "HOST_OFFLINE", "ONLINE"), ("LOCAL", "REMOTE")):
            total += 1
            handler, proto, conn = H.make_gem("equipment", init_state, init_online, t3=0.05)
            try:
                want = {"EQUIPMENT_OFFLINE": EO, "ATTEMPT_ONLINE": HO, "HOST_OFFLINE": HO, "ONLINE": OL if init_online == "LOCAL" else OR}[init_state]
                if current(handler) != want:
                    fails.add("initial-state", {"config": [init_state, init_online], "got": current(handler), "want": want}, "initial control state differs (ATTEMPT_ONLINE at start-up fails while not communicating)")
                act = sorted(s.name for s in (handler.control_state.init, handler.control_state.control, handler.control_state.offline, handler.control_state.equipment_offline,
                                              handler.control_state.attempt_online, handler.control_state.host_offline, handler.control_state.online,
                                              handler.control_state.online_local, handler.control_state.online_remote) if s.active)
                if act != [want]:
                    fails.add("stable-state-after-start", {"config": [init_state, init_online], "active": act}, "after start-up not exactly the current state is active")
            finally:
                H.shutdown(proto, conn)
    by = {}
    for f in fails:
        by.setdefault(f["obligation"], f)
    names = ["next-state", "refused-changes-nothing", "allowed-accepted", "acknowledge-code", "collection-events", "status-variable-equals-state", "initial-state",
             "stable-state-after-start", "attempt-online.answered", "setup"]
    obs = [{"name": n, "ok": n not in by, "witness": by[n]["witness"] if n in by else None, "detail": by[n]["detail"] if n in by else ""} for n in names]
    return {"obligations": obs, "domain": "{EO,HO,OL,OR} x remembered {LOCAL,REMOTE} x 6 events x probe outcome {S1F2,S1F0,none} + 8 initial configurations",
            "size": total, "exhaustive": True, "samples": [{"state": HO, "event": "s1f17", "expect": "ONLINE(m), ONLACK 0"}]}


def apply_event(handler, conn, event, n):
    """Perform one operator / host event on the real handler; returns the name of the exception an operator call raised."""
    try:
        if event == "op-online":
            handler.control_switch_online()
        elif event == "op-offline":
            handler.control_switch_offline()
        elif event == "op-local":
            handler.control_switch_online_local()
        elif event == "op-remote":
            handler.control_switch_online_remote()
        elif event == "s1f15":
            conn.feed(H.frame(0, 0x15150000 + n, 1, 15, True, b""))
        elif event == "s1f17":
            conn.feed(H.frame(0, 0x17170000 + n, 1, 17, True, b""))
    except Exception as exc:
        return type(exc).__name__
    return None


def short_histories(tier, seed, init_state, init_online):
    """Every history of operator and host events up to a length, from every initial configuration, on ONE handler per history,
    against the E30 reference model run alongside (state and remembered sub-state are the MODEL's, not read from the
    implementation): state kept anywhere else in the implementation between steps (a cache, a flag) shows up here, which the
    one-step contract - whose start configurations are read from the implementation's own fields - cannot see."""
    import secsgem.gem.collection_event_capability as CEC
    fails = Fail()
    total = 0
    n_hist = 0
    events = ("op-online", "op-offline", "op-local", "op-remote", "s1f15", "s1f17")
    depth = {"s1f2": 5, "s1f0": 4, "none": 3} if tier == "thorough" else {"s1f2": 4, "s1f0": 3, "none": 2}
    with H.virtual_timers(), H.inline_threads(CEC):
        for probe in ("s1f2", "s1f0", "none"):
            for history in itertools.product(events, repeat=depth[probe]):
                n_hist += 1
                handler, proto, conn = build(init_state, init_online, probe, t3=0.002)
                try:
                    state = {"EQUIPMENT_OFFLINE": EO, "HOST_OFFLINE": HO, "ONLINE": OL if init_online == "LOCAL" else OR}[init_state]
                    m = init_online
                    if current(handler) != state:
                        fails.add("history.initial-state", {"config": [init_state, init_online], "got": current(handler), "want": state}, "initial control state differs")
                        break
                    for n, event in enumerate(history):
                        total += 1
                        w = {"config": [init_state, init_online], "probe": probe, "history": list(history[:n + 1]), "model_state_before": state, "model_remembered": m}
                        nxt, raises, ack, ces = expected(state, m, event, probe)
                        conn.sent.clear()
                        raised = apply_event(handler, conn, event, n)
                        now = current(handler)
                        frames = [f for f in conn.frames() if f["stype"] == 0]
                        ok = True
                        if now != nxt:
                            ok = False
                            fails.add("history.next-state", dict(w, got=now, want=nxt), "control state after this history differs from the E30 model")
                        if (not raises) and raised is not None:
                            ok = False
                            fails.add("history.allowed-accepted", dict(w, raised=raised), "an allowed operator request raised")
                        if ack is not None:
                            acks = [(f["function"], f["body"]) for f in frames if f["stream"] == 1 and f["function"] in (16, 18)]
                            if acks != [(ack[0], R.encode(("B", bytes([ack[1]]))))]:
                                ok = False
                                fails.add("history.acknowledge-code", dict(w, got=[(a[0], a[1].hex()) for a in acks], want=ack), "S1F16/S1F18 acknowledge code differs from the one E30 assigns to the state in which the request arrived")
                        got_ces = [R.parse(f["body"])[0][1][1][1][0] for f in frames if (f["stream"], f["function"]) == (6, 11)]
                        if sorted(got_ces) != sorted(ces):
                            ok = False
                            fails.add("history.collection-events", dict(w, got=got_ces, want=ces), "control-state collection events differ from the transitions the model performs")
                        conn.sent.clear()
                        conn.feed(H.frame(0, 0x1003, 1, 3, True, R.encode(("L", [("U4", [1002])]))))
                        rsp = [f for f in conn.frames() if (f["stream"], f["function"]) == (1, 4)]
                        val = R.parse(rsp[0]["body"])[0][1][0][1][0] if rsp else None
                        if val != SVID_VALUE[now]:
                            ok = False
                            fails.add("history.status-variable-equals-state", dict(w, state_now=now, svid_1002=val), "the reported control-state status variable differs from the current state")
                        if not ok:
                            break
                        state = nxt
                        if state == OL:
                            m = "LOCAL"
                        elif state == OR:
                            m = "REMOTE"
                finally:
                    H.shutdown(proto, conn)
    return {"evaluations": total, "distinct": n_hist, "failures": list(fails),
            "scope": f"ALL histories over {{op-online, op-offline, op-local, op-remote, S1F15, S1F17}} of length {depth} (by probe outcome), every prefix judged, from the initial configuration ({init_state}, {init_online}); state and remembered sub-state carried by the reference model",
            "rule": "distinct = histories; evaluations = judged steps", "samples": [{"config": ["ONLINE", "LOCAL"], "history": ["op-remote", "s1f15", "s1f17"], "expect": "ONLINE_REMOTE, CEID 3, SVID 1002 = 5"}]}


def _register_histories():
    for init_state, init_online in itertools.product(("EQUIPMENT_OFFLINE", "HOST_OFFLINE", "ONLINE"), ("LOCAL", "REMOTE")):
        def one(tier, seed, init_state=init_state, init_online=init_online):
            return short_histories(tier, seed, init_state, init_online)
        one.__module__ = __name__
        bounded("C11", f"all-short-histories[{init_state},{init_online}]")(one)


_register_histories()
