"""C04: public-API bounded pass - the same byte stream, fed under many segmentations to the real HsmsProtocol with its
real receiver/dispatcher threads, must produce the same message_received events; frames written are bit-exact."""
from __future__ import annotations

import random
import time

from pyvc.runner import bounded
from bounded import harness as H
from bounded.C01_api import Fail
from spec import e5ref as R


def data_frames(rnd, big):
    """(system, stream, function, w, body) of catalogued functions with valid bodies."""
    msgs = [
        (11, 1, 1, True, b""),
        (12, 1, 2, False, R.encode(("L", [("A", "model"), ("A", "1.0")]))),
        (0xFFFFFFFF, 2, 17, True, b""),
        (0, 1, 13, True, R.encode(("L", []))),
        (13, 10, 3, False, R.encode(("L", [("B", b"\x01"), ("A", "x" * 300)]))),
        (14, 1, 3, True, R.encode(("L", [("U4", [i]) for i in range(70)]))),
        (15, 6, 11, True, R.encode(("L", [("U4", [1]), ("U4", [2]), ("L", [])]))),
    ]
    if big:
        msgs.append((16, 10, 3, False, R.encode(("L", [("B", b"\x02"), ("A", "y" * 70000)]))))
    return msgs


def run_partition(stream, parts, expect_n, paced):
    proto, conn, log = H.make_hsms()
    try:
        proto.enable()
        conn.connect()
        conn.feed(H.frame(stype=1, system=0x01020304))
        H.wait_until(lambda: str(proto.connection_state.current).endswith("CONNECTED_SELECTED"), 2.0)
        pos = 0
        for n in parts:
            conn.feed(stream[pos:pos + n])
            pos += n
            if paced:
                time.sleep(0.003)
        H.wait_until(lambda: len(log["message_received"]) >= expect_n, 3.0)
        H.quiesce(proto, 1.0)
        return list(log["message_received"]), conn.frames()
    finally:
        H.shutdown(proto, conn)


@bounded("C04", "api-segmentation")
def bnd_segmentation(tier, seed):
    rnd = random.Random(seed + 4)
    fails = Fail()
    msgs = data_frames(rnd, big=True)
    small = msgs[:4]
    n_eval = 0
    distinct = set()

    def check(msgset, parts, paced, tag):
        nonlocal n_eval
        stream = b"".join(H.frame(0, s, st, fn, w, body) for s, st, fn, w, body in msgset)
        assert sum(parts) == len(stream)
        want = [(s, st, fn, w, body) for s, st, fn, w, body in msgset]
        got, written = run_partition(stream, parts, len(want), paced)
        n_eval += 1
        distinct.add((tag, len(parts), paced))
        if got != want:
            fails.add("same-messages-any-segmentation", {"partition": tag, "segments": parts[:12], "n_segments": len(parts), "paced": paced,
                                                         "delivered": [(g[0], g[1], g[2], len(g[4])) for g in got][:10],
                                                         "expected": [(g[0], g[1], g[2], len(g[4])) for g in want]},
                      "messages delivered differ from the frames in the byte stream (lost / duplicated / merged / reordered)")

    total_small = sum(len(H.frame(0, s, st, fn, w, body)) for s, st, fn, w, body in small)
    check(small, [total_small], False, "one-segment")
    check(small, [1] * total_small, True, "single-bytes-paced")
    check(small, [1] * total_small, False, "single-bytes-burst")
    # every two-way cut of the small stream (cuts inside length fields, headers, bodies, between frames), paced
    for cut in range(1, total_small):
        if tier == "quick" and cut % 2 == 0 and cut > 40:
            continue
        check(small, [cut, total_small - cut], True, f"cut@{cut}")
    # three-way cuts around the second frame's length field
    f0 = len(H.frame(0, *small[0][:4], small[0][4]))
    for a in range(f0 - 2, f0 + 5):
        for b in range(a + 1, min(a + 6, total_small)):
            check(small, [a, b - a, total_small - b], True, f"cut3@{a},{b}")
    total = sum(len(H.frame(0, s, st, fn, w, body)) for s, st, fn, w, body in msgs)
    for size in (1024, 4096, 7, 65536):
        parts = [size] * (total // size) + ([total % size] if total % size else [])
        check(msgs, parts, size >= 1024, f"fixed-{size}")
    for r in range(6 if tier == "quick" else 40):
        parts = []
        left = total
        while left:
            n = min(left, rnd.choice((1, 2, 3, 4, 5, 13, 14, 15, 100, 1000, 5000)))
            parts.append(n)
            left -= n
        check(msgs, parts, r % 2 == 0 and len(parts) < 400, f"random-{r}")
    # a long run of small frames whose segment boundaries never coincide with a frame boundary for more than 4 KiB (a receive
    # buffer that only compacts when it runs empty or after some KiB must still deliver all of them), in several rhythms
    many = [(0x3000 + k, 1, 1, True, b"") if k % 3 else (0x3000 + k, 10, 3, False, R.encode(("L", [("B", b"\x01"), ("A", "z" * (k % 97))]))) for k in range(600)]
    total_many = sum(len(H.frame(0, s_, st, fn, w, body)) for s_, st, fn, w, body in many)
    for size in (1000, 37, 4097):
        parts = [size] * (total_many // size) + ([total_many % size] if total_many % size else [])
        check(many, parts, True, f"many-small-frames-{size}")
    # history: a frame is cut when the connection drops; the next connection starts a fresh stream (what was buffered, and
    # anything remembered about the cut frame, belongs to the old connection)
    n_eval += 1
    distinct.add(("cut-frame-then-reconnect", 2, True))
    proto, conn, log = H.make_hsms()
    try:
        proto.enable()
        conn.connect()
        conn.feed(H.frame(stype=1, system=0x01020304))
        H.wait_until(lambda: str(proto.connection_state.current).endswith("CONNECTED_SELECTED"), 2.0)
        a, b, c, d = small[0], small[4 % len(small)] if len(small) > 4 else msgs[4], small[1], small[2]
        fb = H.frame(0, *b[:4], b[4])
        conn.feed(H.frame(0, *a[:4], a[4]) + fb[:9])         # frame A, then length field + 5 header bytes of frame B
        H.wait_until(lambda: len(log["message_received"]) >= 1, 2.0)
        conn.close()
        H.wait_until(lambda: str(proto.connection_state.current).endswith("NOT_CONNECTED"), 2.0)
        conn.connect()
        conn.feed(H.frame(stype=1, system=0x01020305))
        H.wait_until(lambda: str(proto.connection_state.current).endswith("CONNECTED_SELECTED"), 2.0)
        conn.feed(H.frame(0, *c[:4], c[4]) + H.frame(0, *d[:4], d[4]))
        H.wait_until(lambda: len(log["message_received"]) >= 3, 2.0)
        H.quiesce(proto, 1.0)
        got = list(log["message_received"])
        want = [tuple(a), tuple(c), tuple(d)]
        if got != want or not str(proto.connection_state.current).endswith("CONNECTED_SELECTED"):
            fails.add("same-messages-any-segmentation", {"history": "frame A, 9 bytes of frame B, connection lost, new connection, Select, frames C and D",
                                                         "state": str(proto.connection_state.current), "delivered": [(g[0], g[1], g[2], len(g[4])) for g in got],
                                                         "expected": [(g[0], g[1], g[2], len(g[4])) for g in want]},
                      "after a connection that ended inside a frame the frames of the next connection are not delivered as sent")
    finally:
        H.shutdown(proto, conn)
    # frames written by the library are bit-exact: encode every SType via the public send_* API and parse independently
    proto, conn, log = H.make_hsms()
    try:
        proto.enable()
        conn.connect()
        proto.send_select_rsp(0xDEADBEEF)
        proto.send_linktest_rsp(7)
        proto.send_deselect_rsp(8)
        proto.send_reject_rsp(9, H.HsmsSType.DATA_MESSAGE, 4)
        fr = conn.frames()
        want = [(2, 0xDEADBEEF), (6, 7), (4, 8), (7, 9)]
        n_eval += 1
        if [(f["stype"], f["system"]) for f in fr] != want or any(f["session"] != 0xFFFF for f in fr) or fr[3]["stream"] != 0 or fr[3]["function"] != 4:
            fails.add("control-frames-bit-exact", {"frames": [(f["stype"], f["system"], f["session"]) for f in fr]}, "control frames differ from E37 layout")
    finally:
        H.shutdown(proto, conn)
    return {"evaluations": n_eval, "distinct": len(distinct), "failures": list(fails),
            "scope": f"{len(msgs)} data frames (bodies 0..70 kB) under {n_eval} segmentations: one segment, single bytes (paced and burst), "
                     "every two-way cut, three-way cuts around a length field, fixed sizes 7/1024/4096/65536, random partitions",
            "rule": "distinct = (partition shape, number of segments, paced?)", "samples": [{"partition": "cut@5", "segments": [5, total_small - 5]}]}
