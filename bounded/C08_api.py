"""C08: every primary with the W-bit is answered exactly once with the same system bytes (real handlers over real HSMS)."""
from __future__ import annotations

import random
import struct

from pyvc.runner import bounded, fd
from bounded import harness as H
from bounded.C01_api import Fail
from spec import e5ref as R

import secsgem.secs.functions as F


def catalogue():
    from secsgem.secs.functions._all import secs_streams_functions
    return list(secs_streams_functions)


def header_bytes(system, stream, function, w, session=0):
    return struct.pack(">HBBBBL", session, stream | (0x80 if w else 0), function, 0, 0, system)


def classify(handler, stream, function):
    return f"s{stream:02d}f{function:02d}" in handler.callbacks


def one_message(kind, stream, function, w, body, system, register=None):
    """Returns (frames written, had_callback)."""
    with H.virtual_timers():
        handler, proto, conn = H.make_gem(kind)
        try:
            st = H.gem_to_communicating(handler, proto, conn)
            assert st == "COMMUNICATING", st
            if register == "raises":
                handler.register_stream_function(stream, function, lambda h, m: (_ for _ in ()).throw(RuntimeError("callback failed")))
            elif register == "returns-none":
                handler.register_stream_function(stream, function, lambda h, m: None)
            elif callable(register):
                handler.register_stream_function(stream, function, register(handler))
            has_cb = classify(handler, stream, function)
            conn.feed(H.frame(0, system, stream, function, w, body))
            return [f for f in conn.frames()], has_cb
        finally:
            H.shutdown(proto, conn)


def judge(fails, w, frames, has_cb, stream, function, wbit, system, expected_reply=None):
    data = [f for f in frames if f["stype"] == 0]
    other = [f for f in frames if f["stype"] != 0]
    got = [(f["stream"], f["function"], f["system"], f["w"]) for f in data]
    if other:
        fails.add("no-control-frames", dict(w, frames=[(f["stype"], f["system"]) for f in other]), "a control frame was written in answer to a data message")
    if wbit:
        if len(data) != 1:
            fails.add("w-bit.exactly-one-reply", dict(w, replies=got), "a primary with W-bit was not answered by exactly one message")
            return
        f = data[0]
        if f["system"] != system:
            fails.add("w-bit.same-system-bytes", dict(w, reply_system=f["system"]), "the reply does not carry the request's system bytes")
        if not has_cb:
            if (f["stream"], f["function"]) != (9, 5) or f["body"] != R.encode(("B", header_bytes(system, stream, function, True))):
                fails.add("no-callback.s9f5-with-header", dict(w, reply=got, body=f["body"][:24].hex()), "without a callback the reply must be S9F5 carrying the offending header")
        else:
            if f["stream"] != stream or f["function"] not in (function + 1, 0):
                fails.add("callback.secondary-or-abort", dict(w, reply=got), "the reply is neither the secondary (function+1) nor the stream's function 0 abort")
            if expected_reply is not None and (f["function"], f["body"]) != expected_reply:
                fails.add("callback.returned-reply-sent", dict(w, reply=got), "the message returned by the callback was not the one sent")
    else:
        # an SxF0 abort after a failing callback is not judged for messages without W-bit (the statement is about
        # messages "handled without error")
        replies = [g for g in got if g[1] != 0]
        if replies:
            fails.add("no-w-bit.no-reply", dict(w, replies=replies), "a message without W-bit that was handled without error caused a reply")


@fd("C08", "catalogue-x-handlers")
def fd_catalogue():
    """All 134 catalogued functions (default-constructed body) x W-bit x {equipment, host} + uncatalogued / malformed / empty."""
    fails = Fail()
    total = 0
    rnd = random.Random(8)
    msgs = []
    for cls in catalogue():
        try:
            body = cls().encode()
        except Exception:
            body = b""
        msgs.append((cls.stream, cls.function, body, f"S{cls.stream}F{cls.function}"))
    msgs += [(3, 1, b"", "uncatalogued S3F1"), (99, 7, b"\x21\x01\x00", "uncatalogued S99F7"), (1, 99, b"", "uncatalogued S1F99"),
             (1, 3, b"\x01\x05\xa5", "malformed S1F3"), (2, 41, b"", "empty body S2F41"), (2, 33, b"\x01\x01", "truncated S2F33"),
             (6, 11, b"\xff\xff", "garbage S6F11"), (10, 3, b"", "empty S10F3"), (5, 1, b"\x41\x01a", "wrong structure S5F1")]
    for kind in ("equipment", "host"):
        for stream, function, body, label in msgs:
            if function % 2 == 0 and function != 0 and stream != 99:
                continue      # secondaries are not primaries
            for wbit in (True, False):
                system = rnd.choice((0, 1, 0x7FFFFFFF, 0x80000000, 0xFFFFFFFF, rnd.getrandbits(32)))
                total += 1
                frames, has_cb = one_message(kind, stream, function, wbit, body, system)
                judge(fails, {"handler": kind, "message": label, "w": wbit, "system": system, "has_callback": has_cb}, frames, has_cb, stream, function, wbit, system)
    by = {}
    for f in fails:
        by.setdefault(f["obligation"], f)
    names = ["w-bit.exactly-one-reply", "w-bit.same-system-bytes", "no-callback.s9f5-with-header", "callback.secondary-or-abort", "no-w-bit.no-reply", "no-control-frames"]
    obs = [{"name": n, "ok": n not in by, "witness": by[n]["witness"] if n in by else None, "detail": by[n]["detail"] if n in by else ""} for n in names]
    return {"obligations": obs, "domain": "(134 catalogued primaries + 9 uncatalogued/malformed) x W-bit x {equipment, host handler}", "size": total,
            "exhaustive": True, "samples": [{"message": "S1F1", "w": True, "expect": "S1F2 same system"}]}


@fd("C08", "registered-callbacks")
def fd_registered():
    """User callbacks: returning a function -> exactly that reply; raising -> SxF0; returning None -> nothing; unregistering
    restores S9F5; sequences of messages on one handler."""
    fails = Fail()
    total = 0
    for kind in ("equipment", "host"):
        # (a failing callback for a stream whose function 0 is not in the catalogue cannot be answered with SxF0 by
        # construction - e.g. stream 3 - and is outside the judged domain)
        for stream, function in ((10, 3), (7, 19), (6, 5), (1, 1), (2, 41)):
            for mode in ("raises", "returns-none", "returns-reply"):
                for wbit in (True, False):
                    total += 1
                    system = 0x11220000 + total
                    expected = None
                    reg = mode
                    if mode == "returns-reply":
                        def reg(handler, stream=stream, function=function):
                            def cb(h, m):
                                try:
                                    return handler.stream_function(stream, function + 1)()
                                except KeyError:
                                    return handler.stream_function(9, 5)(b"\x00" * 10)
                            return cb
                    frames, has_cb = one_message(kind, stream, function, wbit, b"" if (stream, function) != (10, 3) else R.encode(("L", [("B", b"\x01"), ("A", "t")])), system, reg)
                    data = [f for f in frames if f["stype"] == 0]
                    w = {"handler": kind, "message": f"S{stream}F{function}", "callback": mode, "w": wbit, "system": system}
                    if mode == "raises":
                        if wbit and [(f["stream"], f["function"], f["system"]) for f in data] != [(stream, 0, system)]:
                            fails.add("callback-raises.abort-once", dict(w, replies=[(f["stream"], f["function"], f["system"]) for f in data]), "a failing callback must be answered by exactly one SxF0 with the same system bytes")
                    elif mode == "returns-none":
                        if data:
                            fails.add("callback-none.no-reply", dict(w, replies=len(data)), "a callback returning nothing must not cause a reply")
                    else:
                        if wbit and (len(data) != 1 or data[0]["system"] != system):
                            fails.add("callback-reply.exactly-once", dict(w, replies=[(f["stream"], f["function"], f["system"]) for f in data]), "the reply returned by the callback must be sent exactly once with the same system bytes")
                        if not wbit and data:
                            fails.add("no-w-bit.no-reply", dict(w, replies=len(data)), "a message without W-bit that was handled without error caused a reply")
        # register / receive / unregister / receive again, and a burst of messages with distinct system bytes on ONE handler
        with H.virtual_timers():
            handler, proto, conn = H.make_gem(kind)
            try:
                H.gem_to_communicating(handler, proto, conn)
                handler.register_stream_function(10, 3, lambda h, m: h.stream_function(10, 4)(0))
                conn.feed(H.frame(0, 501, 10, 3, True, R.encode(("L", [("B", b"\x01"), ("A", "t")]))))
                handler.unregister_stream_function(10, 3)
                conn.feed(H.frame(0, 502, 10, 3, True, R.encode(("L", [("B", b"\x01"), ("A", "t")]))))
                systems = [0, 1, 2, 0xFFFFFFFF, 7, 7, 0x80000000]
                for s in systems:
                    conn.feed(H.frame(0, s, 1, 1, True, b""))
                got = [(f["stream"], f["function"], f["system"]) for f in conn.frames() if f["stype"] == 0]
                total += 1
                had_builtin = hasattr(handler, "_on_s10f03")
                want_first = [(10, 4, 501), ((10, 4, 502) if had_builtin else (9, 5, 502))]
                if got[:2] != want_first or got[2:] != [(1, 2, s) for s in systems]:
                    fails.add("sequence.one-reply-each-in-order", {"handler": kind, "got": got, "want": want_first + [(1, 2, s) for s in systems]},
                              "a sequence of primaries on one handler was not answered one reply each, in order, with matching system bytes")
            finally:
                H.shutdown(proto, conn)
        # a library handler that sends its reply itself before running user code: S2F41 (host command) answers S2F42 'finish later'
        # and then runs the remote command's callback - whatever that callback does, the primary is answered ONCE (D39)
        if kind == "equipment":
            import secsgem.gem
            for label, cb, body_params in (("callback-raises", lambda **kw: (_ for _ in ()).throw(RuntimeError("command failed")), [("SPEED", 3)]),
                                           ("callback-misses-a-parameter", lambda SPEED, LOAD: None, [("SPEED", 3)]),
                                           ("callback-fine", lambda **kw: None, [("SPEED", 3)])):
                total += 1
                with H.virtual_timers():
                    handler, proto, conn = H.make_gem(kind)
                    try:
                        H.gem_to_communicating(handler, proto, conn)
                        handler.remote_commands["GO"] = secsgem.gem.RemoteCommand("GO", "go", ["SPEED", "LOAD"], 5001)
                        handler.callbacks.rcmd_GO = cb
                        body = R.encode(("L", [("A", "GO"), ("L", [("L", [("A", n), ("U1", [v])]) for n, v in body_params])]))
                        conn.feed(H.frame(0, 0x5151, 2, 41, True, body))
                        got = [(f["stream"], f["function"], f["system"]) for f in conn.frames() if f["stype"] == 0 and f["system"] == 0x5151]
                        if len(got) != 1 or got[0][:2] != (2, 42):
                            fails.add("self-replying-handler.exactly-one-reply", {"handler": kind, "message": "S2F41 GO", "case": label, "replies": got},
                                      "S2F41 was answered more than once (S2F42 and then an abort) or not by S2F42")
                    finally:
                        H.shutdown(proto, conn)
        # the callback table changes BETWEEN messages for the same function, through both public interfaces
        # (register/unregister_stream_function and attribute assignment on handler.callbacks): the next message must see the new table
        with H.virtual_timers():
            handler, proto, conn = H.make_gem(kind)
            try:
                H.gem_to_communicating(handler, proto, conn)
                body = R.encode(("L", [("B", b"\x01"), ("A", "t")]))
                had_builtin = hasattr(handler, "_on_s10f03")
                total += 1
                steps = []

                def ask(sysb, s=10, f=3, b=body):
                    conn.sent.clear()
                    conn.feed(H.frame(0, sysb, s, f, True, b))
                    return [(x["stream"], x["function"], x["system"]) for x in conn.frames() if x["stype"] == 0]
                no_cb = lambda sysb: [(10, 4, sysb)] if had_builtin else [(9, 5, sysb)]
                steps.append(("no callback yet", ask(601), no_cb(601)))
                handler.callbacks.s10f03 = lambda h, m: h.stream_function(10, 4)(0)
                steps.append(("after handler.callbacks.s10f03 = cb", ask(602), [(10, 4, 602)]))
                handler.callbacks.s10f03 = None
                steps.append(("after handler.callbacks.s10f03 = None", ask(603), no_cb(603)))
                handler.register_stream_function(10, 3, lambda h, m: h.stream_function(10, 4)(0))
                steps.append(("after register_stream_function", ask(604), [(10, 4, 604)]))
                handler.unregister_stream_function(10, 3)
                steps.append(("after unregister_stream_function", ask(605), no_cb(605)))
                bad = [(label, got, want) for label, got, want in steps if got != want]
                if bad:
                    fails.add("table-change-between-messages", {"handler": kind, "first_difference": {"step": bad[0][0], "got": bad[0][1], "want": bad[0][2]}},
                              "after the callback table changed, the next primary for that function was not answered according to the new table")
            finally:
                H.shutdown(proto, conn)
        # an own request of this endpoint runs into T3; later the peer uses the same system bytes for a primary with W-bit
        with H.virtual_timers():
            handler, proto, conn = H.make_gem(kind)
            try:
                H.gem_to_communicating(handler, proto, conn)
                proto._settings.timeouts.t3 = 0.05
                total += 1
                conn.sent.clear()
                rsp = handler.send_and_waitfor_response(handler.stream_function(1, 1)())
                own = [x["system"] for x in conn.frames() if x["stype"] == 0 and (x["stream"], x["function"]) == (1, 1)]
                conn.sent.clear()
                if own:
                    conn.feed(H.frame(0, own[-1], 1, 1, True, b""))
                got = [(x["stream"], x["function"], x["system"]) for x in conn.frames() if x["stype"] == 0]
                if rsp is not None or not own or got != [(1, 2, own[-1])]:
                    fails.add("primary-after-own-timeout-answered", {"handler": kind, "own_request_system": own[-1:] , "own_result": str(rsp)[:40], "replies": got},
                              "after an own request timed out (T3), a primary of the peer carrying the same system bytes was not answered exactly once")
            finally:
                H.shutdown(proto, conn)
    by = {}
    for f in fails:
        by.setdefault(f["obligation"], f)
    names = ["callback-raises.abort-once", "callback-none.no-reply", "callback-reply.exactly-once", "no-w-bit.no-reply", "sequence.one-reply-each-in-order",
             "table-change-between-messages", "primary-after-own-timeout-answered", "self-replying-handler.exactly-one-reply"]
    obs = [{"name": n, "ok": n not in by, "witness": by[n]["witness"] if n in by else None, "detail": by[n]["detail"] if n in by else ""} for n in names]
    return {"obligations": obs, "domain": "2 handlers x 5 functions x 3 callback behaviours x W-bit + register/unregister and burst sequences", "size": total,
            "exhaustive": True, "samples": [{"callback": "raises", "expect": "SxF0"}]}
