"""C09: no peer behaviour wedges the endpoint - bounded pass with the REAL TCP connection classes on loopback sockets.

For every cut offset of a valid inbound stream (between frames, inside the length field, header, body), in NOT SELECTED
and SELECTED, passive and active mode: the peer stops and closes; the endpoint must finish its disconnect handling, report
NOT_CONNECTED, accept a new connection, select again with the first frame decoded correctly, and disable() must return."""
from __future__ import annotations

import concurrent.futures
import socket
import struct
import threading
import time

from pyvc.runner import bounded
from bounded import harness as H
from bounded.C01_api import Fail

import secsgem.common
import secsgem.hsms
from secsgem.hsms.settings import HsmsConnectMode, HsmsSettings


def free_port():
    s = socket.socket()
    s.bind(("127.0.0.1", 0))
    p = s.getsockname()[1]
    s.close()
    return p


def recv_frames(sock, n, timeout=3.0):
    sock.settimeout(timeout)
    buf = b""
    out = []
    try:
        while len(out) < n:
            chunk = sock.recv(4096)
            if not chunk:
                break
            buf += chunk
            while len(buf) >= 4 and len(buf) >= 4 + struct.unpack(">L", buf[:4])[0]:
                ln = struct.unpack(">L", buf[:4])[0]
                fr = buf[4:4 + ln]
                out.append({"stype": fr[5], "system": struct.unpack(">L", fr[6:10])[0], "stream": fr[2] & 0x7F, "function": fr[3]})
                buf = buf[4 + ln:]
    except (socket.timeout, OSError):
        pass
    return out


def with_timeout(fn, seconds):
    box = {}
    t = threading.Thread(target=lambda: box.setdefault("r", fn()), daemon=True)
    t.start()
    t.join(seconds)
    return (not t.is_alive()), box.get("r")


class Endpoint:
    """Real HsmsProtocol + real TcpServerConnection (passive) or TcpClientConnection (active)."""

    def __init__(self, mode):
        self.mode = mode
        self.port = free_port()
        self.listener = None
        if mode == "active":
            self.listener = socket.socket()
            self.listener.setsockopt(socket.SOL_SOCKET, socket.SO_REUSEADDR, 1)
            self.listener.bind(("127.0.0.1", self.port))
            self.listener.listen(2)
        settings = HsmsSettings(connect_mode=HsmsConnectMode.PASSIVE if mode == "passive" else HsmsConnectMode.ACTIVE, port=self.port, address="127.0.0.1")
        settings.timeouts.t5 = 1
        settings.timeouts.t6 = 1
        self.proto = settings.create_protocol()
        self.received = []
        self.proto.events.message_received += lambda d: self.received.append((d["message"].header.system, d["message"].header.stream, d["message"].header.function))
        self.proto.enable()

    def peer_connect(self):
        if self.mode == "passive":
            for _ in range(50):
                try:
                    return socket.create_connection(("127.0.0.1", self.port), timeout=1.0)
                except OSError:
                    time.sleep(0.05)
            return None
        self.listener.settimeout(4.0)
        try:
            s, _ = self.listener.accept()
            return s
        except OSError:
            return None

    def state(self):
        return self.proto.connection_state.current.name

    def select(self, sock, system=0x5151):
        """Bring the session to SELECTED from the peer side; in active mode the endpoint sends Select.req itself."""
        if self.mode == "passive":
            sock.sendall(H.frame(stype=1, system=system, session=0xFFFF))
            fr = recv_frames(sock, 1)
            return bool(fr) and fr[0]["stype"] == 2 and fr[0]["system"] == system
        fr = recv_frames(sock, 1)
        if not fr or fr[0]["stype"] != 1:
            return False
        sock.sendall(H.frame(stype=2, system=fr[0]["system"], session=0xFFFF))
        return H.wait_until(lambda: self.state() == "CONNECTED_SELECTED", 2.0)


def scenario(mode, selected, cut, ending):
    """Returns a dict of failed clause -> detail (empty = fine)."""
    bad = {}
    ep = Endpoint(mode)
    try:
        if ending == "disable-during-connected-handler":
            # the application's handler of 'connected' is still running (it is released half a second later) when disable()
            # is called: the thread that connected / accepted is alive but past its stop-flag checks (D46, seed C09-L)
            entered, release = threading.Event(), threading.Event()
            ep.proto.events.connected += lambda _d: (entered.set(), release.wait(3.0))
            s0 = ep.peer_connect()
            if s0 is None or not entered.wait(4.0):
                bad["scenario-runs"] = "the endpoint did not report the connection"
                return bad
            threading.Timer(0.5, release.set).start()
            ok, _ = with_timeout(ep.proto.disable, 8.0)
            if not ok:
                bad["disable-returns"] = f"disable() called during a 'connected' handler did not return within 8 s (state {ep.state()})"
            release.set()
            s0.close()
            return bad
        if ending == "connect-and-close-at-once":
            # the peer closes before the endpoint has finished handling 'connected' (an application handler of that event
            # takes a moment): the link loss is handled while the accept is still in progress - several times in a row,
            # then a peer that stays must be served (D45)
            ep.proto.events.connected += lambda _d: time.sleep(0.05)
            for _ in range(6):
                s0 = ep.peer_connect()
                if s0 is None:
                    break
                s0.close()
                time.sleep(0.02)
            settled = H.wait_until(lambda: ep.state() == "NOT_CONNECTED", 4.0)
            if mode == "passive" and not settled:
                # (an active endpoint connects again after T5 by itself, its state is judged by the clauses below)
                bad["reports-not-connected"] = f"all peers have closed but the endpoint reports {ep.state()}"
            time.sleep(0.3)
            sock2 = ep.peer_connect()
            if sock2 is None or not H.wait_until(lambda: ep.state() in ("CONNECTED_NOT_SELECTED", "CONNECTED_SELECTED"), 4.0):
                bad["accepts-new-connection"] = f"after peers that connected and closed at once no new connection is accepted (state {ep.state()})"
            elif not ep.select(sock2, 0x9191):
                bad["selects-again"] = f"select failed after peers that connected and closed at once (state {ep.state()})"
            ok, _ = with_timeout(ep.proto.disable, 8.0)
            if not ok:
                bad["disable-returns"] = f"disable() did not return within 8 s (after {ending}, state {ep.state()})"
            if sock2 is not None:
                sock2.close()
            return bad
        sock = ep.peer_connect()
        if sock is None or not H.wait_until(lambda: ep.state() != "NOT_CONNECTED", 3.0):
            return {"setup": "no connection"}
        if selected and not ep.select(sock):
            return {"setup": "select failed"}
        if not selected and mode == "active":
            recv_frames(sock, 1, 1.0)     # swallow the Select.req
        stream = H.frame(0, 0x0101, 1, 1, True, b"") + H.frame(0, 0x0102, 1, 13, True, b"\x01\x00") + H.frame(5, 0x0103, session=0xFFFF)
        if ending == "reconnect-while-a-handler-is-busy":
            # the application is busy with a message (0.8 s) when the peer closes and reconnects at once with Select.req as its
            # first bytes: the endpoint may listen again only when the old link's disconnect handling - which has to wait
            # for that handler - is done (seed C09-M; D29)
            ep.proto.events.message_received += lambda _d: time.sleep(0.8)
            sock.sendall(H.frame(0, 0x0901, 1, 1, True, b"") + stream[:cut])
            time.sleep(0.1)
            sock.close()
            sock2 = None
            t_end = time.time() + 5.0
            while sock2 is None and time.time() < t_end:
                try:
                    sock2 = socket.create_connection(("127.0.0.1", ep.port), timeout=1.0)
                except OSError:
                    time.sleep(0.02)
            if sock2 is None:
                bad["accepts-new-connection"] = "no new connection within 5 s after the peer closed while a handler was busy"
            else:
                sock2.sendall(H.frame(stype=1, system=0x0902, session=0xFFFF))
                fr = recv_frames(sock2, 1, 5.0)
                if not fr or fr[0]["stype"] != 2 or fr[0]["system"] != 0x0902:
                    bad["selects-again"] = f"Select.req sent at once on the new connection was not answered ({fr}, state {ep.state()})"
            ok, _ = with_timeout(ep.proto.disable, 8.0)
            if not ok:
                bad["disable-returns"] = f"disable() did not return within 8 s (after {ending}, state {ep.state()})"
            if sock2 is not None:
                sock2.close()
            return bad
        if ending == "peer-stops-reading":
            # the peer stops sending (at this byte position) and does not read either while the endpoint is sending a large
            # message: the writer waits for a socket that never becomes writable.  A local disable() must still return and the
            # endpoint must be reusable (D47)
            sock.setsockopt(socket.SOL_SOCKET, socket.SO_RCVBUF, 4096)
            sock.sendall(stream[:cut])
            from secsgem.hsms import HsmsMessage, HsmsStreamFunctionHeader
            big = HsmsMessage(HsmsStreamFunctionHeader(0x3001, 6, 11, False, 0), b"\x21" + b"\x00" * (24 * 1024 * 1024))
            outcome = []
            threading.Thread(target=lambda: outcome.append(ep.proto.send_message(big)), daemon=True).start()
            time.sleep(1.0)
            # (the writer may be busy formatting a 1 MiB packet for the debug log - about 0.7 s, more under load - when the
            # connection is closed: a generous limit, a wedged writer never comes back at all)
            ok, _ = with_timeout(ep.proto.disable, 20.0)
            if not ok:
                bad["disable-returns"] = f"disable() did not return within 20 s while the peer does not read (state {ep.state()})"
            elif outcome == [True]:
                bad["send-reports-failure"] = "a 24 MiB message the peer never read was reported as sent"
            elif not H.wait_until(lambda: ep.state() == "NOT_CONNECTED", 4.0):
                bad["reports-not-connected"] = f"state {ep.state()} after disable() while the peer does not read"
            sock.close()
            return bad
        if ending == "burst-then-close":
            # many requests in ONE segment, then the peer closes at once: the dispatcher still has queued messages to answer when
            # the link goes down - the endpoint must finish its disconnect handling and serve the next connection (D42)
            burst = b"".join(H.frame(5, 0x2000 + k, session=0xFFFF) for k in range(70)) + H.frame(0, 0x2100, 1, 1, True, b"") * 5
            sock.sendall(stream[:cut] if cut in (0, 14) else b"")
            sock.sendall(burst)
            ending = "peer-close"
        else:
            sock.sendall(stream[:cut])
            time.sleep(0.15)
        if ending == "peer-close":
            sock.close()
            if not H.wait_until(lambda: ep.state() == "NOT_CONNECTED", 4.0):
                bad["reports-not-connected"] = f"state {ep.state()} 4 s after the peer closed (cut at byte {cut})"
            # the endpoint re-listens / re-connects by itself
            sock2 = ep.peer_connect()
            if sock2 is None or not H.wait_until(lambda: ep.state() == "CONNECTED_NOT_SELECTED" or ep.state() == "CONNECTED_SELECTED", 4.0):
                bad["accepts-new-connection"] = f"no new connection after the peer closed (state {ep.state()})"
            else:
                if not ep.select(sock2, 0x6161):
                    bad["selects-again"] = "select on the new connection failed (stale bytes from the previous connection or wedged receiver)"
                else:
                    ep.received.clear()
                    sock2.sendall(H.frame(0, 0x0777, 1, 1, True, b""))
                    if not H.wait_until(lambda: (0x0777, 1, 1) in ep.received, 2.0):
                        bad["first-frame-decoded"] = f"first data frame on the new connection was not delivered: {ep.received}"
                try:
                    sock2.close()
                except OSError:
                    pass
                time.sleep(0.2)
        if ending == "reconnect-during-slow-disconnect-handler":
            # an application handler of the 'disconnected' event takes a while; the peer reconnects at once.  The new
            # connection must be served completely (forced interleaving of the old connection's disconnect handling with the
            # next connection - independent of scheduler luck)
            release = threading.Event()
            ep.proto._connection.on_disconnected.register(lambda _d: release.wait(1.0))
            sock.close()
            sock2 = None
            t_end = time.time() + 4.0
            while sock2 is None and time.time() < t_end:
                try:
                    sock2 = socket.create_connection(("127.0.0.1", ep.port), timeout=0.5)
                except OSError:
                    time.sleep(0.02)
            time.sleep(0.3)
            release.set()
            if sock2 is None or not H.wait_until(lambda: ep.state() in ("CONNECTED_NOT_SELECTED", "CONNECTED_SELECTED"), 4.0):
                bad["accepts-new-connection"] = f"a peer that reconnects while a disconnect handler is still running is not served (state {ep.state()})"
            elif not ep.select(sock2, 0x8181):
                bad["selects-again"] = f"select on the connection made during the slow disconnect handler failed (state {ep.state()})"
            else:
                ep.received.clear()
                sock2.sendall(H.frame(0, 0x0999, 1, 1, True, b""))
                if not H.wait_until(lambda: (0x0999, 1, 1) in ep.received, 2.0):
                    bad["first-frame-decoded"] = "data frame on the connection made during the slow disconnect handler was not delivered"
            sock = sock2 if sock2 is not None else sock
        if ending == "close-disable-enable":
            # the link goes down, the application disables and re-enables the endpoint, the peer connects again
            sock.close()
            H.wait_until(lambda: ep.state() == "NOT_CONNECTED", 4.0)
            ok, _ = with_timeout(ep.proto.disable, 8.0)
            if not ok:
                bad["disable-returns"] = "disable() while the link is down did not return within 8 s"
                return bad
            ep.proto.enable()
            sock3 = ep.peer_connect()
            if sock3 is None or not H.wait_until(lambda: ep.state() != "NOT_CONNECTED", 4.0):
                bad["accepts-new-connection"] = f"no connection after disable()/enable() (state {ep.state()})"
            elif not ep.select(sock3, 0x7171):
                bad["selects-again"] = f"select after disable()/enable() failed (state {ep.state()})"
            else:
                ep.received.clear()
                sock3.sendall(H.frame(0, 0x0888, 1, 1, True, b""))
                if not H.wait_until(lambda: (0x0888, 1, 1) in ep.received, 2.0):
                    bad["first-frame-decoded"] = "data frame after disable()/enable() was not delivered"
            sock = sock3 if sock3 is not None else sock
        ok, _ = with_timeout(ep.proto.disable, 8.0)
        if not ok:
            bad["disable-returns"] = f"disable() did not return within 8 s (after {ending}, state {ep.state()})"
        elif ep.state() != "NOT_CONNECTED":
            bad["reports-not-connected-after-disable"] = f"state {ep.state()} after disable()"
        try:
            sock.close()
        except OSError:
            pass
    except Exception as exc:
        bad["scenario-runs"] = f"{type(exc).__name__}: {exc}"
    finally:
        if ep.listener:
            ep.listener.close()
    return bad


def scenario_in_fresh_process(j):
    """Re-run one scenario alone in a new interpreter (no leftover threads of earlier scenarios)."""
    import json
    import os
    import subprocess
    import sys
    # the child judges by the scenario's result only: it exits at once after printing it (threads the library may have left
    # behind do not turn into a 'timed out'), and a watchdog ends it if the scenario itself hangs or the parent is gone
    code = ("import sys, os, json, logging, threading; sys.path.insert(0, %r); logging.disable(logging.CRITICAL);"
            "w = threading.Timer(50, os._exit, (3,)); w.daemon = True; w.start();"
            "from pyvc import extract; extract.ensure_repo_on_path();"
            "from bounded import C09_api as A; print('RESULT' + json.dumps(A.scenario(*%r))); sys.stdout.flush(); os._exit(0)" % (os.path.dirname(os.path.dirname(os.path.abspath(__file__))), tuple(j)))
    try:
        out = subprocess.run([sys.executable, "-B", "-c", code], capture_output=True, text=True, timeout=60, env=dict(os.environ))
        for line in out.stdout.splitlines():
            if line.startswith("RESULT"):
                return json.loads(line[6:])
        return {"scenario-runs": "no result from the fresh process: " + out.stderr[-200:]}
    except subprocess.TimeoutExpired:
        return {"scenario-runs": "fresh process timed out"}


@bounded("C09", "tcp-loopback-cuts")
def bnd_cuts(tier, seed):
    fails = Fail()
    total_len = len(H.frame(0, 1, 1, 1, True, b"")) + len(H.frame(0, 1, 1, 13, True, b"\x01\x00")) + 14
    cuts = list(range(0, total_len + 1)) if tier == "thorough" else [0, 3, 5, 14, 17, 19, 30, total_len]
    jobs = []
    for mode in ("passive", "active"):
        for selected in (False, True):
            for cut in cuts:
                for ending in ("peer-close", "local-disable", "close-disable-enable"):
                    if ending != "peer-close" and cut % 3 and tier == "quick":
                        continue
                    jobs.append((mode, selected, cut, ending))
                if mode == "passive" and (tier == "thorough" or cut in (0, 14)):
                    jobs.append((mode, selected, cut, "reconnect-during-slow-disconnect-handler"))
                if cut in (0, 14):
                    jobs.append((mode, selected, cut, "burst-then-close"))
                if not selected and cut == 0:
                    jobs.append((mode, selected, cut, "connect-and-close-at-once"))
                if selected and cut in (0, 14):
                    jobs.append((mode, selected, cut, "peer-stops-reading"))
                if not selected and cut == 0:
                    jobs.append((mode, selected, cut, "disable-during-connected-handler"))
                if mode == "passive" and selected and cut in (0, 5):
                    jobs.append((mode, selected, cut, "reconnect-while-a-handler-is-busy"))
    n_eval = 0
    distinct = set()
    suspects = []
    flaky = []
    with concurrent.futures.ThreadPoolExecutor(max_workers=8) as pool:
        futs = {pool.submit(scenario_in_fresh_process, j): j for j in jobs}   # one interpreter per scenario: no leftover threads
        for fut in concurrent.futures.as_completed(futs):
            j = futs[fut]
            n_eval += 1
            distinct.add(j)
            try:
                bad = fut.result()
            except Exception as exc:
                bad = {"scenario-runs": repr(exc)}
            if bad:
                suspects.append((j, bad))
    # a failing scenario counts only if it also fails when run alone (twice): the library's busy-wait loops make timing
    # under parallel load unreliable, and a flaky alarm is worse than none
    confirmed_per_clause = {}
    for j, bad in suspects:
        if all(confirmed_per_clause.get(c, 0) >= 3 for c in bad):
            continue        # three confirmed witnesses per clause are enough (each confirmation costs two more fresh processes)
        again = [scenario_in_fresh_process(j), scenario_in_fresh_process(j)]
        common = set(bad) & set(again[0]) & set(again[1])
        for clause in sorted(common):
            confirmed_per_clause[clause] = confirmed_per_clause.get(clause, 0) + 1
            fails.add(clause, {"mode": j[0], "selected": j[1], "cut_at_byte": j[2], "ending": j[3], "confirmed_in_fresh_process": 2}, again[1][clause])
        if not common:
            flaky.append({"scenario": list(j), "first": bad})
    return {"evaluations": n_eval, "distinct": len(distinct), "failures": list(fails),
            "scope": f"{len(cuts)} cut offsets of a 3-frame stream x {{not selected, selected}} x {{passive, active}} x {{peer close + reconnect, local disable}} on loopback sockets with the real TCP classes",
            "not_reproduced_alone": flaky[:10], "self_confirmed": True,
            "rule": "distinct = (mode, session state, cut offset, ending)", "samples": [{"mode": "passive", "selected": True, "cut_at_byte": 5, "ending": "peer-close"}]}
