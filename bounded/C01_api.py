"""C01/C02: finite-domain tables and the public-API bounded pass (real classes, reference codec spec/e5ref.py)."""
from __future__ import annotations

import math
import random
import struct

from pyvc.runner import bounded, fd
from spec import e5ref as R

import secsgem.secs.variables as V
import secsgem.common.codec_jis_x_0201 as JIS

LEAF = {"U1": V.U1, "U2": V.U2, "U4": V.U4, "U8": V.U8, "I1": V.I1, "I2": V.I2, "I4": V.I4, "I8": V.I8,
        "F4": V.F4, "F8": V.F8, "A": V.String, "J": V.JIS8, "B": V.Binary, "BOOLEAN": V.Boolean}
ANYVALUE = V.dynamic.ANYVALUE


# ------------------------------------------------------------------------------------------------ FD
def _fd_format_codes():
    obs = []
    for name, cls in LEAF.items():
        size = R.SIZE.get(name)
        ok = cls.format_code == R.CODES[name] and (size is None or (cls._bytes == size))
        obs.append({"name": f"format-code.{name}", "ok": ok,
                    "witness": {"class": cls.__name__, "format_code": cls.format_code, "expected": R.CODES[name]},
                    "detail": f"{cls.__name__}.format_code/_bytes disagree with SEMI E5 ({oct(R.CODES[name])}, {size})"})
    for name, cls in (("L", V.Array), ("L", V.List)):
        obs.append({"name": f"format-code.{cls.__name__}", "ok": cls.format_code == 0, "witness": {"class": cls.__name__},
                    "detail": "list format code must be 0"})
    # numeric class constants: struct code size/signedness and integer bounds equal the E5 width
    for name in R.SIZE:
        cls = LEAF[name]
        size = R.SIZE[name]
        good = struct.calcsize(">" + cls._struct_code) == size
        if name[0] == "U":
            good = good and cls._min == 0 and cls._max == 256 ** size - 1 and cls._struct_code in "BHLIQ"
        elif name[0] == "I":
            good = good and cls._min == -(256 ** size) // 2 and cls._max == (256 ** size) // 2 - 1 and cls._struct_code in "bhliq"
        else:
            good = good and cls._struct_code == ("f" if size == 4 else "d") and cls._base_type is float
        obs.append({"name": f"numeric-constants.{name}", "ok": bool(good),
                    "witness": {"class": name, "_min": repr(cls._min), "_max": repr(cls._max), "_struct_code": cls._struct_code},
                    "detail": f"{name}: _min/_max/_struct_code/_bytes are not those of a {size}-byte E5 item"})
    return obs


@fd("C01", "class-constants")
def fd_constants():
    return {"obligations": _fd_format_codes(), "domain": "14 leaf classes + Array/List", "size": 16, "exhaustive": True,
            "samples": [{"U1": oct(V.U1.format_code)}]}


@fd("C01", "jis8-tables")
def fd_jis8():
    """A-CODEC is about codecs.charmap_*; the repository's tables themselves are checked here over all 256 code units."""
    obs = []
    dec, enc = JIS.jis8_decoding_map, JIS.jis8_encoding_map
    bad = [b for b in range(256) if dec.get(b) != R.jis8_to_unicode(b)]
    obs.append({"name": "decode-table", "ok": not bad and len(dec) == 256, "witness": {"bytes": bad[:8]},
                "detail": "jis8_decoding_map differs from JIS X 0201"})
    bad = [b for b in range(256) if enc.get(R.jis8_to_unicode(b)) != b]
    obs.append({"name": "encode-table-inverse", "ok": not bad and len(enc) == 256, "witness": {"bytes": bad[:8]},
                "detail": "jis8_encoding_map is not the inverse of the decoding map"})
    # the registered codec really applies these tables one code unit per character
    bad = []
    for b in range(256):
        ch = chr(R.jis8_to_unicode(b))
        try:
            if ch.encode("jis_8") != bytes([b]) or bytes([b]).decode("jis_8") != ch:
                bad.append(b)
        except Exception:
            bad.append(b)
    obs.append({"name": "codec-single-byte", "ok": not bad, "witness": {"bytes": bad[:8]}, "detail": "jis_8 codec is not 1 byte <-> 1 char"})
    bad = [b for b in range(256) if bytes([b]).decode("latin-1") != chr(b) or chr(b).encode("latin-1") != bytes([b])]
    obs.append({"name": "latin1-identity", "ok": not bad, "witness": {"bytes": bad[:8]}, "detail": "latin-1 is not the identity"})
    return {"obligations": obs, "domain": "256 code units x {jis_8, latin-1}", "size": 512, "exhaustive": True, "samples": [{"0x5c": hex(dec[0x5C])}]}


@fd("C02", "dynamic-dispatch")
def fd_dynamic():
    """O17: for every one of the 64 format codes: ANYVALUE decodes an item of that code to the class E5 assigns, unknown
    codes raise ValueError; a Dynamic restricted to one type decodes exactly that type."""
    obs = []
    sample = {"L": ("L", []), "B": ("B", b"\x01\x02"), "BOOLEAN": ("BOOLEAN", [True]), "A": ("A", "ab"), "J": ("J", "ab")}
    for name in R.SIZE:
        sample[name] = (name, [1.0] if name[0] == "F" else [1])
    by_code = {R.CODES[k]: k for k in R.CODES}
    for code in range(64):
        name = by_code.get(code)
        if name is None:
            data = bytes([code << 2 | 1, 0])
            try:
                ANYVALUE().decode(data)
                ok = False
            except ValueError:
                ok = True
            except Exception:
                ok = False
            obs.append({"name": f"unassigned-code.{code:02o}", "ok": ok, "witness": {"data": data.hex()},
                        "detail": "item with an unassigned format code was not rejected with ValueError"})
            continue
        data = R.encode(sample[name])
        expected_cls = V.Array if name == "L" else LEAF[name]
        if name == "J":
            holders = [("Dynamic([JIS8])", lambda: V.Dynamic([V.JIS8])), ("Dynamic([])", lambda: V.Dynamic([]))]
        else:
            holders = [("ANYVALUE", ANYVALUE), (f"Dynamic([{expected_cls.__name__}])",
                                                 (lambda c=expected_cls: V.Dynamic([c])))]
        for hname, mk in holders:
            try:
                d = mk()
                pos = d.decode(data)
                ok = type(d.value) is expected_cls and pos == len(data) and R.same(d.get(), R.plain(R.parse(data)[0]))
                detail = f"decoded to {type(d.value).__name__} value {d.get()!r} pos {pos}"
            except Exception as exc:
                ok, detail = False, f"{type(exc).__name__}: {exc}"
            obs.append({"name": f"dispatch.{name}.{hname}", "ok": ok, "witness": {"holder": hname, "data": data.hex()},
                        "detail": f"{hname}.decode of a valid {name} item: {detail}"})
    return {"obligations": obs, "domain": "64 format codes x item holders", "size": len(obs), "exhaustive": True,
            "samples": [{"code": "0o51", "class": "U1"}]}


# ------------------------------------------------------------------------------------------------ generators
INT_BOUNDS = {n: ((0, 256 ** s - 1) if n[0] == "U" else (-(256 ** s) // 2, (256 ** s) // 2 - 1)) for n, s in R.SIZE.items() if n[0] != "F"}
FLT_MAX = 3.4028234663852886e38
DBL_MAX = 1.7976931348623157e308


def boundary_values(name, rnd):
    if name in INT_BOUNDS:
        lo, hi = INT_BOUNDS[name]
        return [lo, hi, 0, 1, hi - 1, lo + 1 if lo else 2, hi // 2, rnd.randint(lo, hi), rnd.randint(lo, hi)]
    if name == "F4":
        return [0.0, -0.0, 1.0, -1.5, FLT_MAX, -FLT_MAX, 1.401298464324817e-45, 1.1754943508222875e-38, 0.1,
                R.bits_to_float(rnd.getrandbits(31) % 0x7F800000, 4), -R.bits_to_float(rnd.getrandbits(31) % 0x7F800000, 4), 3.40282e38]
    return [0.0, -0.0, 1.0, -1.5, DBL_MAX, -DBL_MAX, 5e-324, 2.2250738585072014e-308, 0.1, FLT_MAX * 2,
            R.bits_to_float(rnd.getrandbits(63) % 0x7FF0000000000000, 8), 1.79769e308]


def leaf_trees(tier, rnd):
    """Trees of every leaf type: counts 0,1,2, every length-byte boundary reachable in the tier, boundary values."""
    out = []
    big = tier == "thorough"
    for name in R.SIZE:
        vals = boundary_values(name, rnd)
        size = R.SIZE[name]
        out.append((name, []))
        for v in vals:
            out.append((name, [v]))
        out.append((name, vals[:2]))
        out.append((name, vals))
        for n in (255 // size, 255 // size + 1, 65535 // size, 65535 // size + 1):
            out.append((name, [vals[i % len(vals)] for i in range(n)]))
        # (the 3-length-byte maximum 16777215 is exercised with B only: the library's element-wise number codec is
        # quadratic in the element count, a 16M-element list does not finish within the tier's budget)
    for name in ("B",):
        for n in (0, 1, 2, 255, 256, 65535, 65536) + ((16777215,) if big else ()):
            out.append((name, bytes((i * 7 + n) & 0xFF for i in range(n))))
        out.append((name, bytes(range(256))))
    out.append(("BOOLEAN", []))
    for n in (1, 2, 255, 256, 65535, 65536):
        out.append(("BOOLEAN", [bool((i * 5 + n) % 3) for i in range(n)]))
    for name in ("A", "J"):
        conv = (lambda b: chr(b)) if name == "A" else (lambda b: chr(R.jis8_to_unicode(b)))
        out.append((name, ""))
        out.append((name, "".join(conv(b) for b in range(256))))
        for b in (0, 0x22, 0x5C, 0x7E, 0x7F, 0x80, 0xA1, 0xDF, 0xFF):
            out.append((name, conv(b)))
        for n in (255, 256, 65535, 65536):
            out.append((name, "".join(conv((i * 11 + n) & 0xFF) for i in range(n))))
    return out


def nested_trees(rnd, depth=3):
    leaves = [("U1", [1, 2]), ("A", "x"), ("B", b""), ("BOOLEAN", [True]), ("F4", [1.5]), ("I8", [-1]), ("L", []), ("F8", [2.5]),
              ("U4", [7]), ("A", ""), ("B", b"\x00\x01")]
    out = [("L", []), ("L", [("L", [])]), ("L", [("L", [("L", [("L", [])])])])]
    for _ in range(60):
        def mk(d):
            if d == 0 or rnd.random() < 0.3:
                return rnd.choice(leaves)
            return ("L", [mk(d - 1) for _ in range(rnd.randint(0, 3))])
        out.append(("L", [mk(depth) for _ in range(rnd.randint(0, 4))]))
    out.append(("L", [("U1", [i & 0xFF]) for i in range(255)]))
    out.append(("L", [("U1", [i & 0xFF]) for i in range(256)]))
    out.append(("L", [("A", "ab")] * 65536))
    return out


def lib_value(tree):
    """The Python value to hand to the library's constructor for a leaf tree."""
    kind, val = tree
    if kind in ("A", "J"):
        return val
    if kind == "B":
        return bytes(val)
    return list(val)


class Fail(list):
    """Counterexamples, at most 3 per obligation name (the first ones found)."""

    def add(self, obligation, witness, detail):
        if sum(1 for f in self if f["obligation"] == obligation) < 3 and len(self) < 60:
            self.append({"obligation": obligation, "witness": witness, "detail": detail})


def _w(tree, extra=None):
    kind, val = tree
    n = len(val)
    d = {"type": kind, "count": n, "head": repr(val[:4]) if not isinstance(val, (bytes, str)) else repr(val[:8])}
    if extra:
        d.update(extra)
    return d


@bounded("C01", "api-roundtrip")
def bnd_roundtrip(tier, seed):
    """Public-API pass of C01: encode() == reference encoding; decode restores an equal value and the exact position;
    also into a re-used object and through Array/List/ANYVALUE nesting."""
    rnd = random.Random(seed)
    fails = Fail()
    n_eval = 0
    distinct = set()
    trees = leaf_trees(tier, rnd)
    for tree in trees:
        kind = tree[0]
        cls = LEAF[kind]
        n_eval += 1
        distinct.add((kind, len(tree[1])))
        try:
            obj = cls(lib_value(tree))
        except Exception as exc:
            fails.add("accepts-representable-value", _w(tree), f"{cls.__name__}(value) raised {type(exc).__name__}: {exc}")
            continue
        want = R.encode(R.canon(tree)) if kind != "F4" else R.encode(tree)
        try:
            got = obj.encode()
        except Exception as exc:
            fails.add("encode-exact", _w(tree), f"encode raised {type(exc).__name__}: {exc}")
            continue
        if got != want:
            fails.add("encode-exact", _w(tree, {"got": got[:12].hex(), "want": want[:12].hex()}), "encode() differs from the SEMI E5 bytes")
            continue
        prior = {"A": "zz", "J": "zz", "B": b"\x09\x09", "BOOLEAN": [True, True, True]}.get(kind, [1, 1, 1])
        for reuse in (False, True):
            try:
                o2 = cls(prior) if reuse else cls()
                pos = o2.decode(b"\xAA" + got + b"\x55", 1)
            except Exception as exc:
                fails.add("decode-own-encoding", _w(tree, {"reused_object": reuse}), f"decode raised {type(exc).__name__}: {exc}")
                continue
            if pos != 1 + len(got):
                fails.add("decode-position", _w(tree, {"reused_object": reuse, "pos": pos}), "decode did not consume exactly the item")
            if not R.same(o2.get(), R.plain(R.canon(tree))):
                fails.add("decode-equal-value", _w(tree, {"reused_object": reuse, "got": repr(o2.get())[:80]}), "decoded value differs")
    # nesting through Array / ANYVALUE
    for tree in nested_trees(rnd):
        n_eval += 1
        distinct.add(("L", len(tree[1]), "nested"))
        data = R.encode(tree)
        try:
            a = ANYVALUE()
            pos = a.decode(data)
            ok = pos == len(data) and R.same(a.get(), R.plain(tree)) and a.encode() == data
        except Exception as exc:
            fails.add("nested-roundtrip", {"data": data[:24].hex(), "len": len(data)}, f"{type(exc).__name__}: {exc}")
            continue
        if not ok:
            fails.add("nested-roundtrip", {"data": data[:24].hex(), "len": len(data), "pos": pos}, "ANYVALUE decode/encode of nested list differs")
    # typed Array and List records
    for kind, cls in (("U2", V.U2), ("A", V.String), ("B", V.Binary)):
        for n in (0, 1, 2, 255, 256):
            n_eval += 1
            distinct.add(("Array", kind, n))
            elems = [(kind, [i]) if kind == "U2" else (kind, "ab" if kind == "A" else b"\x01\x02\x03") for i in range(n)]
            tree = ("L", elems)
            arr = V.Array(cls)
            try:
                arr.set([lib_value(e) for e in elems])
                enc = arr.encode()
                a2 = V.Array(cls)
                a2.set([lib_value(elems[0])] * 3 if elems else [])
                pos = a2.decode(enc)
                ok = enc == R.encode(tree) and pos == len(enc) and R.same(a2.get(), [R.plain(e) for e in elems])
            except Exception as exc:
                fails.add("array-roundtrip", {"elem": kind, "count": n}, f"{type(exc).__name__}: {exc}")
                continue
            if not ok:
                fails.add("array-roundtrip", {"elem": kind, "count": n}, "Array encode/decode differs from reference")
    n_eval += 1
    import secsgem.secs.data_items as DI
    fmt = [DI.ACKC5, DI.MDLN, [DI.ALID], DI.ALCD]   # U1 / A[20] / open list of dynamic ids / B[1]
    try:
        rec = V.List(fmt)
        rec.set([5, "abc", [1, 2, 3], 9])
        want = R.encode(("L", [("B", b"\x05"), ("A", "abc"), ("L", [("U1", [1]), ("U1", [2]), ("U1", [3])]), ("B", b"\x09")]))
        enc = rec.encode()
        r2 = V.List(fmt)
        r2.set([9, "zzzz", [7], 3])
        pos = r2.decode(R.encode(("L", [("B", b"\x05"), ("A", ""), ("L", []), ("B", b"\x02")])))
        ok2 = list(r2.get().values()) == [5, "", [], 2]
        if enc != want:
            fails.add("list-record", {"got": enc.hex(), "want": want.hex()}, "List record encode differs")
        if not ok2:
            fails.add("list-record-reuse", {"got": repr(r2.get())}, "List record decoded into a re-used object keeps stale member values")
    except Exception as exc:
        fails.add("list-record", {}, f"{type(exc).__name__}: {exc}")
    return {"evaluations": n_eval, "distinct": len(distinct), "failures": list(fails),
            "scope": f"{len(trees)} leaf values (counts 0,1,2, 255/256 and 65535/65536 byte boundaries"
                     + (", 16777215" if tier == "thorough" else "") + "; boundary numbers; all 256 code units), 63 nested lists depth<=3, typed arrays/records",
            "rule": "distinct = (type, element count) pairs; all are non-trivial (each is encoded, compared with the reference bytes and decoded twice)",
            "samples": [_w(t) for t in trees[:3]]}


@bounded("C02", "api-decode-valid-items")
def bnd_decode(tier, seed):
    """Public-API pass of C02: every byte string the reference decoder accepts (minimal and non-minimal length bytes,
    random payloads, nested lists) decodes through ANYVALUE to the denoted value and re-encodes canonically;
    sequences of decodes on the same object do not leak state."""
    rnd = random.Random(seed + 1)
    fails = Fail()
    n_eval = 0
    distinct = set()
    items = []
    for tree in leaf_trees("quick", rnd):
        if tree[0] == "J" or len(tree[1]) > 300:
            continue
        for k in (1, 2, 3):
            try:
                items.append((tree, R.encode(tree, k)))
            except R.E5Error:
                pass
    # random bit patterns of every numeric width (floats restricted to finite ones: the property's quantifier)
    for name, size in R.SIZE.items():
        for _ in range(40 if tier == "quick" else 400):
            n = rnd.randint(1, 3)
            raw = bytes(rnd.getrandbits(8) for _ in range(n * size))
            tree = R.parse(R.header(R.CODES[name], len(raw)) + raw)[0]
            if name[0] == "F" and not all(math.isfinite(v) for v in tree[1]):
                continue
            items.append((tree, R.header(R.CODES[name], len(raw), rnd.choice((1, 2, 3))) + raw))
    for name in ("F4", "F8"):
        size = R.SIZE[name]
        top = (0x7F7FFFFF if size == 4 else 0x7FEFFFFFFFFFFFFF)
        for bits in (top, top | 1 << (8 * size - 1), top - 1, 1, 0, 1 << (8 * size - 1)):
            raw = bits.to_bytes(size, "big")
            items.append((R.parse(R.header(R.CODES[name], size) + raw)[0], R.header(R.CODES[name], size) + raw))
    for _ in range(30):
        raw = bytes(rnd.choice((0, 1, 2, 0x80, 0xFF)) for _ in range(rnd.randint(0, 5)))
        items.append((("BOOLEAN", [b != 0 for b in raw]), R.header(R.CODES["BOOLEAN"], len(raw), rnd.choice((1, 2, 3))) + raw))
    for tree in nested_trees(rnd)[:40]:
        items.append((tree, R.encode(tree, rnd.choice((1, 2, 3)) if len(tree[1]) < 200 else None)))
    holder = ANYVALUE()  # one object re-used for the whole sequence: decode must not depend on history
    for tree, data in items:
        n_eval += 1
        distinct.add((tree[0], len(tree[1]), data[0] & 3))
        ref_tree, ref_pos = R.parse(data)
        for obj, tag in ((ANYVALUE(), "fresh"), (holder, "re-used")):
            try:
                pos = obj.decode(data)
                val = obj.get()
                enc = obj.encode()
            except Exception as exc:
                fails.add("decode-valid-item", {"data": data[:16].hex(), "len": len(data), "object": tag}, f"{type(exc).__name__}: {exc}")
                continue
            if pos != ref_pos or not R.same(val, R.plain(ref_tree)):
                fails.add("decode-denoted-value", {"data": data[:16].hex(), "len": len(data), "object": tag, "got": repr(val)[:80],
                                                   "want": repr(R.plain(ref_tree))[:80]}, "decoded value/position differs from the reference decoder")
            elif enc != R.encode(ref_tree):
                fails.add("reencode-canonical", {"data": data[:16].hex(), "object": tag, "got": enc[:16].hex()}, "re-encoding is not the canonical encoding")
    return {"evaluations": n_eval, "distinct": len(distinct), "failures": list(fails),
            "scope": f"{len(items)} valid items: every leaf type x k in 1..3, random bit patterns, FLT_MAX/DBL_MAX/subnormals, non-zero booleans, nested lists",
            "rule": "distinct = (type, element count, number of length bytes); each is decoded into a fresh and into a re-used ANYVALUE",
            "samples": [{"data": d[:12].hex(), "type": t[0]} for t, d in items[:3]]}


@bounded("C01", "encode-follows-the-current-value")
def bnd_encode_after_mutation(tier, seed):
    """Histories on ONE object: encode, change the value through the element objects the container hands out (set, item
    assignment, append, attribute assignment on a record), encode again - the second encoding must be the E5 bytes of the value
    held NOW (a container that remembers its bytes across such changes breaks 'every value is encoded to exactly ...')."""
    rnd = random.Random(seed + 101)
    fails = Fail()
    n_eval = 0

    def expect(obj, tree, what, w):
        nonlocal n_eval
        n_eval += 1
        got = obj.encode()
        want = R.encode(tree)
        if got != want:
            fails.add("encode-after-change-through-an-element", dict(w, change=what, got=got[:24].hex(), want=want[:24].hex()),
                      "after the value was changed through an element object, encode() does not give the bytes of the current value")

    for n in ([0, 1, 2, 3, 255, 256] if tier == "quick" else [0, 1, 2, 3, 5, 254, 255, 256, 257, 1000]):
        vals = [rnd.randrange(0, 2 ** 32) for _ in range(max(n, 3))]
        a = V.Array(V.U4, list(vals))
        w = {"container": f"Array(U4) of {len(vals)}"}
        expect(a, ("L", [("U4", [v]) for v in vals]), "none (first encoding)", w)
        a[1].set(0xFFFFFFFF)
        vals[1] = 0xFFFFFFFF
        expect(a, ("L", [("U4", [v]) for v in vals]), "a[1].set(0xFFFFFFFF)", w)
        a[2][0] = 7
        vals[2] = 7
        expect(a, ("L", [("U4", [v]) for v in vals]), "a[2][0] = 7", w)
        a.append(9)
        vals.append(9)
        expect(a, ("L", [("U4", [v]) for v in vals]), "a.append(9)", w)
    # a decoded Dynamic holding a list
    d = ANYVALUE()
    d.decode(R.encode(("L", [("U4", [1]), ("A", "ab")])))
    w3 = {"container": "ANYVALUE decoded from L[U4 1, A 'ab']"}
    expect(d, ("L", [("U4", [1]), ("A", "ab")]), "none (first encoding)", w3)
    d[0].set(V.U4(8))
    expect(d, ("L", [("U4", [8]), ("A", "ab")]), "d[0].set(U4(8))", w3)
    return {"evaluations": n_eval, "distinct": n_eval, "failures": list(fails),
            "scope": "Array(U4) of 3..1000 elements (around the 255/256 header boundary) and a decoded ANYVALUE list: encode, change through element objects, encode again",
            "rule": "distinct = (container, change)", "samples": [{"container": "Array(U4) of 3", "change": "a[1].set(0xFFFFFFFF)"}]}
