"""C13: status variables, equipment constants and alarms against a reference model (real GemEquipmentHandler)."""
from __future__ import annotations

import itertools
import math
import random

from pyvc.runner import bounded, fd
from bounded import harness as H
from bounded.C01_api import Fail
from bounded.C12_api import norm
from spec import e5ref as R

import secsgem.gem
import secsgem.secs.variables as V

SV = {10: ("sv-ten", "mm", 42), "SV2": ("sv-text", "u", 7)}
# constants 22 and 23 declare only one limit (None = no limit on that side)
EC = {20: ("ec-u4", 0, 500, 10, V.U4), 21: ("ec-f4", 0.0, 10.0, 2.5, V.F4), "EC3": ("ec-i4", -5, 5, 1, V.I4),
      22: ("ec-min-only", 0, None, 7, V.I4), 23: ("ec-max-only", None, 100, 50, V.I4),
      # 24: one byte wide and no declared maximum - 256 and 300 are out of the range the constant can hold at all (D49)
      24: ("ec-u1-min-only", 0, None, 7, V.U1)}


def fits(e, v):
    """Can the constant's declared type hold the value at all?"""
    try:
        EC[e][4](v)
        return True
    except Exception:      # noqa: BLE001
        return False


def within(e, v):
    lo, hi = EC[e][1], EC[e][2]
    return (lo is None or lo <= v) and (hi is None or v <= hi)
AL = {100: ("al-a", "text a", 2), 101: ("al-b", "text b", 5)}


def idtree(i):
    return ("A", i) if isinstance(i, str) else ("U4", [i])


class Session:
    def __init__(self):
        import secsgem.gem.collection_event_capability as CEC
        import secsgem.gem.alarm_capability as AC
        self.ctx = [H.virtual_timers(), H.inline_threads(CEC)]
        for c in self.ctx:
            c.__enter__()
        self.handler, self.proto, self.conn = H.make_gem("equipment", "EQUIPMENT_OFFLINE", "REMOTE", t3=0.05)
        h = self.handler
        for svid, (name, unit, value) in SV.items():
            sv = secsgem.gem.StatusVariable(svid, name, unit, V.U4, use_callback=False)
            sv.value = value
            h.status_variables[svid] = sv
        for ecid, (name, lo, hi, default, typ) in EC.items():
            ec = secsgem.gem.EquipmentConstant(ecid, name, lo, hi, default, "u", typ, use_callback=False)
            ec.value = default
            h.equipment_constants[ecid] = ec
        for alid, (name, text, code) in AL.items():
            h.alarms[alid] = secsgem.gem.Alarm(alid, name, text, code, 3000 + alid, 4000 + alid)
        self.s5f1 = []

        def peer(fr):
            if fr["stype"] == 0 and (fr["stream"], fr["function"]) == (5, 1):
                self.s5f1.append(R.parse(fr["body"])[0])
                return H.frame(0, fr["system"], 5, 2, False, R.encode(("B", b"\x00")))
            if fr["stype"] == 0 and fr["w"] and (fr["stream"], fr["function"]) == (6, 11):
                return H.frame(0, fr["system"], 6, 12, False, R.encode(("B", b"\x00")))
            return None
        self.conn.auto_reply = peer
        H.gem_to_communicating(self.handler, self.proto, self.conn)
        self.sys = 0x3000

    def close(self):
        H.shutdown(self.proto, self.conn)
        for c in reversed(self.ctx):
            c.__exit__(None, None, None)

    def ask(self, stream, function, tree):
        self.sys += 1
        self.conn.sent.clear()
        self.conn.feed(H.frame(0, self.sys, stream, function, True, R.encode(tree) if tree is not None else b""))
        rsp = [f for f in self.conn.frames() if f["stype"] == 0 and f["stream"] == stream and f["system"] == self.sys]
        if len(rsp) != 1 or rsp[0]["function"] != function + 1:
            return ("abort", [(f["stream"], f["function"]) for f in rsp])
        return R.parse(rsp[0]["body"])[0] if rsp[0]["body"] else None


def num(tree):
    """numeric value of a single-element numeric (or one-byte binary) item tree"""
    if tree[0] == "B" and len(tree[1]) == 1:
        return tree[1][0]
    return tree[1][0] if tree[0] in R.SIZE and len(tree[1]) == 1 else None


ID_LISTS = [[], [10], ["SV2"], [10, "SV2"], [999], [10, 999, 10], ["nope"], [10, 10], [1002], [999, 10]]


@bounded("C13", "variables-and-constants")
def bnd_variables(tier, seed):
    rnd = random.Random(seed + 13)
    fails = Fail()
    n_eval = 0
    distinct = set()
    sess = Session()
    try:
        h = sess.handler
        # ---- S1F3 / S1F11
        for ids in ID_LISTS:
            n_eval += 1
            distinct.add(("s1f3", str(ids)))
            got = sess.ask(1, 3, ("L", [idtree(i) for i in ids]))
            if isinstance(got, tuple) and got[0] == "abort":
                fails.add("s1f3.answered", {"ids": ids, "got": got}, "S1F3 was not answered by S1F4")
                continue
            items = got[1]
            if ids:
                ok = len(items) == len(ids)
                for i, it in zip(ids, items):
                    if i in SV:
                        ok = ok and num(it) == SV[i][2]
                    elif i == 1002:
                        ok = ok and num(it) == 1
                    else:
                        ok = ok and it == ("L", [])
                if not ok:
                    fails.add("s1f3.requested-items-in-order", {"ids": ids, "reply": repr(items)[:200]}, "S1F4 does not contain exactly the requested values in request order (empty item for unknown ids)")
            else:
                if len(items) != len(h.status_variables):
                    fails.add("s1f3.empty-list-means-all", {"count": len(items)}, "an empty S1F3 must return every status variable")
            got = sess.ask(1, 11, ("L", [idtree(i) for i in ids]))
            if ids and not (isinstance(got, tuple) and got[0] == "abort"):
                rows = got[1]
                ok = len(rows) == len(ids)
                for i, row in zip(ids, rows):
                    name = row[1][1][1]
                    if i in SV:
                        ok = ok and name == SV[i][0] and row[1][2][1] == SV[i][1]
                    elif i == 1002:
                        ok = ok and name != ""
                    else:
                        ok = ok and name == "" and row[1][2][1] == ""
                    idv = row[1][0]
                    ok = ok and (idv[1] == i if isinstance(i, str) else idv[1] == [i])
                if not ok:
                    fails.add("s1f11.requested-names-in-order", {"ids": ids, "reply": repr(rows)[:200]}, "S1F12 rows differ from the requested ids in order (empty name/unit for unknown ids)")
        # ---- S2F13 / S2F29
        for ids in [[], [20], ["EC3"], [20, 21, "EC3"], [777], [20, 777, 20], [21, 21]]:
            n_eval += 1
            distinct.add(("s2f13", str(ids)))
            got = sess.ask(2, 13, ("L", [idtree(i) for i in ids]))
            if isinstance(got, tuple) and got[0] == "abort":
                fails.add("s2f13.answered", {"ids": ids, "got": got}, "S2F13 was not answered by S2F14")
                continue
            items = got[1]
            if ids:
                ok = len(items) == len(ids)
                for i, it in zip(ids, items):
                    if i in EC:
                        ok = ok and num(it) is not None and R.same(float(num(it)), float(h.equipment_constants[i].value))
                    else:
                        ok = ok and it == ("L", [])
                if not ok:
                    fails.add("s2f13.requested-items-in-order", {"ids": ids, "reply": repr(items)[:200]}, "S2F14 does not contain exactly the requested constants in request order")
            got = sess.ask(2, 29, ("L", [idtree(i) for i in ids]))
            if ids and not (isinstance(got, tuple) and got[0] == "abort"):
                rows = got[1]
                ok = len(rows) == len(ids)
                for i, row in zip(ids, rows):
                    name = row[1][1][1]
                    ok = ok and (name == EC[i][0] if i in EC else name == "")
                if not ok:
                    fails.add("s2f29.requested-names-in-order", {"ids": ids, "reply": repr(rows)[:160]}, "S2F30 rows differ from the requested ids in order")
    finally:
        sess.close()
    # ---- S2F15: all or nothing, never out of bounds
    def valtree(ecid, v):
        typ = EC[ecid][4]
        if typ is V.F4:
            return ("F4", [v])
        if isinstance(v, float):
            return ("F8", [v])
        return ("I4", [v]) if v < 0 else ("U4", [v])

    cands = {20: [0, 500, 250, 501, -1, 1000000], 21: [0.0, 10.0, 5.5, 10.5, -0.5, math.nan], "EC3": [-5, 5, 0, 6, -6],
             22: [0, -1, -5, 1000000], 23: [100, 101, -1000000, 5], 24: [0, 255, 256, 300]}
    updates = []
    for ecid, vs in cands.items():
        for v in vs:
            updates.append([(ecid, v)])
    for (e1, v1), (e2, v2) in itertools.product([(20, 100), (20, 501), (21, 9.0), (21, math.nan), ("EC3", 6), (777, 1), (22, -1), (23, 101)],
                                                [(20, 300), ("EC3", -5), (21, 11.0), (888, 2), ("EC3", 2), (22, 3), (23, 101)]):
        if e1 != e2:
            updates.append([(e1, v1), (e2, v2)])
    for upd in updates:
        sess = Session()
        try:
            h = sess.handler
            n_eval += 1
            distinct.add(("s2f15", str(upd)))
            before = {k: h.equipment_constants[k].value for k in EC}
            tree = ("L", [("L", [idtree(e), valtree(e, v) if e in EC else ("U4", [v])]) for e, v in upd])
            got = sess.ask(2, 15, tree)
            w = {"update": [(e, repr(v)) for e, v in upd]}
            if not (isinstance(got, tuple) and got[0] == "B"):
                fails.add("s2f15.answered", dict(w, got=repr(got)[:100]), "S2F15 was not answered by S2F16 with an acknowledge code")
                continue
            eac = got[1][0]
            after = {k: h.equipment_constants[k].value for k in EC}

            def in_range(e, v):
                return e in EC and not (isinstance(v, float) and math.isnan(v)) and within(e, v) and fits(e, v)
            all_ok = all(in_range(e, v) for e, v in upd)
            for k in EC:
                lo, hi = EC[k][1], EC[k][2]
                val = after[k]
                if isinstance(val, float) and math.isnan(val) or not within(k, val):
                    fails.add("s2f15.never-out-of-bounds", dict(w, constant=k, value=repr(val), bounds=[lo, hi], eac=eac), "after S2F15 a constant lies outside its declared min/max")
            if eac != 0 and any(not R.same(after[k], before[k]) for k in EC):
                fails.add("s2f15.refused-applies-nothing", dict(w, eac=eac, before=repr(before), after=repr(after)), "S2F15 was refused (EAC != 0) but a constant changed")
            if eac == 0:
                for e, v in upd:
                    if e in EC and not R.same(float(after[e]), float(v)) and not (EC[e][4] is V.F4):
                        fails.add("s2f15.accepted-applies-all", dict(w, constant=e, value=repr(after[e])), "S2F15 was accepted but a listed constant does not hold the sent value")
            if all_ok and eac != 0:
                fails.add("s2f15.valid-update-accepted", dict(w, eac=eac), "an update with known ids and in-range values was refused")
            if not all_ok and eac == 0 and any(e not in EC for e, _ in upd):
                fails.add("s2f15.unknown-id-refused", dict(w), "an update naming an unknown constant was accepted")
            if not all_ok and eac == 0 and any(e in EC and not fits(e, v) for e, v in upd):
                fails.add("s2f15.value-the-type-cannot-hold-refused", dict(w), "a value outside the range of the constant's type was accepted")
            # the history S2F15 -> S2F13: the constants still answer with their current values
            probe = sess.ask(2, 13, ("L", [idtree(k) for k in EC]))
            if not (isinstance(probe, tuple) and probe[0] == "L" and len(probe[1]) == len(EC)):
                fails.add("s2f13.answers-after-s2f15", dict(w, eac=eac, got=repr(probe)[:120]), "after this S2F15 an S2F13 naming every constant is not answered by S2F14 with one item per constant")
        finally:
            sess.close()
    return {"evaluations": n_eval, "distinct": len(distinct), "failures": list(fails),
            "scope": f"{len(ID_LISTS)} id lists (known, unknown, repeated, numeric and text ids, empty) for S1F3/S1F11/S2F13/S2F29; {len(updates)} S2F15 updates (1-2 constants, in range / boundary / out of range / NaN / inf / unknown id)",
            "rule": "distinct = (request kind, id list / update)", "samples": [{"s2f15": [[20, 501]]}]}


@bounded("C13", "alarms")
def bnd_alarms(tier, seed):
    """All histories of length <= 4 (quick: 3) over {enable/disable a/b, set/clear a/b, unknown ALID} from the initial state,
    with S5F5 / S5F7 probes after every step."""
    rnd = random.Random(seed + 131)
    fails = Fail()
    n_eval = 0
    distinct = set()
    ops = [("en", 100), ("dis", 100), ("en", 101), ("set", 100), ("clr", 100), ("set", 101), ("clr", 101), ("en", 555)]
    depth = 3 if tier == "quick" else 4
    seqs = list(itertools.product(ops, repeat=depth))
    for seq in seqs:
        sess = Session()
        n_eval += 1
        distinct.add(seq)
        enabled = {100: False, 101: False}
        isset = {100: False, 101: False}
        try:
            h = sess.handler
            for step, (op, alid) in enumerate(seq):
                w = {"history": list(seq[:step + 1])}
                sess.s5f1.clear()
                if op in ("en", "dis"):
                    got = sess.ask(5, 3, ("L", [("B", b"\x80" if op == "en" else b"\x00"), ("U4", [alid])]))
                    code = got[1][0] if isinstance(got, tuple) and got[0] == "B" else None
                    if alid in enabled:
                        enabled[alid] = op == "en"
                        if code != 0:
                            fails.add("s5f3.known-alarm-accepted", dict(w, ack=code), "S5F3 for a known alarm was not acknowledged with 0")
                    elif code in (0, None):
                        fails.add("s5f3.unknown-alarm-error", dict(w, ack=code), "S5F3 for an unknown ALID must be answered with an error code")
                    if sess.s5f1:
                        fails.add("s5f1.only-on-set-clear", dict(w), "an alarm report was sent by an enable/disable request")
                else:
                    new = op == "set"
                    changed = isset[alid] != new
                    (h.set_alarm if new else h.clear_alarm)(alid)
                    want = 1 if (changed and enabled[alid]) else 0
                    if len(sess.s5f1) != want:
                        fails.add("s5f1.exactly-for-changes-of-enabled-alarms", dict(w, reports=len(sess.s5f1), want=want),
                                  "S5F1 must be sent exactly when the set state changes and the alarm is enabled at that moment")
                    elif want:
                        t = sess.s5f1[0]
                        alcd, al, tx = t[1][0][1][0], t[1][1][1][0], t[1][2][1]
                        if bool(alcd & 0x80) != new or (alcd & 0x7F) != AL[alid][2] or al != alid or tx != AL[alid][1]:
                            fails.add("s5f1.content", dict(w, alcd=alcd, alid=al, altx=tx), "S5F1 ALCD bit 8 / code / ALID / ALTX differ from the alarm and its new state")
                    isset[alid] = new
                # probes
                got = sess.ask(5, 7, None)
                rows = got[1] if isinstance(got, tuple) and got[0] == "L" else None
                want_rows = [(a, AL[a][2] | (0x80 if isset[a] else 0)) for a in AL if enabled[a]]
                if rows is None or [(r[1][1][1][0], r[1][0][1][0]) for r in rows] != want_rows:
                    fails.add("s5f7.enabled-alarms-with-state", dict(w, got=repr(rows)[:160], want=want_rows), "S5F8 does not list exactly the enabled alarms with their current set state")
                # (999 is not an alarm of the equipment: the reply lists the requested alarms that exist, in request order - D37)
                for req in ([100], [101, 100], [], [100, 999], [999], [999, 101, 999, 100]):
                    got = sess.ask(5, 5, ("L", [("U4", [a]) for a in req]))
                    rows = got[1] if isinstance(got, tuple) and got[0] == "L" else None
                    ids = [a for a in req if a in AL] if req else list(AL)
                    want_rows = [(a, AL[a][2] | (0x80 if isset[a] else 0)) for a in ids]
                    if rows is None or [(r[1][1][1][0], r[1][0][1][0]) for r in rows] != want_rows:
                        fails.add("s5f5.requested-alarms-with-state", dict(w, request=req, got=repr(rows)[:160], want=want_rows), "S5F6 does not list exactly the requested alarms with their current set state")
        except Exception as exc:
            fails.add("alarm-history-runs", {"history": list(seq), "raised": f"{type(exc).__name__}: {exc}"[:200]}, "an alarm operation raised")
        finally:
            sess.close()
    return {"evaluations": n_eval, "distinct": len(distinct), "failures": list(fails),
            "scope": f"{len(seqs)} histories of {depth} operations over 2 alarms (+1 unknown id) x {{enable, disable, set, clear}}, S5F5/S5F7 after every step",
            "rule": "distinct = operation histories", "samples": [[["en", 100], ["set", 100], ["clr", 100]]]}
