"""C07: GEM communication state against the E30 establish-communications clauses (DESIGN.md Appendix A.2)."""
from __future__ import annotations

import itertools

from pyvc.runner import bounded, fd
from bounded import harness as H
from bounded.C01_api import Fail
from spec import e5ref as R

S1F14_OK = R.encode(("L", [("B", b"\x00"), ("L", [])]))
S1F14_DENY = R.encode(("L", [("B", b"\x01"), ("L", [])]))
S1F13_HOST = R.encode(("L", []))
S1F13_EQ = R.encode(("L", [("A", "m"), ("A", "1")]))
STATES = ("NOT_COMMUNICATING", "WAIT_CRA", "WAIT_DELAY", "COMMUNICATING")


def comm(handler):
    return handler.communication_state.current.name


def s1f13_sent(conn):
    return [f for f in conn.frames() if f["stype"] == 0 and f["stream"] == 1 and f["function"] == 13]


def timers():
    return H.virtual_timers.pending()


def reach(kind, state, commack_policy=0):
    handler, proto, conn = H.make_gem(kind)
    handler.on_commack_requested = lambda: commack_policy
    calls = []
    handler.register_stream_function(1, 1, lambda h, m: calls.append("s01f01") or h.stream_function(1, 2)())
    handler.register_stream_function(10, 3, lambda h, m: calls.append("s10f03") or None)
    handler.enable()
    conn.connect()
    if state == "NOT_COMMUNICATING":
        return handler, proto, conn, calls
    conn.feed(H.frame(stype=1, system=0x0A0B0C0D, session=0xFFFF))        # link selected -> WAIT_CRA, S1F13 out
    if state == "WAIT_CRA":
        return handler, proto, conn, calls
    if state == "WAIT_DELAY":
        t3 = [t for t in timers() if t.function.__name__ == "_on_wait_cra_timeout"]
        t3[-1].fire()
        return handler, proto, conn, calls
    out = s1f13_sent(conn)
    conn.feed(H.frame(0, out[-1]["system"], 1, 14, False, S1F14_OK))
    return handler, proto, conn, calls


def fire(name):
    ts = [t for t in timers() if t.function.__name__ == name]
    if ts:
        ts[-1].fire()
        return True
    return False


@fd("C07", "communication-steps")
def fd_steps():
    fails = Fail()
    total = 0
    events = ("s1f14-ack0", "s1f14-ack1", "s1f13-accept", "s1f13-deny", "other-primary", "t3-expiry", "delay-expiry", "link-lost", "disable", "reselect")
    for kind, state, ev in itertools.product(("host", "equipment"), STATES, events):
        with H.virtual_timers():
            policy = 1 if ev == "s1f13-deny" else 0
            handler, proto, conn, calls = reach(kind, state, policy)
            try:
                got0 = comm(handler)
                if got0 != state:
                    fails.add("setup", {"handler": kind, "state": state, "got": got0}, "could not reach the state (an earlier clause fails)")
                    continue
                total += 1
                outstanding = s1f13_sent(conn)
                n13_before = len(outstanding)
                conn.sent.clear()
                calls.clear()
                w = {"handler": kind, "state": state, "event": ev}
                applicable = True
                # the delay and the reply time are settings that may change at run time (setter, S2F15 on ECID 1): every timer armed
                # from now on must use the values configured NOW ("retried after the configured establish-communications delay")
                handler.settings.establish_communication_timeout = 7.25
                handler.settings.timeouts.t3 = 3.5
                if ev.startswith("s1f14"):
                    sysb = outstanding[-1]["system"] if outstanding else 0x5555
                    conn.feed(H.frame(0, sysb, 1, 14, False, S1F14_OK if ev.endswith("0") else S1F14_DENY))
                elif ev.startswith("s1f13"):
                    conn.feed(H.frame(0, 0x4242, 1, 13, True, S1F13_EQ if kind == "host" else S1F13_HOST))
                elif ev == "other-primary":
                    conn.feed(H.frame(0, 0x4343, 1, 1, True, b""))
                    conn.feed(H.frame(0, 0x4344, 10, 3, False, R.encode(("L", [("B", b"\x01"), ("A", "t")]))))
                elif ev == "t3-expiry":
                    applicable = fire("_on_wait_cra_timeout")
                elif ev == "delay-expiry":
                    applicable = fire("_on_wait_comm_delay_timeout")
                elif ev == "link-lost":
                    conn.close()
                elif ev == "disable":
                    handler.disable()
                elif ev == "reselect":
                    if state != "NOT_COMMUNICATING":
                        applicable = False
                    else:
                        conn.feed(H.frame(stype=1, system=0x0A0B0C0E, session=0xFFFF))
                if not applicable:
                    continue
                now = comm(handler)
                new13 = s1f13_sent(conn)
                # clause 1: COMMUNICATING is entered only by S1F14(COMMACK 0) in WAIT_CRA or an accepted inbound S1F13
                if now == "COMMUNICATING" and state != "COMMUNICATING":
                    legit = (ev == "s1f14-ack0" and state == "WAIT_CRA") or (ev == "s1f13-accept" and state in ("WAIT_CRA", "WAIT_DELAY"))
                    if not legit:
                        fails.add("communicating-only-after-commack-0", dict(w, now=now), "COMMUNICATING was entered without a completed S1F13/S1F14 exchange with COMMACK = 0")
                if ev == "s1f14-ack0" and state == "WAIT_CRA" and now != "COMMUNICATING":
                    fails.add("commack-0-establishes", dict(w, now=now), "S1F14 with COMMACK 0 in WAIT_CRA did not establish communication")
                # clause 2: refused / unanswered attempt -> WAIT_DELAY; delay expiry -> WAIT_CRA and one new S1F13
                if state == "WAIT_CRA" and ev in ("s1f14-ack1", "t3-expiry") and now != "WAIT_DELAY":
                    fails.add("refused-or-unanswered-goes-to-wait-delay", dict(w, now=now), "a refused (COMMACK != 0) or unanswered attempt must lead to WAIT_DELAY")
                if state == "WAIT_CRA" and ev in ("s1f14-ack1", "t3-expiry") and now == "WAIT_DELAY":
                    if not [t for t in timers() if t.function.__name__ == "_on_wait_comm_delay_timeout" and t.interval == handler.settings.establish_communication_timeout]:
                        fails.add("delay-timer-armed", dict(w), "no establish-communications delay timer with the configured delay is running in WAIT_DELAY")
                if state == "WAIT_DELAY" and ev == "delay-expiry":
                    if now != "WAIT_CRA" or len(new13) != 1:
                        fails.add("retry-after-delay", dict(w, now=now, s1f13_sent=len(new13)), "after the delay the attempt must be retried: WAIT_CRA and exactly one new S1F13")
                    elif not [t for t in timers() if t.function.__name__ == "_on_wait_cra_timeout" and t.interval == handler.settings.timeouts.t3]:
                        fails.add("reply-timer-armed", dict(w), "no reply timer with the configured T3 running in WAIT_CRA after the retry")
                # timers: exactly the timer of the current state is running (a timer that survives its state fires into a later
                # attempt and shortens its delay / reply time)
                live = sorted(t.function.__name__ for t in H.VirtualTimer.registry
                              if t.is_alive() and t.function.__name__ in ("_on_wait_cra_timeout", "_on_wait_comm_delay_timeout"))
                want_live = {"WAIT_CRA": ["_on_wait_cra_timeout"], "WAIT_DELAY": ["_on_wait_comm_delay_timeout"]}.get(now, [])
                if live != want_live:
                    fails.add("only-the-current-states-timer-runs", dict(w, now=now, running=live, expected=want_live),
                              "after the step a reply / delay timer of a state that was left is still running (or the current state's timer is not)")
                # clause 3
                if ev == "reselect" and (now != "WAIT_CRA" or len(new13) != 1):
                    fails.add("selected-link-starts-attempt", dict(w, now=now, s1f13_sent=len(new13)), "link selected while NOT_COMMUNICATING must lead to WAIT_CRA and one S1F13")
                if ev == "reselect" and new13:
                    want = S1F13_HOST if kind == "host" else None
                    if kind == "host" and new13[0]["body"] != S1F13_HOST:
                        fails.add("s1f13-body", dict(w, body=new13[0]["body"].hex()), "host S1F13 must carry an empty list")
                    if kind == "equipment" and R.parse(new13[0]["body"])[0][0] != "L" or (kind == "equipment" and len(R.parse(new13[0]["body"])[0][1]) != 2):
                        fails.add("s1f13-body", dict(w, body=new13[0]["body"].hex()), "equipment S1F13 must carry [MDLN, SOFTREV]")
                # clause 4
                if ev == "link-lost" and state in ("WAIT_CRA", "WAIT_DELAY") and now != "NOT_COMMUNICATING":
                    fails.add("link-loss-ends-the-attempts", dict(w, now=now), "attempts are retried 'for as long as the link stays up': after the link was lost during an "
                              "attempt (WAIT_CRA / WAIT_DELAY) the handler must be NOT_COMMUNICATING, so that the next link starts a new exchange (D43)")
                if ev in ("link-lost", "disable") and now == "COMMUNICATING":
                    fails.add("link-loss-or-disable-leaves-communicating", dict(w, now=now), "still COMMUNICATING after the link was lost / the handler was disabled")
                # clause 5
                if state != "COMMUNICATING" and calls:
                    fails.add("no-callbacks-unless-communicating", dict(w, calls=calls), "a stream/function callback was invoked while communication was not established")
                if state == "COMMUNICATING" and ev == "other-primary" and calls != ["s01f01", "s10f03"]:
                    fails.add("callbacks-when-communicating", dict(w, calls=calls), "application messages were not handed to the callbacks while COMMUNICATING")
                if ev == "s1f13-accept" or ev == "s1f13-deny":
                    rsp = [f for f in conn.frames() if f["stype"] == 0 and f["stream"] == 1 and f["function"] == 14]
                    if state in ("WAIT_CRA", "COMMUNICATING") and (len(rsp) != 1 or rsp[0]["system"] != 0x4242):
                        fails.add("s1f13-answered-once", dict(w, replies=len(rsp)), "an inbound S1F13 was not answered by exactly one S1F14 with its system bytes")
                    if rsp and ev == "s1f13-deny" and now == "COMMUNICATING" and state != "COMMUNICATING":
                        pass  # covered by communicating-only-after-commack-0
            finally:
                H.shutdown(proto, conn)
    by = {}
    for f in fails:
        by.setdefault(f["obligation"], f)
    names = ["link-loss-ends-the-attempts", "communicating-only-after-commack-0", "commack-0-establishes", "refused-or-unanswered-goes-to-wait-delay", "delay-timer-armed", "retry-after-delay",
             "reply-timer-armed", "only-the-current-states-timer-runs", "selected-link-starts-attempt", "s1f13-body", "link-loss-or-disable-leaves-communicating", "no-callbacks-unless-communicating",
             "callbacks-when-communicating", "s1f13-answered-once", "setup"]
    obs = [{"name": n, "ok": n not in by, "witness": by[n]["witness"] if n in by else None, "detail": by[n]["detail"] if n in by else ""} for n in names]
    return {"obligations": obs, "domain": "2 roles x 4 communication states x 10 events (S1F14 ack 0/1, S1F13 accepted/denied, other primaries, T3 expiry, delay expiry, link lost, disable, select)",
            "size": total, "exhaustive": True, "samples": [{"state": "WAIT_CRA", "event": "s1f14-ack1", "expect": "WAIT_DELAY"}]}


@fd("C07", "retry-loop")
def fd_retry():
    """Clause 2 iterated: k consecutive unanswered attempts produce k+1 S1F13, each after its own delay, while the link is up."""
    fails = Fail()
    for kind in ("host", "equipment"):
        with H.virtual_timers():
            handler, proto, conn, _ = reach(kind, "WAIT_CRA")
            try:
                n = len(s1f13_sent(conn))
                for k in range(5):
                    ok1 = fire("_on_wait_cra_timeout")
                    st1 = comm(handler)
                    ok2 = fire("_on_wait_comm_delay_timeout")
                    st2 = comm(handler)
                    n2 = len(s1f13_sent(conn))
                    if not (ok1 and ok2 and st1 == "WAIT_DELAY" and st2 == "WAIT_CRA" and n2 == n + 1):
                        fails.add("retry-continues", {"handler": kind, "round": k, "after_t3": st1, "after_delay": st2, "s1f13_total": n2, "expected_total": n + 1},
                                  "the establish-communications retry cycle stopped although the link is up")
                        break
                    n = n2
            finally:
                H.shutdown(proto, conn)
    return {"obligations": [{"name": "retry-continues", "ok": not fails, "witness": fails[0]["witness"] if fails else None, "detail": fails[0]["detail"] if fails else ""}],
            "domain": "2 roles x 5 consecutive unanswered attempts", "size": 10, "exhaustive": True, "samples": [{"rounds": 5}]}


@fd("C07", "state-machine-contracts")
def fd_state_machine_contracts():
    """The assumed call-site contracts of CommunicationStateMachine.s1f13received / s1f14received / communicationreqfail
    (contracts/C07_comm.py) against the real machine (inside a real handler, so that its enter handlers run) from every
    reachable state: WrongSourceStateError and no change outside the contract's sources, else the contract's target."""
    from contracts import C07_comm as K
    from secsgem.common.state_machine import WrongSourceStateError
    obs = []
    total = 0
    with H.virtual_timers():
        for ccls in K.SM_CONTRACTS:
            bad = None
            for kind in ("host", "equipment"):
                for state in STATES:
                    total += 1
                    handler, proto, conn, _ = reach(kind, state)
                    try:
                        m = handler.communication_state
                        before = m.current
                        want_raise = bool(ccls.raises(m)[WrongSourceStateError])
                        try:
                            getattr(m, ccls.sm_name)()
                            raised = False
                        except WrongSourceStateError:
                            raised = True
                        want_state = before if want_raise else ccls.sm_target
                        if raised != want_raise or m.current is not want_state:
                            bad = {"transition": ccls.sm_name, "role": kind, "from": before.name, "raised": raised, "contract_raises": want_raise,
                                   "state": m.current.name, "contract_state": want_state.name}
                    finally:
                        H.shutdown(proto, conn)
                    if bad:
                        break
                if bad:
                    break
            obs.append({"name": f"{ccls.sm_name}.contract-matches-real-machine", "ok": bad is None, "witness": bad,
                        "detail": "the assumed contract of the transition differs from the real CommunicationStateMachine"})
    return {"obligations": obs, "domain": "3 transitions x 2 roles x {NOT_COMMUNICATING, WAIT_CRA, WAIT_DELAY, COMMUNICATING} on real handlers",
            "size": total, "exhaustive": True, "samples": [{"transition": "s1f14received", "from": "WAIT_CRA", "to": "COMMUNICATING"}]}
