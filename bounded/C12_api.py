"""C12: event-report configuration against a reference model (DESIGN.md Appendix A.4), small id domains.

Bounded (small-scope) pass: all request sequences up to a stated length over a small request alphabet are executed on
the real GemEquipmentHandler through real S2F33/S2F35/S2F37/S6F15 frames; after every step the acknowledge code and the
S6F16 body of every collection event are compared with the model, and event triggers with their S6F11."""
from __future__ import annotations

import itertools
import random

from pyvc.runner import bounded, fd
from bounded import harness as H
from bounded.C01_api import Fail
from spec import e5ref as R

RPT = (900, 901)
CE = (1, 2)
VID_OK = (1002, 1003)
VID_BAD = 9999


def u4(n):
    return ("U4", [n])


def s2f33(entries):
    return R.encode(("L", [u4(1), ("L", [("L", [u4(r), ("L", [u4(v) for v in vids])]) for r, vids in entries])]))


def s2f35(entries):
    return R.encode(("L", [u4(1), ("L", [("L", [u4(c), ("L", [u4(r) for r in rs])]) for c, rs in entries])]))


def s2f37(ceed, ceids):
    return R.encode(("L", [("BOOLEAN", [ceed]), ("L", [u4(c) for c in ceids])]))


class Model:
    def __init__(self):
        self.reports = {}
        self.links = {}
        self.enabled = {}

    def copy_state(self):
        return ({k: list(v) for k, v in self.reports.items()}, {k: list(v) for k, v in self.links.items()}, dict(self.enabled))

    def define(self, entries):
        """-> (accepted?, None)."""
        err = False
        for r, vids in entries:
            if r in self.reports and vids:
                err = True
            for v in vids:
                if v not in VID_OK:
                    err = True
        if err:
            return False
        if not entries:
            self.reports.clear()
            self.links.clear()
            self.enabled.clear()
            return True
        for r, vids in entries:
            if not vids:
                for c in list(self.links):
                    self.links[c] = [x for x in self.links[c] if x != r]
                    if not self.links[c]:
                        del self.links[c]
                        self.enabled.pop(c, None)
                self.reports.pop(r, None)
            else:
                self.reports[r] = list(vids)
        return True

    def link(self, entries):
        err = False
        for c, rs in entries:
            if c not in (1, 2, 3, 20, 21):
                err = True
            for r in rs:
                if c in self.links and r in self.links[c]:
                    err = True
                if r not in self.reports:
                    err = True
        if err:
            return False
        for c, rs in entries:
            if not rs:
                self.links.pop(c, None)
                self.enabled.pop(c, None)
            elif c in self.links:
                self.links[c].extend(rs)
            else:
                self.links[c] = list(rs)
                self.enabled[c] = False
        return True

    def enable(self, ceed, ceids):
        if not ceids:
            for c in self.links:
                self.enabled[c] = ceed
            return True
        if all(c in self.links for c in ceids):
            for c in ceids:
                self.enabled[c] = ceed
            return True
        return None if any(c in self.links for c in ceids) else False     # mixed lists are not judged

    def rpt(self, c):
        """What S6F16 carries for the event: its linked reports in link order - whether or not the event is enabled (CEED governs
        the unsolicited S6F11 only; the statement: "requesting (S6F15) any event always produces ... exactly its linked reports")."""
        if c in self.links:
            return [(r, list(self.reports[r])) for r in self.links[c]]
        return []


def requests():
    reqs = []
    reqs.append(("define", []))
    for r in RPT:
        reqs.append(("define", [(r, [])]))
        reqs.append(("define", [(r, [1002])]))
    reqs.append(("define", [(900, [1002, 1003])]))
    reqs.append(("define", [(900, [VID_BAD])]))
    reqs.append(("define", [(900, [1002]), (901, [1003])]))
    reqs.append(("define", [(901, [1002]), (900, [VID_BAD])]))
    for c in CE:
        reqs.append(("link", [(c, [])]))
        reqs.append(("link", [(c, [900])]))
    reqs.append(("link", [(1, [900, 901])]))
    reqs.append(("link", [(1, [901])]))
    reqs.append(("link", [(1, [900, 900])]))
    reqs.append(("link", [(77, [900])]))
    reqs.append(("link", [(1, [555])]))
    reqs.append(("link", [(2, [901]), (1, [555])]))
    reqs.append(("enable", (True, [])))
    reqs.append(("enable", (False, [])))
    reqs.append(("enable", (True, [1])))
    reqs.append(("enable", (True, [88])))
    reqs.append(("trigger", 1))
    return reqs


class Session:
    """One real handler, driven by frames."""

    def __init__(self):
        import secsgem.gem.collection_event_capability as CEC
        self.ctx = [H.virtual_timers(), H.inline_threads(CEC)]
        for c in self.ctx:
            c.__enter__()
        self.handler, self.proto, self.conn = H.make_gem("equipment", "EQUIPMENT_OFFLINE", "REMOTE", t3=0.05)
        self.conn.auto_reply = lambda fr: H.frame(0, fr["system"], 6, 12, False, R.encode(("B", b"\x00"))) if (fr["stype"] == 0 and (fr["stream"], fr["function"]) == (6, 11)) else None
        H.gem_to_communicating(self.handler, self.proto, self.conn)
        self.sys = 0x2000

    def close(self):
        H.shutdown(self.proto, self.conn)
        for c in reversed(self.ctx):
            c.__exit__(None, None, None)

    def ask(self, stream, function, body):
        self.sys += 1
        self.conn.sent.clear()
        self.conn.feed(H.frame(0, self.sys, stream, function, True, body))
        return [f for f in self.conn.frames() if f["stype"] == 0]

    def ack(self, stream, function, body):
        fr = self.ask(stream, function, body)
        rsp = [f for f in fr if f["stream"] == stream and f["system"] == self.sys]
        if len(rsp) != 1 or rsp[0]["function"] != function + 1:
            return ("abort-or-missing", [(f["stream"], f["function"]) for f in rsp])
        t = R.parse(rsp[0]["body"])[0]
        return t[1][0] if t[0] == "B" else t

    def values(self, vids):
        fr = self.ask(1, 3, R.encode(("L", [u4(v) for v in vids])))
        rsp = [f for f in fr if (f["stream"], f["function"]) == (1, 4)]
        return R.parse(rsp[0]["body"])[0][1] if rsp else None

    def s6f15(self, c):
        fr = self.ask(6, 15, R.encode(u4(c)))
        rsp = [f for f in fr if f["stream"] == 6]
        if len(rsp) != 1 or rsp[0]["function"] != 16:
            return ("abort", [(f["stream"], f["function"]) for f in rsp])
        return R.parse(rsp[0]["body"])[0]

    def trigger(self, c):
        self.conn.sent.clear()
        self.handler.trigger_collection_events([c])
        return [R.parse(f["body"])[0] for f in self.conn.frames() if f["stype"] == 0 and (f["stream"], f["function"]) == (6, 11)]


def norm(tree):
    """Compare values, not integer widths: the library picks the narrowest format for dynamically typed ids."""
    if isinstance(tree, tuple) and len(tree) == 2 and isinstance(tree[0], str):
        kind, val = tree
        if kind == "L":
            return [norm(c) for c in val]
        if kind in R.SIZE and kind[0] in "UI":
            return ("int", list(val))
        return (kind, val if not isinstance(val, list) else list(val))
    return tree


def rpt_tree(sess, rpt):
    """Expected RPT list tree for model links, with the current values fetched through S1F3."""
    out = []
    for r, vids in rpt:
        vals = sess.values(vids) if vids else []
        out.append(("L", [u4(r), ("L", list(vals or []))]))
    return out


def run_sequence(seq, fails, where):
    sess = Session()
    model = Model()
    try:
        for step, (kind, arg) in enumerate(seq):
            w = dict(where, step=step, sequence=[(k, a) for k, a in seq[:step + 1]])
            before = model.copy_state()
            if kind == "define":
                ok = model.define(arg)
                ack = sess.ack(2, 33, s2f33(arg))
            elif kind == "link":
                ok = model.link(arg)
                ack = sess.ack(2, 35, s2f35(arg))
            elif kind == "enable":
                ok = model.enable(*arg)
                ack = sess.ack(2, 37, s2f37(*arg))
                if ok is None:
                    return True
            else:
                want = model.rpt(arg)
                got = sess.trigger(arg)
                if bool(got) != bool(arg in model.links and model.enabled.get(arg)) or len(got) > 1:
                    fails.add("trigger.report-iff-linked-and-enabled", dict(w, reports=len(got)), "an event trigger did not produce exactly one S6F11 iff the event is linked and enabled")
                elif got:
                    exp = ("L", [u4(1), u4(arg), ("L", rpt_tree(sess, want))])
                    if norm(got[0])[1:] != norm(exp)[1:]:
                        fails.add("trigger.report-content", dict(w, got=repr(got[0])[:200], want=repr(exp)[:200]), "S6F11 does not contain exactly the linked reports in link order with current values")
                continue
            if not isinstance(ack, int):
                fails.add("request-answered", dict(w, got=ack), "the request was not answered by its secondary with an acknowledge code")
                return False
            if ok and ack != 0:
                fails.add("valid-request-accepted", dict(w, ack=ack), "a request that is valid per E5 was refused")
                return False
            if not ok and ack == 0:
                fails.add("invalid-request-refused", dict(w, ack=ack), "a request that E5 refuses (unknown id / redefinition / already linked) was acknowledged with 0")
                return False
            # observable state: S6F16 of every collection event (this also shows that refused requests changed nothing)
            for c in CE:
                got = sess.s6f15(c)
                exp = ("L", [u4(1), u4(c), ("L", rpt_tree(sess, model.rpt(c)))])
                if norm(got) != norm(exp):
                    name = "refused-changes-nothing" if not ok else "accepted-has-e5-effect"
                    fails.add(name if isinstance(got, tuple) and got[0] != "abort" else "s6f15-never-aborts",
                              dict(w, ceid=c, got=repr(got)[:200], want=repr(exp)[:200]), "S6F16 differs from the reference model (linked reports in link order, current values)")
                    return False
        return True
    finally:
        sess.close()


@bounded("C12", "report-config-sequences")
def bnd_sequences(tier, seed):
    rnd = random.Random(seed + 12)
    fails = Fail()
    reqs = requests()
    n_eval = 0
    distinct = set()
    # every state the model can reach in two steps is the start of every third request: an inductive step within the scope
    setup = [[("define", [(900, [1002])]), ("link", [(1, [900])]), ("enable", (True, []))],
             [("define", [(900, [1002]), (901, [1003])]), ("link", [(1, [900, 901])]), ("enable", (True, []))],
             [("define", [(900, [1002]), (901, [1003])]), ("link", [(1, [900])]), ("link", [(2, [901])]), ("enable", (True, []))],
             [("define", [(900, [1002])]), ("link", [(1, [900, 900])]), ("enable", (True, []))],
             []]
    depth = 2 if tier == "quick" else 3
    for pre in setup:
        for tail in itertools.product(reqs, repeat=depth):
            if tier == "quick" and rnd.random() > 0.55 and pre:
                continue
            n_eval += 1
            distinct.add((len(pre), tuple(k for k, _ in tail), str(tail)))
            run_sequence(list(pre) + list(tail), fails, {"prefix": len(pre)})
            if len(fails) > 30:
                break
    # life cycles: delete (all / one / the other) -> redefine the same ids with other variables -> link again -> enable:
    # whatever was derived from the old definition (and possibly kept) must not survive
    lifecycles = 0
    for pre in setup[:4]:
        for delete in ([("define", [])], [("define", [(900, [])])], [("define", [(900, [])]), ("define", [(901, [])])], [("link", [(1, [])])]):
            for redefine in ([(900, [1003])], [(900, [1003, 1002])], [(901, [1002]), (900, [1003])]):
                for relink in ([(1, [900])], [(1, [901, 900])], [(2, [900])]):
                    seq = list(pre) + list(delete) + [("define", redefine), ("link", relink), ("enable", (True, [])), ("trigger", relink[0][0])]
                    n_eval += 1
                    lifecycles += 1
                    distinct.add(str(seq))
                    run_sequence(seq, fails, {"lifecycle": True})
    for _ in range(60 if tier == "quick" else 600):
        seq = [rnd.choice(reqs) for _ in range(rnd.randint(4, 8))]
        n_eval += 1
        distinct.add(str(seq))
        run_sequence(seq, fails, {"random": True})
    return {"evaluations": n_eval, "distinct": len(distinct), "failures": list(fails),
            "scope": f"RPTID in {RPT}, CEID in {CE} (+unknown 77/88), VID in {VID_OK} (+unknown); {len(reqs)} requests incl. duplicates inside one request, deletions of linked reports, "
                     f"empty lists; all sequences of {depth} requests after 5 prefixes, {lifecycles} delete/redefine/relink life cycles, random sequences of 4..8",
            "rule": "distinct = request sequences", "samples": [[["define", [[900, [1002]]]], ["link", [[1, [900]]]]]]}
