"""C18: state-machine engine against a reference model of hierarchical state machines.

Reference semantics (from the property statement): a request is allowed iff the current state is one of the
transition's sources; an allowed one exits the states in anc*(source) \\ anc*(destination) (leave events, innermost
first), makes the destination current, enters anc*(destination) \\ anc*(source) and fires 'called' once; afterwards
active == anc*(current).  Requests issued from inside handlers are processed immediately with the same rule."""
from __future__ import annotations

import itertools
import random
import threading
import sys

from pyvc.runner import bounded, fd
from bounded.C01_api import Fail

import secsgem.common
from secsgem.common.state_machine import State, StateMachine, Transition, UnknownTransitionError, WrongSourceStateError


def ancestors(state):
    out = []
    while state is not None:
        out.append(state)
        state = state.parent
    return out


def all_states(machine):
    seen = []
    for t in machine._transitions:
        for s in list(t.sources) + [t.destination]:
            for a in ancestors(s):
                if a not in seen:
                    seen.append(a)
    for a in ancestors(machine.current_state):
        if a not in seen:
            seen.append(a)
    return seen


class Recorder:
    def __init__(self, machine):
        self.machine = machine
        self.log = []
        self.states = all_states(machine)
        for s in self.states:
            s.events.enter.register(lambda _d, s=s: self.log.append(("enter", s.name)))
            s.events.leave.register(lambda _d, s=s: self.log.append(("leave", s.name)))
        for t in machine._transitions:
            t.events.called.register(lambda _d, t=t: self.log.append(("called", t.name)))

    def active(self):
        return sorted(s.name for s in self.states if s.active)


def expected_step(machine, name):
    """(allowed, error class, destination, leave list, enter list) from the reference semantics."""
    ts = [t for t in machine._transitions if t.name == name]
    if not ts:
        return False, UnknownTransitionError, None, [], []
    t = ts[0]
    cur = machine.current_state
    if cur not in t.sources:
        return False, WrongSourceStateError, None, [], []
    a_src, a_dst = ancestors(cur), ancestors(t.destination)
    leave = [s.name for s in a_src if s not in a_dst]
    # the destination itself is always entered (its enter handlers run, also when it is an ancestor of the source and
    # stayed active); every other state is entered exactly when it was not active before
    enter = [s.name for s in a_dst if s not in a_src or s is t.destination]
    if cur is t.destination:
        leave, enter = [cur.name], [cur.name]     # external self-transition: exit and re-enter the state itself
    return True, None, t.destination, leave, enter


def check_step(rec, name, fails, where, allow_nested=False):
    m = rec.machine
    before_cur = m.current_state
    before_active = rec.active()
    allowed, err, dst, leave, enter = expected_step(m, name)
    rec.log.clear()
    raised = None
    try:
        m._perform_transition(name)
    except (UnknownTransitionError, WrongSourceStateError) as exc:
        raised = type(exc)
    except Exception as exc:
        raised = type(exc)
    w = dict(where, transition=name, state_before=before_cur.name)
    if not allowed:
        if raised is not err:
            fails.add("rejected-request-raises", w, f"expected {err.__name__}, got {raised.__name__ if raised else 'no exception'}")
        if m.current_state is not before_cur or rec.active() != before_active or rec.log:
            fails.add("rejected-request-changes-nothing", dict(w, log=rec.log[:6], active=rec.active()), "a rejected request changed the machine")
        return
    if raised is not None:
        fails.add("allowed-request-accepted", w, f"allowed request raised {raised.__name__}")
        return
    if allow_nested:
        # machines whose own enter handlers forward to further states: the end state is the handlers' business, the
        # engine invariant is not - active flags must be exactly the current state and its ancestors, and every state's
        # enter/leave events must account for its change of activity
        want_active = sorted(s.name for s in ancestors(m.current_state))
        if rec.active() != want_active:
            fails.add("active-set-is-current-and-ancestors", dict(w, active=rec.active(), want=want_active, current=m.current_state.name),
                      "active flags differ from current state + ancestors (after forwarding enter handlers)")
        for s in rec.states:
            delta = sum(1 for k, n in rec.log if k == "enter" and n == s.name) - sum(1 for k, n in rec.log if k == "leave" and n == s.name)
            was = s.name in before_active
            if (1 if s.name in want_active else 0) - (1 if was else 0) != delta:
                fails.add("events-account-for-activity", dict(w, state=s.name, log=rec.log[:12]), "enter/leave events of a state do not match its change of activity")
                break
        return
    if m.current_state is not dst:
        fails.add("moves-to-destination", dict(w, got=m.current_state.name, want=dst.name), "current state is not the transition's destination")
    want_active = sorted(s.name for s in ancestors(m.current_state))
    if rec.active() != want_active:
        fails.add("active-set-is-current-and-ancestors", dict(w, active=rec.active(), want=want_active), "active flags differ from current state + ancestors")
    got_leave = [n for k, n in rec.log if k == "leave"]
    got_enter = [n for k, n in rec.log if k == "enter"]
    got_called = [n for k, n in rec.log if k == "called"]
    if sorted(got_leave) != sorted(leave) or sorted(got_enter) != sorted(enter) or got_called != [name]:
        fails.add("events-exactly-once", dict(w, leave=got_leave, enter=got_enter, called=got_called, want_leave=leave, want_enter=enter),
                  "leave/enter/called events differ from the states exited/entered")


def shipped():
    from secsgem.hsms.connection_state_machine import ConnectionStateMachine
    from secsgem.gem.communication_state_machine import CommunicationStateMachine
    from secsgem.gem.control_state_machine import ControlStateMachine
    return {"hsms-connection": ConnectionStateMachine, "gem-communication": CommunicationStateMachine, "gem-control": ControlStateMachine}


def reach_all(factory):
    """BFS over the real machine (fresh instance per path) -> {state name: transition path}."""
    paths = {}
    m0 = factory()
    names = sorted({t.name for t in m0._transitions})
    frontier = [[]]
    paths[m0.current_state.name] = []
    while frontier:
        nxt = []
        for p in frontier:
            for n in names:
                m = factory()
                try:
                    for step in p + [n]:
                        m._perform_transition(step)
                except Exception:
                    continue
                if m.current_state.name not in paths:
                    paths[m.current_state.name] = p + [n]
                    nxt.append(p + [n])
        frontier = nxt
    return paths, names


@fd("C18", "shipped-machines")
def fd_shipped():
    """Every (reachable state, transition name incl. an unknown one) of the three shipped machines, handlers recording."""
    obs = []
    total = 0
    from bounded.harness import virtual_timers
    import secsgem.common
    settings = secsgem.common.Settings() if False else None
    from secsgem.hsms.settings import HsmsSettings
    for mname, cls in shipped().items():
        def factory(cls=cls):
            if mname == "gem-communication":
                return cls(HsmsSettings())
            return cls()
        forwarding = mname == "gem-control"
        with virtual_timers():
            paths, names = reach_all(factory)
        fails = Fail()
        for sname, path in paths.items():
            for n in names + ["no_such_transition"]:
              with virtual_timers():
                m = factory()
                for step in path:
                    m._perform_transition(step)
                rec = Recorder(m)
                check_step(rec, n, fails, {"machine": mname}, allow_nested=forwarding)
                total += 1
        obs.append({"name": f"{mname}.all-steps", "ok": not fails, "witness": fails[0]["witness"] if fails else None,
                    "detail": (fails[0]["obligation"] + ": " + fails[0]["detail"]) if fails else ""})
        with virtual_timers():
            m = factory()
        rec = Recorder(m)
        want = sorted(s.name for s in ancestors(m.current_state))
        obs.append({"name": f"{mname}.initial-active-set", "ok": rec.active() == want, "witness": {"active": rec.active(), "want": want},
                    "detail": "initially active states differ from the initial state and its ancestors"})
    return {"obligations": obs, "domain": "3 shipped machines x reachable states x (transition names + unknown)", "size": total, "exhaustive": True,
            "samples": [{"machine": "hsms-connection", "state": "NOT_CONNECTED", "transition": "connect"}]}


def _bare(cls):
    """Machine instance without the library's own forwarding handlers interfering: constructed normally."""
    return cls()


# ------------------------------------------------------------------------------------------------ generated machines
class GenMachine(StateMachine):
    def __init__(self, parents, transitions, initial):
        super().__init__()
        import enum
        E = enum.Enum("E", {f"S{i}": i for i in range(len(parents))})
        self.states = []
        for i, p in enumerate(parents):
            self.states.append(State(E[f"S{i}"], f"S{i}", parent=self.states[p] if p is not None else None))
        self._current_state = self.states[initial]
        for a in ancestors(self._current_state):
            a._active = True
        self._transitions = [Transition(n, [self.states[s] for s in srcs], self.states[d]) for n, srcs, d in transitions]


def gen_machines(rnd, count, max_states=6, max_depth=3, composite=False):
    """composite=True: transitions may start and end at states that have sub-states (and the initial state may be
    one), so transitions between a state and its own ancestors / descendants occur."""
    for _ in range(count):
        n = rnd.randint(2, max_states)
        parents = [None]
        depth = [1]
        for i in range(1, n):
            cands = [None] + [j for j in range(i) if depth[j] < max_depth]
            p = rnd.choice(cands)
            parents.append(p)
            depth.append(1 if p is None else depth[p] + 1)
        leaves = [i for i in range(n) if i not in parents]
        if composite:
            leaves = list(range(n))
        nt = rnd.randint(1, 8)
        trans = []
        for k in range(nt):
            srcs = rnd.sample(leaves, rnd.randint(1, min(2, len(leaves))))
            trans.append((f"t{k}", srcs, rnd.choice(leaves)))
        yield parents, trans, rnd.choice(leaves)


@bounded("C18", "generated-machines")
def bnd_generated(tier, seed):
    rnd = random.Random(seed + 18)
    fails = Fail()
    n_eval = 0
    distinct = set()
    count = 300 if tier == "quick" else 3000
    for parents, trans, initial in gen_machines(rnd, count):
        m = GenMachine(parents, trans, initial)
        rec = Recorder(m)
        names = [t[0] for t in trans] + ["nope"]
        shape = (tuple(parents), len(trans))
        for step in range(6):
            n = rnd.choice(names)
            check_step(rec, n, fails, {"parents": parents, "transitions": trans, "initial": initial, "step": step})
            n_eval += 1
        distinct.add(shape)
    # the same with composite states as sources / destinations / initial state
    for parents, trans, initial in gen_machines(rnd, count, composite=True):
        m = GenMachine(parents, trans, initial)
        rec = Recorder(m)
        names = [t[0] for t in trans] + ["nope"]
        for step in range(6):
            n = rnd.choice(names)
            check_step(rec, n, fails, {"parents": parents, "transitions": trans, "initial": initial, "step": step, "composite_endpoints": True})
            n_eval += 1
        distinct.add((tuple(parents), len(trans), "composite"))
    # re-entrant handlers: an enter handler requests a further transition (flat and hierarchical destinations)
    nested_cases = 0
    for parents, trans, initial in gen_machines(rnd, count // 3, max_states=5):
        m = GenMachine(parents, trans, initial)
        rec = Recorder(m)
        # pick a transition t0 allowed now and a transition t1 allowed from t0's destination
        t0s = [t for t in m._transitions if m.current_state in t.sources]
        if not t0s:
            continue
        t0 = rnd.choice(t0s)
        t1s = [t for t in m._transitions if t0.destination in t.sources and t.destination is not t0.destination]
        if not t1s:
            continue
        t1 = rnd.choice(t1s)
        fired = []

        def handler(_d, m=m, t1=t1, fired=fired):
            if not fired:
                fired.append(1)
                m._perform_transition(t1.name)
        # the handler sits on the destination itself or (every other case, where there is one) on an ancestor of the
        # destination that is entered by t0 - it then runs BEFORE the destination's own enter event (D33)
        entered_ancestors = [a for a in ancestors(t0.destination)[1:] if a not in ancestors(m.current_state)]
        holder = entered_ancestors[-1] if entered_ancestors and nested_cases % 2 else t0.destination
        holder.events.enter.register(handler)
        nested_cases += 1
        n_eval += 1
        try:
            m._perform_transition(t0.name)
        except Exception as exc:
            fails.add("nested-request-from-enter-handler", {"parents": parents, "transitions": trans, "initial": initial, "outer": t0.name, "inner": t1.name},
                      f"raised {type(exc).__name__}: {exc}")
            continue
        want_active = sorted(s.name for s in ancestors(m.current_state))
        if m.current_state is not t1.destination or rec.active() != want_active:
            fails.add("nested-request-from-enter-handler", {"parents": parents, "transitions": trans, "initial": initial, "outer": t0.name, "inner": t1.name,
                                                            "current": m.current_state.name, "active": rec.active(), "want_active": want_active},
                      "after a transition requested from inside an enter handler the active set is not current + ancestors")
    # scripted re-entrant chains (also returning to the state that is still being entered), compared event by event with
    # a simulation of the reference semantics; the scripted handler is registered BEFORE the recording handlers
    chains = 0
    for parents, trans, initial in list(gen_machines(rnd, count // 2, max_states=5)) + list(gen_machines(rnd, count // 2, max_states=5, composite=True)):
        m = GenMachine(parents, trans, initial)
        script = {}
        for s_ in m.states:
            outs = [t.name for t in m._transitions if s_ in t.sources]
            if outs and rnd.random() < 0.6:
                script[s_.name] = [rnd.choice(outs) for _ in range(rnd.randint(1, 2))]
        live = {k: list(v) for k, v in script.items()}

        def mk(s_):
            def h(_d):
                q = live.get(s_.name)
                if q and m.current_state is s_:
                    m._perform_transition(q.pop(0))
            return h
        for s_ in m.states:
            s_.events.enter.register(mk(s_))
        rec = Recorder(m)
        start = [t.name for t in m._transitions if m.current_state in t.sources]
        if not start:
            continue
        t0 = rnd.choice(start)
        # reference simulation
        sim_cur = [m.current_state]
        sim_q = {k: list(v) for k, v in script.items()}
        want = []

        def sim(name, depth=0):
            t = next(t for t in m._transitions if t.name == name)
            cur = sim_cur[0]
            if cur not in t.sources or depth > 12:
                raise KeyError(name)
            a_src, a_dst = ancestors(cur), ancestors(t.destination)
            lv = [x for x in a_src if x not in a_dst] if cur is not t.destination else [cur]
            en = [x for x in reversed(a_dst) if x not in a_src or x is t.destination] if cur is not t.destination else [cur]
            for x in lv:
                want.append(("leave", x.name))
            sim_cur[0] = t.destination
            for x in en:
                want.append(("enter", x.name))
                q = sim_q.get(x.name)
                if q and sim_cur[0] is x:
                    sim(q.pop(0), depth + 1)
            want.append(("called", name))
        try:
            sim(t0)
        except (KeyError, RecursionError):
            continue
        chains += 1
        n_eval += 1
        try:
            m._perform_transition(t0)
        except Exception as exc:
            fails.add("re-entrant-chain", {"parents": parents, "transitions": trans, "initial": initial, "script": script, "first": t0}, f"raised {type(exc).__name__}")
            continue
        want_active = sorted(x.name for x in ancestors(sim_cur[0]))
        if m.current_state is not sim_cur[0] or rec.active() != want_active or sorted(rec.log) != sorted(want):
            fails.add("re-entrant-chain", {"parents": parents, "transitions": trans, "initial": initial, "script": script, "first": t0,
                                           "current": m.current_state.name, "want_current": sim_cur[0].name, "active": rec.active(),
                                           "log": rec.log[:14], "want_log": want[:14]},
                      "state, active set or recorded enter/leave/called events differ from the reference semantics for a chain of handler-requested transitions")
    return {"evaluations": n_eval, "distinct": len(distinct), "failures": list(fails),
            "scope": f"{chains} scripted re-entrant chains; {count} generated machines (<= 6 states, depth <= 3, <= 8 transitions) x 6 requests; {nested_cases} machines with a re-entrant enter handler",
            "rule": "distinct = (hierarchy shape, number of transitions)", "samples": [{"parents": [None, 0, 0], "transitions": [["t0", [1], 2]]}]}


# ------------------------------------------------------------------------------------------------ concurrency
def guarded_by_lock(func_node, attr):
    """AST obligation: every assignment to self.<attr> inside the function is lexically inside `with self.<lock>:`."""
    import ast
    unguarded = []

    def walk(node, guarded):
        for child in ast.iter_child_nodes(node):
            g = guarded
            if isinstance(child, ast.With):
                for item in child.items:
                    src = ast.unparse(item.context_expr)
                    if src.startswith("self.") and "lock" in src.lower():
                        g = True
            if isinstance(child, (ast.Assign, ast.AugAssign)):
                targets = child.targets if isinstance(child, ast.Assign) else [child.target]
                for t in targets:
                    if isinstance(t, ast.Attribute) and t.attr == attr and not g:
                        unguarded.append(child.lineno)
            walk(child, g)

    walk(func_node, False)
    return unguarded


def forced_interleaving():
    """Two threads trigger different transitions from the same state; thread A is suspended (sys.settrace) after it left
    the source state and before it wrote the new current state, thread B runs its whole transition in between."""
    import inspect
    m = GenMachine([None, None, None], [("to1", [0], 1), ("to2", [0], 2)], 0)
    rec = Recorder(m)
    src, first = inspect.getsourcelines(StateMachine._perform_transition)
    stop_line = next(first + i for i, l in enumerate(src) if "old_state = self._current_state" in l)
    at_point = threading.Event()
    resume = threading.Event()
    code = StateMachine._perform_transition.__code__

    def tracer(frame, event, arg):
        if frame.f_code is code:
            def local(frame, event, arg):
                if event == "line" and frame.f_lineno == stop_line and not at_point.is_set():
                    at_point.set()
                    resume.wait(5)
                return local
            return local
        return None

    errs = []

    def run_a():
        sys.settrace(tracer)
        try:
            m._perform_transition("to1")
        except Exception as exc:
            errs.append(("A", type(exc).__name__))
        finally:
            sys.settrace(None)

    def run_b():
        try:
            m._perform_transition("to2")
        except Exception as exc:
            errs.append(("B", type(exc).__name__))

    ta = threading.Thread(target=run_a, daemon=True)
    ta.start()
    if not at_point.wait(5):
        return None
    tb = threading.Thread(target=run_b, daemon=True)
    tb.start()
    tb.join(5)
    resume.set()
    ta.join(5)
    want = sorted(s.name for s in ancestors(m.current_state))
    return {"current": m.current_state.name, "active": rec.active(), "want_active": want, "errors": errs,
            "schedule": "A: leave(S0) | B: whole transition to2 (S0 -> S2) | A: current := S1, enter(S1), called"}


@fd("C18", "concurrency")
def fd_concurrency():
    import ast
    import inspect
    import textwrap
    node = ast.parse(textwrap.dedent(inspect.getsource(StateMachine._perform_transition))).body[0]
    unguarded = guarded_by_lock(node, "_current_state")
    witness = None
    if unguarded:
        witness = forced_interleaving()
    ok = not unguarded or (witness is not None and witness["active"] == witness["want_active"] and not witness["errors"])
    return {"obligations": [{"name": "perform-transition-is-mutually-exclusive", "ok": ok,
                             "witness": dict(witness or {}, unguarded_write_lines=unguarded),
                             "detail": "StateMachine._perform_transition writes _current_state outside any lock and two concurrent triggers "
                                       "leave two sibling states active at once (forced interleaving)"}],
            "domain": "writes to StateMachine._current_state (AST) + one forced two-thread schedule", "size": 1, "exhaustive": False,
            "samples": [{"schedule": "A suspended between leave() and the write of _current_state"}]}


@fd("C18", "region-assumptions")
def fd_region_assumptions():
    """What contracts/C18_machine.py assumes about the heap region of State objects (valid_tree), checked on the source and on
    the shipped machines: `_parent` is assigned only in State.__init__ (so a parent exists before its child: the links are
    acyclic and never change), every parent of a state of a shipped machine is a State, and the depth along the links is
    finite and strictly decreasing."""
    import ast
    import os
    import secsgem
    root = os.path.dirname(secsgem.__file__)
    writes = []
    for dirpath, _dirs, files in os.walk(root):
        for fn in files:
            if not fn.endswith(".py"):
                continue
            path = os.path.join(dirpath, fn)
            tree = ast.parse(open(path).read())
            for cls in [n for n in ast.walk(tree) if isinstance(n, ast.ClassDef)]:
                for f in [n for n in cls.body if isinstance(n, (ast.FunctionDef, ast.AsyncFunctionDef))]:
                    for n in ast.walk(f):
                        targets = []
                        if isinstance(n, ast.Assign):
                            targets = n.targets
                        elif isinstance(n, (ast.AugAssign, ast.AnnAssign)):
                            targets = [n.target]
                        elif isinstance(n, ast.Delete):
                            targets = n.targets
                        for t in targets:
                            for a in ast.walk(t):
                                if isinstance(a, ast.Attribute) and a.attr == "_parent":
                                    writes.append((os.path.relpath(path, root), cls.name, f.name, n.lineno))
            for n in ast.walk(tree):
                if isinstance(n, ast.Call) and isinstance(n.func, ast.Name) and n.func.id in ("setattr", "delattr") and len(n.args) >= 2 \
                        and isinstance(n.args[1], ast.Constant) and n.args[1].value == "_parent":
                    writes.append((os.path.relpath(path, root), "?", n.func.id, n.lineno))
    outside = [w for w in writes if (w[0].replace(os.sep, "/"), w[1], w[2]) != ("common/state_machine.py", "State", "__init__")]
    obs = [{"name": "parent-link-assigned-only-in-State.__init__", "ok": not outside and len(writes) == 1,
            "witness": {"writes": writes}, "detail": "the parent link of a State must be fixed at construction (acyclicity and the frame 'links unchanged' of the contracts rest on it)"}]
    bad = None
    total = 0
    from bounded.harness import virtual_timers
    from secsgem.hsms.settings import HsmsSettings
    for mname, cls in shipped().items():
        with virtual_timers():
            m = cls(HsmsSettings()) if mname == "gem-communication" else cls()
        states = all_states(m)
        for s in states:
            total += 1
            depth, cur, seen = 0, s, set()
            while cur is not None and id(cur) not in seen:
                seen.add(id(cur))
                if cur.parent is not None and not isinstance(cur.parent, State):
                    bad = {"machine": mname, "state": s.name, "parent": repr(cur.parent)}
                cur = cur.parent
                depth += 1
            if cur is not None:
                bad = {"machine": mname, "state": s.name, "cycle": True}
    obs.append({"name": "shipped-machines-are-valid-trees", "ok": bad is None, "witness": bad, "detail": "every parent chain of a shipped machine ends at a root"})
    return {"obligations": obs, "domain": "all assignments / deletions of an attribute `_parent` in the secsgem package; all State objects of the three shipped machines",
            "size": len(writes) + total, "exhaustive": True, "samples": [{"writes": writes}]}
