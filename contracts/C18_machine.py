"""C18: the hierarchical state machine engine (secsgem/common/state_machine.py) for ANY hierarchy of states.

The State objects of a machine are a heap region: any number n of objects, each with an optional parent link, an active
flag and an event producer.  What is assumed about the region (valid_tree) is what State.__init__ establishes and nothing
ever changes: a parent exists before its child is constructed and `_parent` is assigned nowhere else (checked on the source
by the FD obligation `parent-link-immutable`), so the links are acyclic - expressed by a ghost depth that strictly decreases
towards the root.  `anc(a, k)` = k is a or an ancestor of a = reach over the parent links."""
from pyvc.contract import *  # noqa
from pyvc.spec_intrinsics import *  # noqa
import z3
from spec.ext import AbsStateEvents, AbsTransitionEvents

from secsgem.common.state_machine import State, StateMachine, Transition, UnknownTransitionError, WrongSourceStateError

STATES = Region("states", State, depth="g_depth", _parent=Link(), _active=Bool, _event_producer=Facade(AbsStateEvents, "g_owner"),
                _name=OpaqueField(str), g_depth=Int, g_enter=Int, g_leave=Int)


def valid_tree(R):
    """What construction guarantees: every parent is an object of the region and strictly closer to a root."""
    n = region_size(R)
    return forall(0, n, lambda k: R[k].g_depth >= 0
                  and (key_of(R[k]._parent) == -1
                       or (0 <= key_of(R[k]._parent) and key_of(R[k]._parent) < n and R[key_of(R[k]._parent)].g_depth < R[k].g_depth)))


def anc(R, a, k):
    return reach(R, "_parent", a, k)


def lemmas(R):
    """Proved once, generically, by induction on the depth (lemma unit ReachLemmas below)."""
    return reach_transitive(R, "_parent") and reach_closed(R, "_parent") and reach_depth(R, "_parent", "g_depth")


def links_unchanged(R, R0):
    return forall(0, region_size(R), lambda k: key_of(R[k]._parent) == key_of(R0[k]._parent) and R[k].g_depth == R0[k].g_depth)


# =============================================================================================== State.is_within
@contract("secsgem.common.state_machine:State.is_within", "C18")
class IsWithin:
    """True exactly when `state` is this state or one of its ancestors - for every hierarchy; nothing is modified."""

    cases = None
    returns = Bool

    def inputs():
        return {"self": Elem(STATES), "state": Elem(STATES)}

    def requires(self):
        return valid_tree(region_of(self))

    def raises():
        return {}

    def ensures(self, state, old, result):
        R, R0 = region_of(self), region_of(old.self)
        return {"result-is-ancestor-or-self": result == anc(R, self, state),
                "nothing-modified": links_unchanged(R, R0) and forall(0, region_size(R), lambda k: R[k]._active == R0[k]._active
                                                                        and R[k].g_enter == R0[k].g_enter and R[k].g_leave == R0[k].g_leave)}

    def inv(self, state, current):
        R = region_of(self)
        return ((current is None and not anc(R, self, state))
                or (current is not None and 0 <= key_of(current) and key_of(current) < region_size(R)
                    and anc(R, self, state) == anc(R, current, state)))

    def variant(self, current):
        return 0 if current is None else current.g_depth + 1

    loops = {1: Loop(a=inv, decreases=variant, types={"current": Elem(STATES, optional=True)})}


# =============================================================================================== lemmas about reach (generic)
@contract("secsgem.common.state_machine:State", "C18", name="ReachLemmas")
class ReachLemmas:
    """For ANY link array P over a region of n objects that is a valid tree (ghost depth strictly decreasing along the links)
    and ANY relation F satisfying the defining equation of reach: F is closed in the region and transitive from region
    objects.  Strong induction on the depth of the first argument: the step is discharged by z3 with the induction hypothesis
    as a quantified premise; the induction schema over the naturals is applied outside the solver.  These are the two facts
    the contracts below take as hypotheses (`lemmas(R)`)."""

    lemma = True
    cases = None

    def goals():
        I = z3.IntSort()
        P, D = z3.Array("in:P", I, I), z3.Array("in:depth", I, I)
        F = z3.Function("F!lemma", I, I, z3.BoolSort())
        n = z3.Int("in:n")
        a, b, c, k = z3.Int("a"), z3.Int("b"), z3.Int("c"), z3.Int("k")
        a0, b0, c0 = z3.Int("in:a0"), z3.Int("in:b0"), z3.Int("in:c0")
        defn = z3.ForAll([a, b], F(a, b) == z3.Or(a == b, z3.And(a >= 0, P[a] != -1, F(P[a], b))), patterns=[F(a, b)])
        valid = z3.ForAll([k], z3.Implies(z3.And(k >= 0, k < n), z3.And(D[k] >= 0, z3.Or(P[k] == -1, z3.And(P[k] >= 0, P[k] < n, D[P[k]] < D[k])))))
        inr = lambda x: z3.And(x >= 0, x < n)
        mv = {"in:n": {"kind": "int", "term": n}, "in:a0": {"kind": "int", "term": a0}, "in:b0": {"kind": "int", "term": b0}, "in:c0": {"kind": "int", "term": c0}}
        ih_closed = z3.ForAll([a, b], z3.Implies(z3.And(inr(a), D[a] < D[a0], F(a, b)), inr(b)), patterns=[F(a, b)])
        ih_trans = z3.ForAll([a, b, c], z3.Implies(z3.And(inr(a), D[a] < D[a0], F(a, b), F(b, c)), F(a, c)), patterns=[z3.MultiPattern(F(a, b), F(b, c))])
        ih_depth = z3.ForAll([a, b], z3.Implies(z3.And(inr(a), D[a] < D[a0], F(a, b)), D[b] <= D[a]), patterns=[F(a, b)])
        return {
            "reach-depth.induction-step": ([defn, valid, n >= 1, ih_depth, inr(a0), F(a0, b0)], D[b0] <= D[a0], mv),
            "reach-closed.induction-step": ([defn, valid, n >= 1, ih_closed, inr(a0), F(a0, b0)], inr(b0), mv),
            "reach-transitive.induction-step": ([defn, valid, n >= 1, ih_trans, inr(a0), F(a0, b0), F(b0, c0)], F(a0, c0), mv),
            # the equation pins reach down on a valid tree: nothing is reachable from None, a root reaches only itself
            "reach-from-none": ([defn, b0 != -1], z3.Not(F(-1, b0)), mv),
            "reach-root": ([defn, valid, inr(a0), P[a0] == -1, F(a0, b0)], b0 == a0, mv),
        }


# =============================================================================================== event producers (call-outs)
@contract("spec.ext:AbsStateEvents.fire", "C18", name="StateEventsFire")
class StateEventsFire:
    """ASSUMED call-out: firing an event of a state runs user handlers.  Counted in the ghost fields of the state; the
    handlers are assumed not to touch the machine (handlers that request transitions themselves: bounded pass)."""

    abstract = True
    modifies = {"self.g_owner.g_enter": Int, "self.g_owner.g_leave": Int}

    def ensures(self, event, old):
        o, o0 = self.g_owner, old.self.g_owner
        return (o.g_enter == o0.g_enter + (1 if event == "enter" else 0)
                and o.g_leave == o0.g_leave + (1 if event == "leave" else 0))


def entered(R, me, source, k):
    """The states enter(me, source) activates: me, and every ancestor of me that does not contain the source."""
    return anc(R, me, k) and (key_of(R[k]) == key_of(me) or source is None or not anc(R, source, k))


def left(R, me, destination, k):
    """The states leave(me, destination) deactivates: me and its ancestors as far as they do not contain the destination;
    a transition to itself leaves and re-enters just that state."""
    return anc(R, me, k) and (destination is None or not anc(R, destination, k)
                              or (key_of(R[k]) == key_of(me) and key_of(destination) == key_of(me)))


def frame_enter_leave(R, R0):
    return links_unchanged(R, R0)


@contract("secsgem.common.state_machine:State._activate", "C18")
class Activate:
    """_activate(source) makes exactly `entered` active (this state and the ancestors that do not contain the source), fires
    nothing - for every hierarchy.  The recursive call on the parent is used through this same contract."""

    cases = None

    def inputs():
        return {"self": Elem(STATES), "source": Elem(STATES, optional=True)}

    def requires(self):
        R = region_of(self)
        return valid_tree(R) and lemmas(R)

    def raises():
        return {}

    modifies = {"region(self)._active": Bool}

    def ensures(self, source, old):
        R, R0 = region_of(self), region_of(old.self)
        n = region_size(R)
        return {"exactly-the-entered-states-become-active": forall(0, n, lambda k: R[k]._active == (R0[k]._active or entered(R, self, source, k))),
                "no-event": forall(0, n, lambda k: R[k].g_enter == R0[k].g_enter and R[k].g_leave == R0[k].g_leave),
                "links-unchanged": links_unchanged(R, R0)}


@contract("secsgem.common.state_machine:State._fire_enter", "C18")
class FireEnter:
    """_fire_enter(source) fires 'enter' exactly once on each state of `entered`, outermost first, and changes no active
    flag (the handlers are call-outs, see StateEventsFire)."""

    cases = None

    def inputs():
        return {"self": Elem(STATES), "source": Elem(STATES, optional=True)}

    def requires(self):
        R = region_of(self)
        return valid_tree(R) and lemmas(R)

    def raises():
        return {}

    modifies = {"region(self).g_enter": Int}

    def ensures(self, source, old):
        R, R0 = region_of(self), region_of(old.self)
        n = region_size(R)
        return {"enter-fired-once-on-each": forall(0, n, lambda k: R[k].g_enter == R0[k].g_enter + (1 if entered(R, self, source, k) else 0)),
                "no-leave-event-no-flag-changed": forall(0, n, lambda k: R[k].g_leave == R0[k].g_leave and R[k]._active == R0[k]._active),
                "links-unchanged": links_unchanged(R, R0)}


@contract("secsgem.common.state_machine:State.enter", "C18")
class Enter:
    """enter(source) activates exactly `entered` and fires 'enter' exactly once on each of them, nothing else - for every
    hierarchy.  All flags are set (Activate) before the first handler runs (FireEnter): a handler that requests the next
    transition - also the handler of an ancestor of the destination - finds the active states consistent (D33)."""

    cases = None

    def inputs():
        return {"self": Elem(STATES), "source": Elem(STATES, optional=True)}

    def requires(self):
        R = region_of(self)
        return valid_tree(R) and lemmas(R)

    def raises():
        return {}

    modifies = {"region(self)._active": Bool, "region(self).g_enter": Int}

    def ensures(self, source, old):
        R, R0 = region_of(self), region_of(old.self)
        n = region_size(R)
        return {"exactly-the-entered-states-become-active": forall(0, n, lambda k: R[k]._active == (R0[k]._active or entered(R, self, source, k))),
                "enter-fired-once-on-each": forall(0, n, lambda k: R[k].g_enter == R0[k].g_enter + (1 if entered(R, self, source, k) else 0)),
                "no-leave-event": forall(0, n, lambda k: R[k].g_leave == R0[k].g_leave),
                "links-unchanged": links_unchanged(R, R0)}


@contract("secsgem.common.state_machine:State.leave", "C18")
class Leave:
    """leave(destination) deactivates exactly `left` and fires 'leave' exactly once on each of them, nothing else."""

    cases = None

    def inputs():
        return {"self": Elem(STATES), "destination": Elem(STATES, optional=True)}

    def requires(self):
        R = region_of(self)
        return valid_tree(R) and lemmas(R)

    def raises():
        return {}

    modifies = {"region(self)._active": Bool, "region(self).g_leave": Int}

    def ensures(self, destination, old):
        R, R0 = region_of(self), region_of(old.self)
        n = region_size(R)
        return {"exactly-the-left-states-become-inactive": forall(0, n, lambda k: R[k]._active == (R0[k]._active and not left(R, self, destination, k))),
                "leave-fired-once-on-each": forall(0, n, lambda k: R[k].g_leave == R0[k].g_leave + (1 if left(R, self, destination, k) else 0)),
                "no-enter-event": forall(0, n, lambda k: R[k].g_enter == R0[k].g_enter),
                "links-unchanged": links_unchanged(R, R0)}


Activate.uses = [IsWithin, Activate]
FireEnter.uses = [IsWithin, FireEnter, StateEventsFire]
Enter.uses = [Activate, FireEnter]
Leave.uses = [IsWithin, Leave, StateEventsFire]


# =============================================================================================== StateMachine._perform_transition
@contract("spec.ext:AbsTransitionEvents.fire", "C18", name="TransitionEventsFire")
class TransitionEventsFire:
    """ASSUMED call-out (as StateEventsFire): counted in g_called."""

    abstract = True
    modifies = {"self.g_called": Int}

    def ensures(self, event, old):
        return self.g_called == old.self.g_called + (1 if event == "called" else 0)


def transition_obj(k):
    return Obj(Transition, _name=Str(), _sources=FixedList(*[Elem(STATES) for _ in range(k)]), _destination=Elem(STATES),
               _event_producer=Obj(AbsTransitionEvents, g_called=Int))


@contract("secsgem.common.state_machine:StateMachine.transition", "C18", name="TransitionLookupAbs")
class TransitionLookupAbs:
    """Call-site view of the lookup by name (its own contract: TransitionLookup, FD on the shipped tables): either the
    name is unknown (UnknownTransitionError) or some transition object with k source states is returned."""

    abstract = True
    returns = Same("self.g_t")

    def raises(self):
        return {UnknownTransitionError: self.g_unknown}


def consistent(R, cur):
    """The engine invariant of the property: exactly the current state and its ancestors report themselves active."""
    return forall(0, region_size(R), lambda k: R[k]._active == anc(R, cur, k))


@contract("secsgem.common.state_machine:StateMachine._perform_transition", "C18")
class PerformTransition:
    """The property's main statement for ANY hierarchy of states and any transition with 1..3 source states: a request that
    is not allowed in the current state raises and changes nothing; an allowed one ends in exactly its destination; the
    invariant 'the active states are exactly the current state and its ancestors' is preserved; 'leave' fires exactly once
    on every state exited, 'enter' exactly once on every state entered (the destination itself always), 'called' exactly
    once - State.leave / State.enter through their proved contracts, the handlers as call-outs."""

    cases = [("1-source", {"k": 1}), ("2-sources", {"k": 2}), ("3-sources", {"k": 3})]
    canary = "every-path"

    def inputs(k):
        # ghosts: g_unknown = the name is not in the table; g_t = the transition object the lookup yields otherwise
        return {"self": Obj(StateMachine, _current_state=Elem(STATES), g_unknown=Bool, g_t=transition_obj(k)), "name": Str()}

    def requires(self):
        R = region_of(self._current_state)
        return valid_tree(R) and lemmas(R) and consistent(R, self._current_state)

    def raises(self, case):
        cur = self._current_state
        ok = key_of(self.g_t._sources[0]) == key_of(cur)
        if case["k"] >= 2:
            ok = ok or key_of(self.g_t._sources[1]) == key_of(cur)
        if case["k"] >= 3:
            ok = ok or key_of(self.g_t._sources[2]) == key_of(cur)
        return {UnknownTransitionError: self.g_unknown, WrongSourceStateError: not self.g_unknown and not ok}

    def when_raised(self, old):
        """a request that is not allowed raises and changes nothing"""
        R, R0 = region_of(self._current_state), region_of(old.self._current_state)
        return {"current-state-unchanged": key_of(self._current_state) == key_of(old.self._current_state),
                "no-state-touched": forall(0, region_size(R), lambda k: R[k]._active == R0[k]._active and R[k].g_enter == R0[k].g_enter
                                           and R[k].g_leave == R0[k].g_leave) and links_unchanged(R, R0),
                "called-not-fired": self.g_t._event_producer.g_called == old.self.g_t._event_producer.g_called}

    def ensures(self, old):
        cur0, dest = old.self._current_state, old.self.g_t._destination
        R, R0 = region_of(self._current_state), region_of(old.self._current_state)
        n = region_size(R)
        return {"ends-in-exactly-the-destination": key_of(self._current_state) == key_of(dest),
                "active-states-are-current-and-ancestors": consistent(R, self._current_state),
                "leave-fired-once-on-every-state-exited": forall(0, n, lambda k: R[k].g_leave == R0[k].g_leave + (1 if left(R, cur0, dest, k) else 0)),
                "enter-fired-once-on-every-state-entered": forall(0, n, lambda k: R[k].g_enter == R0[k].g_enter + (1 if entered(R, dest, cur0, k) else 0)),
                "called-fired-once": self.g_t._event_producer.g_called == old.self.g_t._event_producer.g_called + 1,
                "links-unchanged": links_unchanged(R, R0)}


PerformTransition.uses = [TransitionLookupAbs, Leave, Enter, TransitionEventsFire]


# =============================================================================================== StateMachine.transition (lookup by name)
@contract("secsgem.common.state_machine:StateMachine.transition", "C18")
class TransitionLookup:
    """The first transition of the table with the requested name, UnknownTransitionError exactly when there is none - tables
    of 0..4 transitions with symbolic names (bounded shape; the shipped tables are enumerated by the FD pass)."""

    cases = [(f"{k}-transitions", {"k": k}) for k in range(5)]

    def inputs(k):
        return {"self": Obj(StateMachine, _transitions=FixedList(*[Obj(Transition, _name=Str(), g_index=Const(i)) for i in range(k)])), "name": Str()}

    def raises(self, name, case):
        found = False
        for i in range(case["k"]):
            found = found or self._transitions[i]._name == name
        return {UnknownTransitionError: not found}

    def ensures(self, name, case, result):
        ok = result._name == name
        for i in range(case["k"]):
            ok = ok and implies(i < result.g_index, self._transitions[i]._name != name)
        return {"first-transition-with-that-name": ok}
