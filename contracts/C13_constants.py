"""C13 (S2F15 clause): the real equipment-constant update handler is all-or-nothing and never leaves a constant outside
its declared limits - for requests of 1..3 constants with ANY ids and values and ANY table of constants.

Unit = EquipmentConstantsCapability._on_s02f15 with the `equipment_constants` property inlined.  The table of constants is
a symbolic map id -> constant (fields min_value, max_value, value as integers, a write counter as ghost).  Call-outs by
assumed contracts: the decode of the request (a list of n (ECID, ECV) records - what C03 delivers; n is a case split,
bounded shape), item.get(), _set_ec_value (stores the value into the constant: its callback variant is application code),
the construction of S2F16."""
from pyvc.contract import *  # noqa
from pyvc.spec_intrinsics import *  # noqa

from secsgem.common.settings import Settings
from secsgem.gem.equipment_constant import EquipmentConstant
from secsgem.gem.equipmenthandler import GemEquipmentHandler
from secsgem.secs.functions.streams_functions import StreamsFunctions
from spec.ext import AbsDecoded, AbsFunction, AbsFunctionClass, AbsItem


def record():
    return Obj(AbsDecoded, ECID=Obj(AbsItem, g_value=Int), ECV=Obj(AbsItem, g_value=Int))


@contract("secsgem.secs.functions.streams_functions:StreamsFunctions.decode", "C13", name="DecodeS2F15Abs")
class DecodeS2F15Abs:
    """ASSUMED (C03): the decoded S2F15 is the list of its (ECID, ECV) records (ghost: the request the unit quantifies over)."""

    abstract = True
    returns = Same("self.g_req")


@contract("spec.ext:AbsItem.get", "C13", name="ItemGetAbs13")
class ItemGetAbs13:
    """ASSUMED: a decoded item returns the value it denotes (and, as a dictionary key, stands for it: A-KEY)."""

    abstract = True
    returns = Int

    def ensures(self, result):
        return result == self.g_value


@contract("secsgem.gem.equipment_constants_capability:EquipmentConstantsCapability._set_ec_value", "C13", name="SetEcValueAbs")
class SetEcValueAbs:
    """ASSUMED (call-out; the real method also mirrors two well-known constants into the settings and may delegate to an
    application callback): the constant takes the value; writes are counted."""

    abstract = True
    modifies = {"equipment_constant.value": Int, "self.g_writes": Int}

    def ensures(self, equipment_constant, value, old):
        return equipment_constant.value == value and self.g_writes == old.self.g_writes + 1


@contract("secsgem.secs.handler:SecsHandler.stream_function", "C13", name="StreamFunctionAbs13")
class StreamFunctionAbs13:
    abstract = True
    returns = Obj(AbsFunctionClass, g_stream=Same("stream"), g_function=Same("function"))


@contract("spec.ext:AbsFunctionClass.__call__", "C13", name="NewFunctionAbs13")
class NewFunctionAbs13:
    abstract = True
    returns = Obj(AbsFunction, g_stream=Same("self.g_stream"), g_function=Same("self.g_function"), g_value=Same("value"))


@contract("secsgem.gem.equipment_constants_capability:EquipmentConstantsCapability._ec_value_fits", "C13", name="EcValueFitsAbs")
class EcValueFitsAbs:
    """The post-condition proved as EcValueFits (below) for the eight integer item types: True exactly when the value lies in
    the range the constant's type can hold (ghost fields g_tlo .. g_thi of the constant; integer-valued view of this unit)."""

    abstract = True
    returns = Bool

    def ensures(self, equipment_constant, value, result):
        return result == (equipment_constant.g_tlo <= value and value <= equipment_constant.g_thi)


def within(table, k, v):
    """v respects the declared limits of constant k - each limit may be absent (None in the code: ghost flags g_has_min/max)"""
    return (not table[k].g_has_min or table[k].min_value <= v) and (not table[k].g_has_max or v <= table[k].max_value)


@contract("secsgem.gem.equipment_constants_capability:EquipmentConstantsCapability._on_s02f15", "C13")
class OnS2F15:
    """S2F15 with 1..3 constants: EAC 0 exactly when every id is known and every value within that constant's limits (a
    constant may declare both limits, one, or none) and within the range its type can hold at all (D49); then
    all are applied in order (last write wins for a repeated id), otherwise nothing is written; constants that were
    within their limits stay within them; the limits themselves are never touched."""

    cases = [(f"n{n}", {"n": n}) for n in (1, 2, 3)]
    uses = [DecodeS2F15Abs, ItemGetAbs13, EcValueFitsAbs, SetEcValueAbs, StreamFunctionAbs13, NewFunctionAbs13]

    def inputs(n):
        return {"self": Obj(GemEquipmentHandler,
                            _equipment_constants=MapOf(EquipmentConstant, g_has_min=Bool, g_has_max=Bool, min_value=NoneUnless("g_has_min", Int),
                                                       max_value=NoneUnless("g_has_max", Int), value=Int, g_tlo=Int, g_thi=Int),
                            _settings=Obj(Settings, streams_functions=Obj(StreamsFunctions, g_req=FixedList(*[record() for _ in range(n)]))),
                            g_writes=Int),
                "_handler": Const(None), "message": Const(None)}

    def raises():
        return {}

    def ensures(self, old, result):
        t, t0 = self._equipment_constants, old.self._equipment_constants
        req = self._settings.streams_functions.g_req
        ids = [r.ECID.g_value for r in req]
        vals = [r.ECV.g_value for r in req]
        ok = True
        for i_, v_ in zip(ids, vals):
            ok = (ok and (i_ in t0) and t0[i_].g_tlo <= v_ and v_ <= t0[i_].g_thi
                  and (not t0[i_].g_has_min or t0[i_].min_value <= v_) and (not t0[i_].g_has_max or v_ <= t0[i_].max_value))
        eac = result.g_value

        def final(k):
            cur = t0[k].value
            for i_, v_ in zip(ids, vals):
                cur = ite(k == i_, v_, cur)
            return cur

        return {
            "s2f16": result.g_stream == 2 and result.g_function == 16,
            "eac-0-iff-all-known-and-within-limits": (eac == 0) == ok,
            "refused-applies-nothing": implies(not ok, lambda: self.g_writes == old.self.g_writes
                                               and forall(-2 ** 63, 2 ** 64, lambda k: t[k].value == t0[k].value)),
            "accepted-applies-all": implies(ok, lambda: forall(-2 ** 63, 2 ** 64, lambda k: t[k].value == final(k))),
            "limits-preserved": forall(-2 ** 63, 2 ** 64, lambda k: implies(k in t0 and within(t0, k, t0[k].value), lambda: within(t, k, t[k].value))),
            "limits-themselves-unchanged": forall(-2 ** 63, 2 ** 64, lambda k: t[k].min_value == t0[k].min_value and t[k].max_value == t0[k].max_value
                                                  and t[k].g_has_min == t0[k].g_has_min and t[k].g_has_max == t0[k].g_has_max),
        }

    def replay(case, name, model):
        """Native demonstration on a real equipment handler (constants 20: 0..500 and 'EC3': -5..5): two- and three-item
        S2F15 requests with the offending item first / in the middle / last, judged by the clauses of the property."""
        import logging
        from bounded import C13_api as A
        logging.disable(logging.CRITICAL)
        failed, seen = [], []
        good, bad_range, unknown = (20, 100), (20, 501), (777, 1)
        other = ("EC3", 2)
        requests = [[bad_range, other], [other, bad_range], [unknown, other], [other, unknown], [good, other], [other, bad_range, ("EC3", 3)][:case["n"] + 1],
                    [(22, -1), other], [other, (23, 101)], [(22, 5), (23, 99)]]      # constants with one declared limit only
        for upd in requests:
            upd = upd[:max(2, case["n"])]
            sess = A.Session()
            try:
                h = sess.handler
                before = {k: h.equipment_constants[k].value for k in A.EC}
                tree = ("L", [("L", [A.idtree(e), ("U4", [v]) if v >= 0 else ("I4", [v])]) for e, v in upd])
                got = sess.ask(2, 15, tree)
                after = {k: h.equipment_constants[k].value for k in A.EC}
                eac = got[1][0] if isinstance(got, tuple) and got[0] == "B" else None
                ok = all(e in A.EC and A.within(e, v) for e, v in upd)
                seen.append({"update": [(e, v) for e, v in upd], "eac": eac, "changed": {str(k): [before[k], after[k]] for k in A.EC if before[k] != after[k]}})
                if (eac == 0) != ok:
                    failed.append(f"S2F15 {upd}: EAC {eac}, expected {'0' if ok else 'non-zero'}")
                if not ok and before != after:
                    failed.append(f"S2F15 {upd} was not acceptable but changed {seen[-1]['changed']}")
                if ok and any(after[e] != v for e, v in upd):
                    failed.append(f"S2F15 {upd} accepted but not applied: {after}")
                for k in A.EC:
                    lo, hi = A.EC[k][1], A.EC[k][2]
                    if not A.within(k, after[k]):
                        failed.append(f"after S2F15 {upd} constant {k} = {after[k]} outside {lo}..{hi}")
            finally:
                sess.close()
        return {"status": "confirmed" if failed else "spurious", "failed_clauses": failed[:6], "inputs": {"requests": [[list(x) for x in u] for u in requests]}, "observed": seen}


# ===================================================================== the type range used by S2F15 (D49)
import secsgem.secs.variables as _V  # noqa: E402

_INT_TYPES = {"U1": (_V.U1, 0, 2 ** 8 - 1), "U2": (_V.U2, 0, 2 ** 16 - 1), "U4": (_V.U4, 0, 2 ** 32 - 1), "U8": (_V.U8, 0, 2 ** 64 - 1),
              "I1": (_V.I1, -2 ** 7, 2 ** 7 - 1), "I2": (_V.I2, -2 ** 15, 2 ** 15 - 1), "I4": (_V.I4, -2 ** 31, 2 ** 31 - 1),
              "I8": (_V.I8, -2 ** 63, 2 ** 63 - 1)}


@contract("secsgem.gem.equipment_constants_capability:EquipmentConstantsCapability._ec_value_fits", "C13")
class EcValueFits:
    """What EcValueFitsAbs assumes, proved for the eight integer item types by running the real item classes (C01): for any
    integer value the answer is True exactly when the value lies in the type's range."""

    cases = [(name, {"name": name}) for name in _INT_TYPES]

    def inputs(name):
        cls, lo, hi = _INT_TYPES[name]
        return {"self": Obj(GemEquipmentHandler), "equipment_constant": Obj(EquipmentConstant, value_type=Const(cls), g_tlo=Const(lo), g_thi=Const(hi)),
                "value": Int}

    def raises():
        return {}

    def ensures(self, equipment_constant, value, result):
        # literally the post-condition of EcValueFitsAbs, with the ghost limits set to the range of the type
        return result == (equipment_constant.g_tlo <= value and value <= equipment_constant.g_thi)


# ===================================================================== S2F29: the namelist of the requested constants (bounded shape)
@contract("secsgem.secs.functions.streams_functions:StreamsFunctions.decode", "C13", name="DecodeS2F29Abs")
class DecodeS2F29Abs:
    """ASSUMED (C03): the decoded S2F29 is the list of its ECID items (ghost: the request the unit quantifies over)."""

    abstract = True
    returns = Same("self.g_req")


@contract("secsgem.gem.equipment_constants_capability:EquipmentConstantsCapability._on_s02f29", "C13")
class OnS2F29:
    """S2F29 naming 1 or 2 constants (bounded shape; any ids, any table, any coincidence of the ids): S2F30 has one entry
    per requested id, in request order - the constant's id, name, limits (an empty text for a limit that is not declared),
    default and unit for a known id, the id with empty texts for an unknown one; the table is not touched.  The request
    naming no id (all constants) and longer requests: bounded pass."""

    cases = [(f"n{n}", {"n": n}) for n in (1, 2)]
    uses = [DecodeS2F29Abs, StreamFunctionAbs13, NewFunctionAbs13]

    def inputs(n):
        return {"self": Obj(GemEquipmentHandler,
                            _equipment_constants=MapOf(EquipmentConstant, g_has_min=Bool, g_has_max=Bool, min_value=NoneUnless("g_has_min", Int),
                                                       max_value=NoneUnless("g_has_max", Int), value=Int, ecid=Int, name=Int, default_value=Int, unit=Int),
                            _settings=Obj(Settings, streams_functions=Obj(StreamsFunctions, g_req=FixedList(*[Obj(AbsItem, g_value=Int) for _ in range(n)])))),
                "_handler": Const(None), "message": Const(None)}

    def raises():
        return {}

    def ensures(self, old, result):
        t, t0 = self._equipment_constants, old.self._equipment_constants
        req = self._settings.streams_functions.g_req
        rows = result.g_value
        out = {"s2f30": result.g_stream == 2 and result.g_function == 30, "one-entry-per-requested-id": len(rows) == len(req),
               "table-untouched": forall(-2 ** 63, 2 ** 64, lambda k: t[k].value == t0[k].value)}
        if len(rows) == len(req):
            for j in range(len(req)):
                i = req[j].g_value
                r = rows[j]
                if i in t0:
                    c = t0[i]
                    out[f"known-{j}"] = (r["ECID"] == c.ecid and r["ECNAME"] == c.name and r["ECDEF"] == c.default_value and r["UNITS"] == c.unit
                                         and r["ECMIN"] == (c.min_value if c.g_has_min else "") and r["ECMAX"] == (c.max_value if c.g_has_max else ""))
                else:
                    out[f"unknown-{j}"] = (r["ECID"] is req[j] and r["ECNAME"] == "" and r["ECMIN"] == "" and r["ECMAX"] == "" and r["ECDEF"] == ""
                                           and r["UNITS"] == "")
        return out


# ===================================================================== S1F11: the namelist of the requested status variables (bounded shape)
from secsgem.gem.status_variable import StatusVariable  # noqa: E402


@contract("secsgem.secs.functions.streams_functions:StreamsFunctions.decode", "C13", name="DecodeS1F11Abs")
class DecodeS1F11Abs:
    """ASSUMED (C03): the decoded S1F11 is the list of its SVID items (ghost: the request the unit quantifies over)."""

    abstract = True
    returns = Same("self.g_req")


@contract("secsgem.gem.status_data_collection_capability:StatusDataCollectionCapability._on_s01f11", "C13")
class OnS1F11:
    """S1F11 naming 1 or 2 status variables (bounded shape; any ids, any table, any coincidence of the ids): S1F12 has one
    entry per requested id, in request order - id, name and unit of a known variable, the id with empty texts for an
    unknown one.  The request naming no id (all variables) and longer requests: bounded pass."""

    cases = [(f"n{n}", {"n": n}) for n in (1, 2)]
    uses = [DecodeS1F11Abs, StreamFunctionAbs13, NewFunctionAbs13]

    def inputs(n):
        return {"self": Obj(GemEquipmentHandler,
                            _status_variables=MapOf(StatusVariable, svid=Int, name=Int, unit=Int),
                            _settings=Obj(Settings, streams_functions=Obj(StreamsFunctions, g_req=FixedList(*[Obj(AbsItem, g_value=Int) for _ in range(n)])))),
                "_handler": Const(None), "message": Const(None)}

    def raises():
        return {}

    def ensures(self, old, result):
        t0 = old.self._status_variables
        req = self._settings.streams_functions.g_req
        rows = result.g_value
        out = {"s1f12": result.g_stream == 1 and result.g_function == 12, "one-entry-per-requested-id": len(rows) == len(req)}
        if len(rows) == len(req):
            for j in range(len(req)):
                i = req[j].g_value
                r = rows[j]
                if i in t0:
                    out[f"known-{j}"] = r["SVID"] == t0[i].svid and r["SVNAME"] == t0[i].name and r["UNITS"] == t0[i].unit
                else:
                    out[f"unknown-{j}"] = r["SVID"] is req[j] and r["SVNAME"] == "" and r["UNITS"] == ""
        return out
