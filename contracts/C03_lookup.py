"""C03: a message is found by the stream and function numbers of its header alone - StreamsFunctions.function for ALL
integers (stream, function) over the shipped catalogue, and the dispatch in StreamsFunctions.decode."""
from pyvc.contract import *  # noqa
from pyvc.spec_intrinsics import *  # noqa

from secsgem.secs.functions._all import secs_streams_functions
from secsgem.secs.functions.streams_functions import StreamsFunctions

CATALOGUE = list(secs_streams_functions)
PAIRS = [(c.stream, c.function) for c in CATALOGUE]


def catalogued(stream, function):
    r = False
    for s, f in PAIRS:
        r = r or (stream == s and function == f)
    return r


@contract("secsgem.secs.functions.streams_functions:StreamsFunctions.function", "C03")
class FunctionLookup:
    """For EVERY pair of integers (stream, function): the class of the shipped catalogue with exactly these numbers, None when
    the catalogue has none; never the 'more than one function' error (the numbers identify a function)."""

    cases = None

    def inputs():
        return {"self": Obj(StreamsFunctions, _functions=Const(CATALOGUE)), "stream": Int, "function": Int}

    def raises():
        return {}

    def ensures(self, stream, function, result):
        return {"none-exactly-when-not-catalogued": (result is None) == (not catalogued(stream, function)),
                "the-class-with-these-numbers": implies(result is not None, lambda: result.stream == stream and result.function == function)}


from secsgem.secs.functions.base import SecsStreamFunction  # noqa: E402


class AbsHeader:
    """stream and function number of a message header"""


class AbsMessage:
    """a received message as decode() looks at it: header.stream, header.function, data (the body bytes)"""


@contract("secsgem.secs.functions.base:SecsStreamFunction.__init__", "C03", name="FunctionInitAbs")
class FunctionInitAbs:
    """ASSUMED call-out: building an empty function object of the class found (its structure is read from the class's
    definition: C19) does not depend on the message."""

    abstract = True
    modifies = {"self.g_decoded": Bool, "self.g_body": Bytes()}

    def ensures(self):
        return not self.g_decoded


@contract("secsgem.secs.functions.base:SecsStreamFunction.decode", "C03", name="FunctionDecodeAbs")
class FunctionDecodeAbs:
    """ASSUMED call-out (C01/C02 for the items, C19 for the structure): the object takes its value from exactly these bytes."""

    abstract = True
    modifies = {"self.g_decoded": Bool, "self.g_body": Bytes()}

    def ensures(self, data):
        return self.g_decoded and len(self.g_body) == len(data) and forall(0, len(data), lambda t: self.g_body[t] == data[t])


@contract("secsgem.secs.functions.streams_functions:StreamsFunctions.decode", "C03")
class DecodeDispatch:
    """For EVERY header (stream, function) and body: an object of exactly the catalogued class with these numbers, decoded from
    exactly the body bytes; 'invalid message' (ValueError) exactly when the catalogue has no such function."""

    cases = None
    uses = [FunctionInitAbs, FunctionDecodeAbs]

    def replay(case, name, model):
        """Native demonstration: the real decode() for a header with the numbers of every catalogued function (body = the
        encoding of that function's default object) and for numbers next to them that are not catalogued."""
        import types
        sf = StreamsFunctions()
        failed = []
        for cls in CATALOGUE:
            try:
                body = cls().encode()
            except Exception:
                continue
            msg = types.SimpleNamespace(header=types.SimpleNamespace(stream=cls.stream, function=cls.function), data=body)
            try:
                obj = sf.decode(msg)
                if type(obj) is not cls:
                    failed.append(f"S{cls.stream}F{cls.function}: decoded as {type(obj).__name__}")
            except Exception as exc:
                failed.append(f"S{cls.stream}F{cls.function}: {type(exc).__name__}: {exc}"[:140])
        for s_, f_ in [(c.stream, c.function + 100) for c in CATALOGUE[:20]] + [(99, 1), (0, 1), (-1, 1)]:
            if (s_, f_) in PAIRS:
                continue
            msg = types.SimpleNamespace(header=types.SimpleNamespace(stream=s_, function=f_), data=b"")
            try:
                obj = sf.decode(msg)
                failed.append(f"S{s_}F{f_} is not catalogued but decoded as {type(obj).__name__}")
            except ValueError:
                pass
            except Exception as exc:
                failed.append(f"S{s_}F{f_}: {type(exc).__name__} instead of ValueError")
        if not failed:
            return None
        return {"status": "confirmed", "failed_clauses": failed[:6], "inputs": {"headers": "all catalogued (stream, function) pairs and 23 uncatalogued ones"}}

    def inputs():
        return {"self": Obj(StreamsFunctions, _functions=Const(CATALOGUE)),
                "message": Obj(AbsMessage, header=Obj(AbsHeader, stream=Int, function=Int), data=Bytes())}

    def raises(message):
        return {ValueError: not catalogued(message.header.stream, message.header.function)}

    def ensures(message, result):
        return {"object-of-the-class-with-the-header-numbers": type(result).stream == message.header.stream and type(result).function == message.header.function,
                "decoded-from-the-message-body": result.g_decoded and len(result.g_body) == len(message.data)
                and forall(0, len(message.data), lambda t: result.g_body[t] == message.data[t])}
