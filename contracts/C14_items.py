"""C14: the Item API (secsgem.secs.item*) against SEMI E5 and against the variables API."""
from pyvc.contract import *  # noqa
from pyvc.spec_intrinsics import *  # noqa
from spec import e5
from contracts import lemmas_float as LF

import z3
import secsgem.secs.item as IT
import secsgem.secs.item_number as IN
import secsgem.secs.item_b as IB
import secsgem.secs.item_boolean as IBO
import secsgem.secs.item_str as IS
import secsgem.secs.item_l as IL
from secsgem.secs.packet_data import PacketData

NUMS = [IN.ItemU1, IN.ItemU2, IN.ItemU4, IN.ItemU8, IN.ItemI1, IN.ItemI2, IN.ItemI4, IN.ItemI8, IN.ItemF4, IN.ItemF8]
ALL = NUMS + [IB.ItemB, IBO.ItemBOOLEAN, IS.ItemA, IS.ItemJ, IL.ItemL]
NUM_CASES = [(c.__name__, {"cls": c}) for c in NUMS]


def elem(cls):
    return Float if cls._type is float else Int


def in_bounds(self, v):
    return self._minimum_value <= v <= self._maximum_value


@contract("secsgem.secs.item:Item.encode_item_header", "C14")
class ItemEncodeHeader:
    """O77/O78: same exact header as the variables API (the code is a copy of Base's and is proved separately)."""

    cases = [(c.__name__, {"cls": c}) for c in ALL]

    def inputs(cls):
        return {"self": Obj(cls), "length": Int}

    def raises(length):
        return {ValueError: length < 0 or length > 0xFFFFFF}

    def ensures(self, length, result):
        return result == e5.header_min(self._hsms_type, length)


@contract("secsgem.secs.item:Item._decode_item_header", "C14")
class ItemDecodeHeader:
    """O79/O80: for every k: consumes 1+k bytes from the packet and returns (format code, length)."""

    cases = [(f"k{k}", {"k": k}) for k in (1, 2, 3)]

    def inputs(k):
        return {"cls": Const(IT.Item), "data": Obj(PacketData, _data=Bytes(min_len=1))}

    def requires(data, case):
        return 1 + case["k"] <= len(data._data) and data._data[0] % 4 == case["k"]

    def raises():
        return {}

    def ensures(data, old, result, case):
        k = case["k"]
        before = old.data._data
        return (result[0] == before[0] // 4 and result[1] == e5.uint_at(before, 1, k)
                and len(data._data) == len(before) - 1 - k
                and forall(0, len(data._data), lambda t: data._data[t] == before[1 + k + t]))


@contract("secsgem.secs.item_number:ItemNumber.validate_value", "C14")
class ItemNumValidate:
    """O81: an Item built from a value holds exactly that value (list form and scalar form); ValueError exactly when
    an element is outside the E5 range of the width."""

    cases = [(f"{c.__name__}-{form}", {"cls": c, "form": form}) for c in NUMS for form in ("list", "scalar")]

    def inputs(cls, form):
        return {"self": Obj(cls), "value": ListOf(elem(cls)) if form == "list" else elem(cls)}

    def raises(self, value, case):
        if case["form"] == "list":
            return {ValueError: exists(0, len(value), lambda j: not in_bounds(self, value[j]))}
        return {ValueError: not in_bounds(self, value)}

    def ensures(self, value, result, case):
        fc = self._hsms_type
        if case["form"] == "list":
            return len(result) == len(value) and forall(0, len(value), lambda j: e5.num_eq(fc, result[j], value[j]))
        return len(result) == 1 and e5.num_eq(fc, result[0], value)

    def inv_1(self, values, value, i):
        return len(values) == i and forall(
            0, i, lambda j: e5.num_eq(self._hsms_type, values[j], value[j]) and in_bounds(self, value[j]))

    def loops(cls, form):
        return {1: Loop(a=ItemNumValidate.inv_1, types={"values": ListOf(elem(cls))})}

    def returns(cls, form=None):
        return ListOf(elem(cls))


@contract("secsgem.secs.item_number:ItemNumber.encode", "C14")
class ItemNumEncode:
    """O82: encode == item(fc, payload(value)) for every element count, no struct.error under the class invariant."""

    cases = NUM_CASES

    def inputs(cls):
        return {"self": Obj(cls, _value=ListOf(elem(cls)))}

    def requires(self):
        return forall(0, len(self._value), lambda j: in_bounds(self, self._value[j]))

    def raises(self):
        return {ValueError: len(self._value) * e5.num_size(self._hsms_type) > 0xFFFFFF}

    def ensures(self, result):
        fc = self._hsms_type
        size = e5.num_size(fc)
        n = len(self._value)
        hl = e5.hlen(n * size)
        return (len(result) == hl + n * size and seq_eq_at(result, 0, e5.header_min(fc, n * size))
                and forall(0, n, lambda j: seq_eq_at(result, hl + size * j, e5.num_bytes(fc, self._value[j]))))

    def inv_1(self, result, i):
        fc = self._hsms_type
        size = e5.num_size(fc)
        n = len(self._value)
        hl = e5.hlen(n * size)
        return (len(result) == hl + i * size and seq_eq_at(result, 0, e5.header_min(fc, n * size))
                and forall(0, i, lambda j: seq_eq_at(result, hl + size * j, e5.num_bytes(fc, self._value[j]))))

    loops = {1: Loop(a=inv_1)}

    def axioms(cls):
        return []


@contract("secsgem.secs.item_number:ItemNumber.decode", "C14")
class ItemNumDecode:
    """O83: decode of every valid encoding (any k, every bit pattern, finite floats) yields an item of the class
    holding exactly the denoted numbers."""

    cases = [(f"{c.__name__}-k{k}", {"cls": c, "k": k}) for c in NUMS for k in (1, 2, 3)]
    uses = [(ItemNumValidate, lambda case: {"cls": case["cls"], "form": "list"})]

    def inputs(cls, k):
        return {"cls": Const(cls), "data": Bytes(min_len=1)}

    def requires(cls, data, case):
        k = case["k"]
        fc = cls._hsms_type
        size = e5.num_size(fc)
        if not (1 + k <= len(data) and data[0] == fc * 4 + k):
            return False
        n = e5.uint_at(data, 1, k)
        return (n % size == 0 and 1 + k + n <= len(data)
                and forall(0, n // size, lambda j: is_finite(e5.num_value(fc, data, 1 + k + size * j))))

    def raises():
        return {}

    def samples(rnd, cls, k):
        import struct
        import spec.e5ref as R
        size = e5.num_size(cls._hsms_type)
        code = {v[0]: n for n, v in R.NUM.items()}[cls._hsms_type] if hasattr(R, "NUM") else None
        for _ in range(30):
            n = rnd.randint(0, 4)
            if cls._hsms_type in (0o44, 0o40):
                fmt = ">f" if size == 4 else ">d"
                big = 3.4028234663852886e38 if size == 4 else 1.7976931348623157e308
                payload = b"".join(struct.pack(fmt, rnd.choice((0.0, -1.5, 2.0 ** -130, big, -big, 1e-45))) for _ in range(n))
            else:
                payload = bytes(rnd.choice((0, 1, 0x7F, 0x80, 0xFF, rnd.getrandbits(8))) for _ in range(n * size))
            tail = bytes(rnd.getrandbits(8) for _ in range(rnd.choice((0, 3))))
            yield {"cls": cls, "data": bytes([cls._hsms_type * 4 + k]) + len(payload).to_bytes(k, "big") + payload + tail}

    def ensures(cls, data, result, case):
        k = case["k"]
        fc = cls._hsms_type
        size = e5.num_size(fc)
        n = e5.uint_at(data, 1, k)
        return (type(result) is cls and len(result._value) == n // size
                and forall(0, n // size, lambda j: e5.num_eq(fc, result._value[j], e5.num_value(fc, data, 1 + k + size * j))))

    def inv_1(cls, result, data, old, i, case):
        k = case["k"]
        fc = cls._hsms_type
        size = e5.num_size(fc)
        orig = old.data
        return (len(result) == i and len(data._data) == len(orig) - 1 - k - size * i
                and forall(0, len(data._data), lambda t: data._data[t] == orig[1 + k + size * i + t])
                and forall(0, i, lambda j: e5.num_eq(fc, result[j], e5.num_value(fc, orig, 1 + k + size * j))))

    def loops(cls, k):
        return {1: Loop(a=ItemNumDecode.inv_1, types={"result": ListOf(elem(cls)), "data._data": Bytes()}, modifies=["data._data"])}

    def axioms(cls, k):
        return [item_range_axiom(cls)] if cls._type is float else []


def item_range_axiom(cls):
    from pyvc.values import UF_F32, UF_F64
    if cls._bytes == 4:
        bs = [z3.Int(f"ax!b{k}") for k in range(4)]
        t = UF_F32(*bs)
    else:
        bs = [z3.Int(f"ax!b{k}") for k in range(8)]
        t = UF_F64(*bs)
    lo, hi = LF.fp(cls._minimum_value), LF.fp(cls._maximum_value)
    return z3.ForAll(bs, z3.Implies(LF.finite_t(t), z3.And(z3.fpLEQ(lo, t), z3.fpLEQ(t, hi))), patterns=[t])


@contract("secsgem.secs.item_number:ItemF4", "C14", name="LemmaItemFloatBounds")
class LemmaItemFloatBounds:
    """Float bounds of ItemF4/ItemF8: every finite bit pattern is accepted (decode of valid encodings does not raise)
    and an accepted value packs without OverflowError into a value that is accepted again."""

    lemma = True
    cases = [("ItemF4", {"cls": IN.ItemF4}), ("ItemF8", {"cls": IN.ItemF8})]

    def goals(cls):
        from pyvc.values import F32, F64, RNE
        lo, hi = LF.fp(cls._minimum_value), LF.fp(cls._maximum_value)
        inb = lambda v: z3.And(z3.fpLEQ(lo, v), z3.fpLEQ(v, hi))
        out = {}
        if cls._bytes == 4:
            bits = z3.BitVec("in:bits", 32)
            val = z3.fpToFP(RNE, z3.fpBVToFP(bits, F32), F64)
        else:
            bits = z3.BitVec("in:bits", 64)
            val = z3.fpBVToFP(bits, F64)
        out["decode-range"] = ([], z3.Implies(LF.finite_t(val), inb(val)), {"in:bits": {"kind": "int", "term": z3.BV2Int(bits)}})
        v = z3.FP("in:v", F64)
        if cls._bytes == 4:
            r32 = z3.fpToFP(RNE, v, F32)
            back = z3.fpToFP(RNE, r32, F64)
            overflow = z3.And(z3.fpIsInf(r32), z3.Not(z3.fpIsInf(v)))
            goal = z3.Implies(inb(v), z3.And(z3.Not(overflow), inb(back)))
        else:
            goal = z3.Implies(inb(v), LF.finite_t(v))
        out["roundtrip"] = ([], goal, {"in:v": {"kind": "float", "term": v}})
        return out

    def replay(case, name, model):
        import struct
        cls = case["cls"]
        if name == "decode-range":
            bits = model.get("in:bits", 0)
            payload = bits.to_bytes(cls._bytes, "big")
            data = bytes([cls._hsms_type * 4 + 1, cls._bytes]) + payload
            try:
                cls.decode(data)
                return {"status": "spurious", "inputs": {"data": data.hex()}}
            except Exception as exc:
                return {"status": "confirmed", "inputs": {"data": data.hex()},
                        "failed_clauses": [f"{cls.__name__}.decode of a valid finite item raised {type(exc).__name__}: {exc}"]}
        v = model.get("in:v")
        x = struct.unpack(">d", struct.pack(">Q", v["float_bits"]))[0] if isinstance(v, dict) and "float_bits" in v else 0.0
        try:
            cls.decode(cls(x).encode())
            return {"status": "spurious", "inputs": {"v": repr(x)}}
        except Exception as exc:
            return {"status": "confirmed", "inputs": {"v": repr(x)},
                    "failed_clauses": [f"{cls.__name__}({x!r}) is accepted but encode/decode raised {type(exc).__name__}: {exc}"]}


# --------------------------------------------------------------------------------------------- from_value (ints)
@contract("secsgem.secs.item:Item._from_value_int", "C14")
class FromValueInt:
    """O85: for every int the narrowest unsigned (v >= 0) / signed (v < 0) width that holds it, value unchanged;
    ValueError outside [-2^63, 2^64)."""

    cases = None

    def inputs():
        return {"cls": Const(IT.Item), "value": Int}

    def raises(value):
        return {ValueError: value < -(2 ** 63) or value >= 2 ** 64}

    def ensures(value, result):
        if value >= 0:
            want = ite(value < 2 ** 8, 0o51, ite(value < 2 ** 16, 0o52, ite(value < 2 ** 32, 0o54, 0o50)))
        else:
            want = ite(value >= -(2 ** 7), 0o31, ite(value >= -(2 ** 15), 0o32, ite(value >= -(2 ** 31), 0o34, 0o30)))
        return result._hsms_type == want and len(result._value) == 1 and result._value[0] == value


# --------------------------------------------------------------------------------------------- binary
@contract("secsgem.secs.item_b:ItemB.validate_value", "C14")
class ItemBValidate:
    """O81 for B: bytes are kept, an int 0..255 becomes one byte, a list of ints becomes those bytes in order."""

    cases = [(f, {"form": f}) for f in ("bytes", "int", "list2")]

    def inputs(form):
        v = {"bytes": Bytes(), "int": Int, "list2": FixedList(Int, Int)}[form]
        return {"self": Obj(IB.ItemB), "value": v}

    def raises(value, case):
        if case["form"] == "int":
            return {ValueError: not 0 <= value <= 255}
        if case["form"] == "list2":
            return {ValueError: not (0 <= value[0] <= 255 and 0 <= value[1] <= 255)}
        return {}

    def ensures(value, result, case):
        if case["form"] == "int":
            return len(result) == 1 and result[0] == value
        if case["form"] == "list2":
            return len(result) == 2 and result[0] == value[0] and result[1] == value[1]
        return result == value


# =============================================================================================== BOOLEAN items
def decode_pre(cls, data, k):
    """data starts with a header of format cls, k length bytes, and the announced payload is present"""
    fc = cls._hsms_type
    if not (1 + k <= len(data) and data[0] == fc * 4 + k):
        return False
    return 1 + k + e5.uint_at(data, 1, k) <= len(data)


def payload_samples(rnd, cls, k, payloads):
    for p in payloads:
        tail = bytes(rnd.getrandbits(8) for _ in range(rnd.choice((0, 3))))
        if len(p) < 256 ** k:
            yield {"cls": cls, "data": bytes([cls._hsms_type * 4 + k]) + len(p).to_bytes(k, "big") + p + tail}


@contract("secsgem.secs.item_boolean:ItemBOOLEAN._validate_list_value", "C14")
class ItemBoolValidateList:
    """a list of bools (what decode builds, what an application passes) is stored unchanged"""

    cases = None

    def inputs():
        return {"self": Obj(IBO.ItemBOOLEAN), "value": ListOf(Bool)}

    def raises():
        return {}

    def ensures(self, value, result):
        return len(result) == len(value) and forall(0, len(value), lambda j: result[j] == value[j])

    def inv_1(self, values, value, i):
        return len(values) == i and forall(0, i, lambda j: values[j] == value[j])

    loops = {1: Loop(a=inv_1, types={"values": ListOf(Bool)})}
    returns = ListOf(Bool)


@contract("secsgem.secs.item_boolean:ItemBOOLEAN.validate_value", "C14")
class ItemBoolValidate:
    """list form: through _validate_list_value; scalar bool: a one-element list"""

    cases = [("list", {"form": "list"}), ("scalar", {"form": "scalar"})]
    uses = [ItemBoolValidateList]

    def inputs(form):
        return {"self": Obj(IBO.ItemBOOLEAN), "value": ListOf(Bool) if form == "list" else Bool}

    def raises():
        return {}

    def ensures(self, value, result, case):
        if case["form"] == "list":
            return len(result) == len(value) and forall(0, len(value), lambda j: result[j] == value[j])
        return len(result) == 1 and result[0] == value

    def returns(form=None):
        return ListOf(Bool)


@contract("secsgem.secs.item_boolean:ItemBOOLEAN.encode", "C14")
class ItemBoolEncode:
    """canonical header ++ one byte per element: 0x01 for true, 0x00 for false"""

    cases = None

    def inputs():
        return {"self": Obj(IBO.ItemBOOLEAN, _value=ListOf(Bool))}

    def raises(self):
        return {ValueError: len(self._value) > 0xFFFFFF}

    def ensures(self, result):
        n = len(self._value)
        hl = e5.hlen(n)
        return (len(result) == hl + n and seq_eq_at(result, 0, e5.header_min(0o11, n))
                and forall(0, n, lambda j: result[hl + j] == ite(self._value[j], 1, 0)))

    def inv_1(self, result, i):
        n = len(self._value)
        hl = e5.hlen(n)
        return (len(result) == hl + i and seq_eq_at(result, 0, e5.header_min(0o11, n))
                and forall(0, i, lambda j: result[hl + j] == ite(self._value[j], 1, 0)))

    loops = {1: Loop(a=inv_1)}


@contract("secsgem.secs.item_boolean:ItemBOOLEAN.decode", "C14")
class ItemBoolDecode:
    """every payload byte other than 0x00 denotes true (E5), for any k"""

    cases = [(f"k{k}", {"k": k}) for k in (1, 2, 3)]
    uses = [(ItemBoolValidate, lambda case: {"form": "list"})]

    def inputs(k):
        return {"cls": Const(IBO.ItemBOOLEAN), "data": Bytes(min_len=1)}

    def requires(cls, data, case):
        return decode_pre(cls, data, case["k"])

    def raises():
        return {}

    def samples(rnd, k):
        pls = [b"", b"\x00", b"\x01", b"\x02\xff\x00\x01\x80"] + [bytes(rnd.choice((0, 1, 2, 255, rnd.getrandbits(8))) for _ in range(rnd.randint(0, 6))) for _ in range(10)]
        return payload_samples(rnd, IBO.ItemBOOLEAN, k, pls)

    def ensures(cls, data, result, case):
        k = case["k"]
        n = e5.uint_at(data, 1, k)
        return (type(result) is cls and len(result._value) == n
                and forall(0, n, lambda j: result._value[j] == (data[1 + k + j] != 0)))


# =============================================================================================== B items
@contract("secsgem.secs.item_b:ItemB.encode", "C14")
class ItemBEncode:
    """canonical header ++ the bytes"""

    cases = None

    def inputs():
        return {"self": Obj(IB.ItemB, _value=Bytes())}

    def raises(self):
        return {ValueError: len(self._value) > 0xFFFFFF}

    def ensures(self, result):
        n = len(self._value)
        hl = e5.hlen(n)
        return (len(result) == hl + n and seq_eq_at(result, 0, e5.header_min(0o10, n))
                and forall(0, n, lambda j: result[hl + j] == self._value[j]))


@contract("secsgem.secs.item_b:ItemB.decode", "C14")
class ItemBDecode:
    """exactly the payload bytes, for any k"""

    cases = [(f"k{k}", {"k": k}) for k in (1, 2, 3)]

    def inputs(k):
        return {"cls": Const(IB.ItemB), "data": Bytes(min_len=1)}

    def requires(cls, data, case):
        return decode_pre(cls, data, case["k"])

    def raises():
        return {}

    def samples(rnd, k):
        pls = [b"", b"\x00", bytes(range(256))] + [bytes(rnd.getrandbits(8) for _ in range(rnd.randint(0, 9))) for _ in range(8)]
        return payload_samples(rnd, IB.ItemB, k, pls)

    def ensures(cls, data, result, case):
        k = case["k"]
        n = e5.uint_at(data, 1, k)
        return (type(result) is cls and len(result._value) == n
                and forall(0, n, lambda j: result._value[j] == data[1 + k + j]))


# =============================================================================================== A / J items
import secsgem.common.codec_jis_x_0201 as _JIS  # noqa: E402  (registers the jis_8 codec the Item API uses)
TEXT_ITEMS = [IS.ItemA, IS.ItemJ]


def item_codec_tables():
    return {"jis-8": {"encode": dict(_JIS.jis8_encoding_map), "decode": dict(_JIS.jis8_decoding_map)}}


@contract("secsgem.secs.item_str:ItemStr.encode", "C14")
class ItemStrEncode:
    """canonical header ++ one code unit per character; UnicodeEncodeError exactly when a character has no code unit"""

    cases = [(c.__name__, {"cls": c}) for c in TEXT_ITEMS]
    codec_tables = staticmethod(item_codec_tables)

    def inputs(cls):
        return {"self": Obj(cls, _value=Str())}

    def raises(self):
        bad = exists(0, len(self._value), lambda j: not e5.text_encodable(self._hsms_type, ord(self._value[j])))
        return {UnicodeEncodeError: bad and len(self._value) <= 0xFFFFFF, ValueError: len(self._value) > 0xFFFFFF}

    def ensures(self, result):
        fc = self._hsms_type
        n = len(self._value)
        hl = e5.hlen(n)
        return (len(result) == hl + n and seq_eq_at(result, 0, e5.header_min(fc, n))
                and forall(0, n, lambda j: result[hl + j] == e5.text_byte(fc, ord(self._value[j]))))


@contract("secsgem.secs.item_str:ItemStr.decode", "C14")
class ItemStrDecode:
    """exactly the characters the payload code units denote, for any k"""

    cases = [(f"{c.__name__}-k{k}", {"cls": c, "k": k}) for c in TEXT_ITEMS for k in (1, 2, 3)]
    codec_tables = staticmethod(item_codec_tables)

    def inputs(cls, k):
        return {"cls": Const(cls), "data": Bytes(min_len=1)}

    def requires(cls, data, case):
        return decode_pre(cls, data, case["k"])

    def raises():
        return {}

    def samples(rnd, cls, k):
        pls = [b"", b"A", bytes(range(256)), b"\x5c\x7e\xa1\xdf\xff\x00"] + [bytes(rnd.getrandbits(8) for _ in range(rnd.randint(0, 9))) for _ in range(8)]
        return payload_samples(rnd, cls, k, pls)

    def ensures(cls, data, result, case):
        k = case["k"]
        fc = cls._hsms_type
        n = e5.uint_at(data, 1, k)
        return (type(result) is cls and len(result._value) == n
                and forall(0, n, lambda j: ord(result._value[j]) == e5.text_char(fc, data[1 + k + j])))


# =============================================================================================== L items (abstract children)
from spec.ext import AbsVar  # noqa: E402
from contracts.C01_containers import ChildEncodeAbs, child, concat_at  # noqa: E402


@contract("secsgem.secs.item_l:ItemL.encode", "C14")
class ItemLEncode:
    """L header (minimal length bytes) ++ the children's encodings in order - children are abstract items that return
    their bytes g_enc (every concrete item class is verified against that shape above); element count 0..3 (bounded shape)."""

    cases = [(f"n{n}", {"n": n}) for n in (0, 1, 2, 3)]
    uses = [ChildEncodeAbs]

    def inputs(n):
        return {"self": Obj(IL.ItemL, _value=FixedList(*[child() for _ in range(n)]))}

    def raises():
        return {}

    def ensures(self, result, case):
        return seq_eq_at(result[:2], 0, e5.header_min(0, case["n"])) and concat_at(result, 2, self._value)


# ItemL.encode for ANY number of children (heap region of symbolic size, as Array.encode in C01_containers)
from contracts.C01_containers import KIDS, kids_ok, lens, children_at, hlen  # noqa: E402


@contract("secsgem.secs.item_l:ItemL.encode", "C14", name="ItemLEncodeAny")
class ItemLEncodeAny:
    """every element count n (0 .. 2**24-1, beyond that ValueError): L header with the minimal number of length bytes, then
    the encodings of all children in order, nothing else"""

    cases = None
    uses = [ChildEncodeAbs]

    def inputs():
        return {"self": Obj(IL.ItemL, _value=RegionList(KIDS))}

    def requires(self):
        return kids_ok(self._value)

    def raises(self):
        return {ValueError: len(self._value) > 0xFFFFFF}

    def ensures(self, result):
        n = len(self._value)
        h = hlen(n)
        return {"header": seq_eq_at(result, 0, e5.header_min(0, n)),
                "length": len(result) == h + prefix_sum(lens(self._value), n),
                "children-in-order": children_at(result, h, self._value, n)}

    def inv(self, result, i):
        n = len(self._value)
        h = hlen(n)
        return (seq_eq_at(result, 0, e5.header_min(0, n))
                and len(result) == h + prefix_sum(lens(self._value), i)
                and forall(0, i, lambda k: prefix_sum(lens(self._value), k) + self._value[k].g_len <= prefix_sum(lens(self._value), i) and prefix_sum(lens(self._value), k) >= 0)
                and children_at(result, h, self._value, i))

    loops = {1: Loop(a=inv)}


# =============================================================================================== ItemL.decode for ANY element count
# The members are decoded by the recursive dispatcher Item.decode, which consumes its item from the shared PacketData buffer.
# Here it is a call-out (every concrete item class is verified against the same shape above; the L class by this very
# contract): the next object of a heap region of created items, which has consumed at least one byte from the front of the
# buffer.  Positions are measured from the end: an item decoded when `before` bytes were left and `after` remain afterwards
# occupies the bytes [total - before, total - after) of the packet.
NEWITEMS = Region("new_items", AbsVar, g_left_before=Int, g_left_after=Int)


class AbsItemFactory:
    """ghost counter of the items created by Item.decode in this run (class-level call-out)"""


@contract("secsgem.secs.item:Item.decode", "C14", name="MemberDecodeAbs")
class MemberDecodeAbs:
    """ASSUMED at the call site (the recursive dispatch; proved per item class by the decode contracts above and, for nested
    lists, by ItemLDecodeAny itself): consumes one complete item (at least its header byte) from the front of the buffer and
    returns a new item object; or raises."""

    abstract = True
    returns = Elem(NEWITEMS)
    modifies = {"data._data": Bytes(), "data.g_made": Int}
    may_raise = [Exception]

    def requires(data):
        return 0 <= data.g_made and data.g_made < region_size(data.g_region)

    def ensures(data, old, result):
        m = len(old.data._data) - len(data._data)
        return (m >= 1 and forall(0, len(data._data), lambda t: data._data[t] == old.data._data[t + m])
                and key_of(result) == old.data.g_made and data.g_made == old.data.g_made + 1
                and result.g_left_before == len(old.data._data) and result.g_left_after == len(data._data))


@contract("secsgem.secs.item:Item.__init__", "C14", name="ItemInitAbs14")
class ItemInitAbs14:
    """ASSUMED call-out (validation of the member list is ItemL.validate_value, covered by the API pass): the new item keeps
    the list it was given."""

    abstract = True
    modifies = {"self._value": Same("value")}
    may_raise = [Exception]


@contract("secsgem.secs.item_l:ItemL.decode", "C14", name="ItemLDecodeAny")
class ItemLDecodeAny:
    """An L item announcing ANY number n of members (k = 1..3 length bytes): exactly n members are decoded, in order, the first
    right after the header, each from where the previous one ended (the shared buffer is consumed front to back, nothing is
    skipped or read twice), and the new list item holds exactly these n objects in this order; a member that fails to
    decode makes the whole decode raise."""

    cases = [(f"k{k}", {"k": k}) for k in (1, 2, 3)]
    may_raise = [Exception]
    uses = [MemberDecodeAbs, ItemInitAbs14]

    def replay(case, name, model):
        """Native demonstration: L items with 0, 1, 2, 3, 300, 70000 members (U1 numbers, texts, nested empty lists), encoded
        by the independent reference encoder with k length bytes, decoded by the real Item API: the members read back."""
        from spec import e5ref as R
        k = case["k"]
        failed = []
        for n in (0, 1, 2, 3, 300, 70000):
            if (k == 1 and n > 255) or (k == 2 and n > 65535):
                continue
            kids = [("U1", [j % 251]) if j % 3 == 0 else (("A", "x" * (j % 4)) if j % 3 == 1 else ("L", [])) for j in range(n)]
            data = R.header(0, n, k) + b"".join(R.encode(c) for c in kids)
            try:
                item = IT.Item.decode(data)
            except Exception as exc:
                failed.append(f"L[{n}], k={k}: {type(exc).__name__}: {exc}"[:160])
                continue
            got = item.value
            want = [c[1][0] if c[0] == "U1" else (c[1] if c[0] == "A" else []) for c in kids]
            if len(got) != n or list(got) != want:
                failed.append(f"L[{n}], k={k}: {len(got)} members read back, first difference at {next((i for i, (a, b) in enumerate(zip(got, want)) if a != b), min(len(got), len(want)))}")
        if not failed:
            return None
        return {"status": "confirmed", "failed_clauses": failed[:6], "inputs": {"member_counts": [0, 1, 2, 3, 300, 70000], "length_bytes": k}}

    def inputs(k):
        return {"cls": Const(IL.ItemL), "data": Obj(PacketData, _data=Bytes(min_len=1), g_made=Int(0, None), g_region=NEWITEMS)}

    def requires(data, case):
        k = case["k"]
        return (len(data._data) >= 1 + k and data._data[0] == k
                and data.g_made + e5.uint_at(data._data, 1, k) <= region_size(data.g_region))

    def raises():
        return {}

    def ensures(data, old, result, case):
        k = case["k"]
        total = len(old.data._data)
        n = e5.uint_at(old.data._data, 1, k)
        m0 = old.data.g_made
        v = result._value
        return {"member-count": len(v) == n,
                "members-are-the-items-decoded-in-order": forall(0, n, lambda j: key_of(v[j]) == m0 + j),
                "first-member-right-after-the-header": implies(n >= 1, lambda: v[0].g_left_before == total - 1 - k),
                "members-back-to-back": forall(1, n, lambda j: v[j].g_left_before == v[j - 1].g_left_after),
                "buffer-consumed-up-to-the-last-member": len(data._data) == (total - 1 - k if n == 0 else v[n - 1].g_left_after)}

    def inv(data, old, acc, i, case):
        k = case["k"]
        total = len(old.data._data)
        m0 = old.data.g_made
        return (len(acc) == i and data.g_made == m0 + i
                and forall(0, i, lambda j: key_of(acc[j]) == m0 + j)
                and implies(i >= 1, lambda: acc[0].g_left_before == total - 1 - k)
                and forall(1, i, lambda j: acc[j].g_left_before == acc[j - 1].g_left_after)
                and len(data._data) == (total - 1 - k if i == 0 else acc[i - 1].g_left_after))

    comprehensions = {1: Loop(a=inv, types={"acc": ElemList(NEWITEMS)},
                              modifies=["data._data", "data.g_made", "region:new_items.g_left_before", "region:new_items.g_left_after"])}
