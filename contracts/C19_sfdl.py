"""C19: the validator of SFDL structure definitions at the ELEMENT level (secsgem/secs/functions/sfdl_tokenizer.py).

The tokenizer splits the text into raw elements (operators "<" ">" and words) and then runs the recursive descent
`_process_tokens` over them, which is what accepts or rejects a definition.  Here the elements are a heap region of any size
with symbolic texts; the element list is seen through a ghost cursor (its three one-line methods are assumed and checked
natively by the FD pass), the token list through ghost counters.  Proved for EVERY element sequence:
  * termination (the list loop consumes at least three elements per iteration, recursion starts later);
  * a call that returns has consumed a segment "<" ... ">" that is bracket-balanced, produced exactly one token per element with
    as many OPEN/CLOSE tokens as brackets, and every data item name in it is a known data item;
  * otherwise SFDLParseError - never another exception, never silent acceptance of a missing closing bracket or an unknown
    data item name."""
from pyvc.contract import *  # noqa
from pyvc.spec_intrinsics import *  # noqa
from spec.ext import AbsElement, AbsTokenList

import secsgem.secs.data_items as data_items
from secsgem.secs.functions.sfdl_tokenizer import (SFDLParseError, SFDLToken, SFDLTokenizer, SFDLTokenType, _SFDLElementList,
                                                   _SFDLSourceLocation)

ELEMS = Region("elements", AbsElement, value=Str(), g_open=Int, g_close=Int)


def elements_obj():
    return Obj(_SFDLElementList, g_items=RegionList(ELEMS), g_pos=Int(0, None))


def tokens_obj():
    return Obj(AbsTokenList, g_n=Int(0, None), g_open=Int(0, None), g_close=Int(0, None), g_unknown=Int(0, None))


def nel(e):
    return len(e.g_items)


def elements_ok(e):
    return (0 <= e.g_pos and e.g_pos <= nel(e)
            and forall(0, nel(e), lambda k: e.g_items[k].g_open == (1 if e.g_items[k].value == "<" else 0)
                       and e.g_items[k].g_close == (1 if e.g_items[k].value == ">" else 0)))


def opens(e, a, b):
    R = region_of(e.g_items[0])
    return prefix_sum(field_seq(R, "g_open"), b) - prefix_sum(field_seq(R, "g_open"), a)


def closes(e, a, b):
    R = region_of(e.g_items[0])
    return prefix_sum(field_seq(R, "g_close"), b) - prefix_sum(field_seq(R, "g_close"), a)


# =============================================================================================== the element list (assumed; FD-checked)
@contract("secsgem.secs.functions.sfdl_tokenizer:_SFDLElementList.available", "C19", name="ElementsAvailableAbs")
class ElementsAvailableAbs:
    """ASSUMED (one-line method `len(self._items) > 0`; FD `element-list-methods`): elements are left"""

    abstract = True
    returns = Bool

    def ensures(self, result):
        return result == (self.g_pos < nel(self))


@contract("secsgem.secs.functions.sfdl_tokenizer:_SFDLElementList.pop", "C19", name="ElementsPopAbs")
class ElementsPopAbs:
    """ASSUMED (`self._items.pop(0)`): the first remaining element (text, location) is removed and returned"""

    abstract = True
    returns = FixedList(Str(), Obj(_SFDLSourceLocation, _line=Int, _column=Int), kind="tuple")
    modifies = {"self.g_pos": Int}

    def raises(self):
        return {IndexError: self.g_pos >= nel(self)}

    def ensures(self, old, result):
        p = old.self.g_pos
        return self.g_pos == p + 1 and result[0] == self.g_items[p].value


@contract("secsgem.secs.functions.sfdl_tokenizer:_SFDLElementList.peek", "C19", name="ElementsPeekAbs")
class ElementsPeekAbs:
    """ASSUMED (`self._items[ahead]`, used with ahead = 0): the first remaining element, not removed"""

    abstract = True
    returns = FixedList(Str(), Obj(_SFDLSourceLocation, _line=Int, _column=Int), kind="tuple")

    def requires(self, ahead):
        return ahead == 0

    def raises(self):
        return {IndexError: self.g_pos >= nel(self)}

    def ensures(self, result):
        return result[0] == self.g_items[self.g_pos].value


# =============================================================================================== the token list (ghost counters)
@contract("spec.ext:AbsTokenList.append", "C19", name="TokensAppendAbs")
class TokensAppendAbs:
    """Ghost view of list.append for the validated tokens."""

    abstract = True
    modifies = {"self.g_n": Int, "self.g_open": Int, "self.g_close": Int, "self.g_unknown": Int}

    def ensures(self, token, old):
        return (self.g_n == old.self.g_n + 1
                and self.g_open == old.self.g_open + (1 if token._type is SFDLTokenType.OPEN_TAG else 0)
                and self.g_close == old.self.g_close + (1 if token._type is SFDLTokenType.CLOSE_TAG else 0)
                and self.g_unknown == old.self.g_unknown + (1 if token._type is SFDLTokenType.DATA_ITEM and not has_attr_text(data_items, token._value) else 0))


@contract("spec.ext:AbsTokenList.__getitem__", "C19", name="TokensLastAbs")
class TokensLastAbs:
    """tokens[-1] (only used to point an error message at the last token): needs a non-empty list"""

    abstract = True
    returns = Obj(SFDLToken, _type=Const(SFDLTokenType.OPEN_TAG), _value=Str(), _location=Obj(_SFDLSourceLocation, _line=Int, _column=Int), _tokenizer=Const(None))

    def requires(self, index):
        return index == -1 and self.g_n >= 1


@contract("spec.ext:AbsTokenList.__len__", "C19", name="TokensLenAbs")
class TokensLenAbs:
    abstract = True
    returns = Int

    def ensures(self, result):
        return result == self.g_n


def consumed_ok(elements, tokens, old):
    """what a returning call of _process_tokens has done"""
    p0, p1 = old.elements.g_pos, elements.g_pos
    return {"one-complete-bracketed-segment": p1 >= p0 + 3 and p1 <= nel(elements) and elements.g_items[p0].value == "<" and elements.g_items[p1 - 1].value == ">",
            "bracket-balanced": opens(elements, p0, p1) == closes(elements, p0, p1),
            "one-token-per-element": tokens.g_n == old.tokens.g_n + (p1 - p0),
            "open-and-close-tokens-are-the-brackets": tokens.g_open == old.tokens.g_open + opens(elements, p0, p1) and tokens.g_close == old.tokens.g_close + closes(elements, p0, p1),
            "no-unknown-data-item-accepted": tokens.g_unknown == old.tokens.g_unknown}


def native_demo(case, name, model):
    """Native demonstration used as replay: the real SFDLTokenizer on definitions with a missing closing bracket or an unknown
    data item name (must raise SFDLParseError) and on their well-formed twins (must be accepted, one token per element)."""
    broken = ["< L < MDLN > < SOFTREV >", "< L", "<", "< MDLN", "< L NAME < MDLN >", "< L < L < MDLN > >", "< NOSUCHITEM >", "< L < MDLN > < NOSUCHITEM > >",
              "< L < > >", "MDLN >", "< L > >" if False else "< L < MDLN > <", "< L L >"]
    whole = ["< L < MDLN > < SOFTREV > >", "< L >", "< MDLN >", "< L NAME < MDLN > >", "< L < L < MDLN > > >", "< L\n  < MDLN >   # comment with < and >\n>"]
    failed, seen = [], []
    for text in broken:
        try:
            toks = SFDLTokenizer(text).tokens
            failed.append(f"the definition {text!r} (missing closing bracket / unknown data item) is accepted: {len(toks._tokens)} tokens")
        except SFDLParseError:
            seen.append((text, "SFDLParseError"))
        except Exception as exc:
            failed.append(f"the definition {text!r} is rejected with {type(exc).__name__} instead of SFDLParseError")
    for text in whole:
        try:
            toks = SFDLTokenizer(text).tokens._tokens
            opens_ = sum(1 for t in toks if t.type is SFDLTokenType.OPEN_TAG)
            closes_ = sum(1 for t in toks if t.type is SFDLTokenType.CLOSE_TAG)
            if opens_ != closes_ or opens_ == 0:
                failed.append(f"{text!r}: {opens_} opening and {closes_} closing tokens")
        except Exception as exc:
            failed.append(f"the well-formed definition {text!r} is rejected: {type(exc).__name__}"[:200])
    if not failed:
        return None
    return {"status": "confirmed", "failed_clauses": failed[:6], "inputs": {"definitions": broken + whole}, "observed": seen[:6]}


class _Validator:
    replay = native_demo
    may_raise = [SFDLParseError]            # rejected definitions: always this error class, nothing else
    text_conversions_abstracted = True      # getattr(data_items, <symbolic name>, None): None unless has_attr_text(name)

    def requires(elements):
        return elements_ok(elements)

    def raises():
        return {}


@contract("secsgem.secs.functions.sfdl_tokenizer:SFDLTokenizer._process_tokens", "C19")
class ProcessTokens(_Validator):
    """One structure "<" item ">" (opening, item and closing step inlined; the members of a list through ListItemToken)."""

    cases = None
    modifies = {"elements.g_pos": Int, "tokens.g_n": Int, "tokens.g_open": Int, "tokens.g_close": Int, "tokens.g_unknown": Int}
    returns = Same("tokens")

    def inputs():
        return {"self": Obj(SFDLTokenizer), "elements": elements_obj(), "tokens": tokens_obj()}

    def ensures(elements, tokens, old):
        return consumed_ok(elements, tokens, old)


@contract("secsgem.secs.functions.sfdl_tokenizer:SFDLTokenizer._process_list_item_token", "C19")
class ListItemToken(_Validator):
    """After "<" "L": an optional list name, then member structures up to (not including) the closing ">".  Returns only in
    front of a ">" element; the part consumed is bracket-balanced; terminates (every member consumes at least 3 elements)."""

    cases = None
    modifies = {"elements.g_pos": Int, "tokens.g_n": Int, "tokens.g_open": Int, "tokens.g_close": Int, "tokens.g_unknown": Int}

    def inputs():
        return {"self": Obj(SFDLTokenizer), "elements": elements_obj(), "tokens": tokens_obj()}

    def requires_tokens(tokens):
        return tokens.g_n >= 1

    def ensures(elements, tokens, old):
        p0, p1 = old.elements.g_pos, elements.g_pos
        return {"stops-in-front-of-a-closing-bracket": p1 >= p0 and p1 < nel(elements) and elements.g_items[p1].value == ">",
                "bracket-balanced": opens(elements, p0, p1) == closes(elements, p0, p1),
                "one-token-per-element": tokens.g_n == old.tokens.g_n + (p1 - p0),
                "open-and-close-tokens-are-the-brackets": tokens.g_open == old.tokens.g_open + opens(elements, p0, p1) and tokens.g_close == old.tokens.g_close + closes(elements, p0, p1),
                "no-unknown-data-item-accepted": tokens.g_unknown == old.tokens.g_unknown}

    def inv(elements, tokens, old):
        p0, p = old.elements.g_pos, elements.g_pos
        return (elements_ok(elements) and p >= p0 and tokens.g_n >= 1
                and opens(elements, p0, p) == closes(elements, p0, p)
                and tokens.g_n == old.tokens.g_n + (p - p0)
                and tokens.g_open == old.tokens.g_open + opens(elements, p0, p) and tokens.g_close == old.tokens.g_close + closes(elements, p0, p)
                and tokens.g_unknown == old.tokens.g_unknown)

    def variant(elements):
        return nel(elements) - elements.g_pos

    loops = {1: Loop(a=inv, decreases=variant, modifies=["elements.g_pos", "tokens.g_n", "tokens.g_open", "tokens.g_close", "tokens.g_unknown"])}


_ABS = [ElementsAvailableAbs, ElementsPopAbs, ElementsPeekAbs, TokensAppendAbs, TokensLastAbs, TokensLenAbs]
ProcessTokens.uses = _ABS + [ListItemToken]
ListItemToken.uses = _ABS + [ProcessTokens]
