"""C08: the reply logic of the real SecsHandler._handle_stream_function for ALL stream / function / system byte values.

Unit = SecsHandler._handle_stream_function with _handle_unknown_functions, send_response (the handler's wrapper),
_generate_sf_callback_name and HsmsHeader.encode inlined.  Call-outs through assumed contracts: the callback registry
(CallbackHandler.__contains__ / __getattr__), the user callback itself (returns a function object, None, or raises),
the catalogue lookup stream_function(s, f) and the construction of a function object, Protocol.send_response (ghost
record of every reply handed to the protocol)."""
from pyvc.contract import *  # noqa
from pyvc.spec_intrinsics import *  # noqa

import secsgem.common
from secsgem.common.callbacks import CallbackHandler
from secsgem.common.protocol import Protocol
from secsgem.secs.handler import SecsHandler
from spec.ext import AbsCallback, AbsFunction, AbsFunctionClass

from contracts.C05_session import message_obj
from secsgem.hsms.header import HsmsSType


@contract("secsgem.common.callbacks:CallbackHandler.__contains__", "C08", name="HasCallbackAbs")
class HasCallbackAbs:
    """ASSUMED (call-out): whether a callback is registered for this stream/function - any answer (ghost g_has)."""

    abstract = True
    modifies = {"self.g_has": Bool}
    returns = Bool

    def ensures(self, result):
        return result == self.g_has


@contract("secsgem.common.callbacks:CallbackHandler.__getattr__", "C08", name="GetCallbackAbs")
class GetCallbackAbs:
    """ASSUMED (call-out): the registered callback."""

    abstract = True
    returns = Obj(AbsCallback, g_registry=Same("self"))


@contract("spec.ext:AbsCallback.__call__", "C08", name="CallbackAbs")
class CallbackAbs:
    """ASSUMED (user code): the callback returns a function object (ghost id), or None, or raises - recorded in ghosts."""

    abstract = True
    modifies = {"self.g_registry.g_calls": Int, "self.g_registry.g_raised": Bool, "self.g_registry.g_none": Bool,
                "self.g_registry.g_result_id": Int}
    returns = Optional(Obj(AbsFunction, g_stream=Int, g_function=Int, g_id=Int))

    def raises(self):
        return {ValueError: fresh_bool("callback_raises")}

    def ensures(self, old, result):
        r = self.g_registry
        if result is None:
            return r.g_calls == old.self.g_registry.g_calls + 1 and r.g_none and not r.g_raised
        return r.g_calls == old.self.g_registry.g_calls + 1 and not r.g_none and not r.g_raised and r.g_result_id == result.g_id


@contract("secsgem.secs.handler:SecsHandler.stream_function", "C08", name="StreamFunctionAbs")
class StreamFunctionAbs:
    """ASSUMED (catalogue lookup, C03): the class of stream s, function f."""

    abstract = True
    returns = Obj(AbsFunctionClass, g_stream=Same("stream"), g_function=Same("function"))


@contract("spec.ext:AbsFunctionClass.__call__", "C08", name="NewFunctionAbs")
class NewFunctionAbs:
    """ASSUMED: instantiating a catalogue class gives a function object of that stream and function."""

    abstract = True
    returns = Obj(AbsFunction, g_stream=Same("self.g_stream"), g_function=Same("self.g_function"), g_id=Int)

    def ensures(self, result):
        return result.g_id < 0          # library-built replies are distinguishable from callback results (ids >= 0)


@contract("secsgem.common.protocol:Protocol.send_response", "C08", name="SendResponseAbs")
class SendResponseAbs:
    """ASSUMED (call-out): a reply handed to the protocol is recorded (count, system bytes, stream, function, id)."""

    abstract = True
    modifies = {"self.g_nreplies": Int, "self.g_system": Int, "self.g_stream": Int, "self.g_function": Int, "self.g_id": Int}
    returns = Bool

    def ensures(self, function, system, old):
        return (self.g_nreplies == old.self.g_nreplies + 1 and self.g_system == system and self.g_stream == function.g_stream
                and self.g_function == function.g_function and self.g_id == function.g_id)


@contract("secsgem.secs.handler:SecsHandler._handle_stream_function", "C08")
class HandleStreamFunction:
    """Every primary is answered as the property says, for every stream, function, W-bit, system bytes and body:
    no callback -> S9F5 iff W; callback raises -> S<stream>F0; callback returns a function -> exactly that function once;
    callback returns None -> nothing; always with the request's system bytes; never more than one reply."""

    cases = None
    uses = [HasCallbackAbs, GetCallbackAbs, CallbackAbs, StreamFunctionAbs, NewFunctionAbs, SendResponseAbs]

    def inputs():
        return {"self": Obj(SecsHandler,
                            _callback_handler=Obj(CallbackHandler, g_has=Bool, g_calls=Int, g_raised=Const(False), g_none=Const(False), g_result_id=Int),
                            _protocol=Obj(Protocol, g_nreplies=Int, g_system=Int, g_stream=Int, g_function=Int, g_id=Int)),
                "message": message_obj(HsmsSType.DATA_MESSAGE)}

    def raises():
        return {}

    def ensures(self, message, old):
        h = message._blocks[0]._header
        p = self._protocol
        cb = self._callback_handler
        n = p.g_nreplies - old.self._protocol.g_nreplies
        w = h._require_response
        called = cb.g_calls - old.self._callback_handler.g_calls
        raised = cb.g_has and called == 0      # the only way a registered callback leaves no trace is that it raised
        return {
            "at-most-one-reply": 0 <= n <= 1,
            "reply-carries-request-system-bytes": implies(n == 1, lambda: p.g_system == h._system),
            "no-callback.s9f5-iff-w-bit": implies(not cb.g_has, lambda: called == 0 and n == ite(w, 1, 0)
                                                  and implies(w, lambda: p.g_stream == 9 and p.g_function == 5)),
            "callback.called-at-most-once": 0 <= called <= 1,
            "callback-returns-function.exactly-that-reply": implies(cb.g_has and called == 1 and not cb.g_none,
                                                                   lambda: n == 1 and p.g_id == cb.g_result_id),
            "callback-returns-none.no-reply": implies(cb.g_has and called == 1 and cb.g_none, lambda: n == 0),
            "callback-raises.exactly-one-sxf0": implies(raised, lambda: n == 1 and p.g_stream == h._stream and p.g_function == 0),
            "no-w-bit.no-reply": implies(not w and not raised, lambda: n == 0),
        }

    def replay(case, name, model):
        """Native demonstration on a real handler (in-memory connection): one primary with the model's stream/function/W-bit
        and a registered callback of each kind, judged by the property's clauses."""
        import logging
        from bounded import C08_api as A
        logging.disable(logging.CRITICAL)
        pre = "in:message._blocks[0]._header."
        wbit = bool(model.get(pre + "_require_response"))
        system = int(model.get(pre + "_system") or 0)
        failed, seen = [], []
        for stream, function in ((1, 1), (10, 3)):
            for mode in ("returns-reply", "returns-none", "raises"):
                reg = mode
                if mode == "returns-reply":
                    def reg(handler, stream=stream, function=function):
                        return lambda h, m: handler.stream_function(stream, function + 1)()
                body = b"" if (stream, function) != (10, 3) else A.R.encode(("L", [("B", b"\x01"), ("A", "t")]))
                frames, _ = A.one_message("equipment", stream, function, wbit, body, system, reg)
                data = [(f["stream"], f["function"], f["system"]) for f in frames if f["stype"] == 0]
                seen.append({"message": f"S{stream}F{function}", "w": wbit, "callback": mode, "replies": data})
                if len(data) > 1:
                    failed.append(f"S{stream}F{function} callback {mode}: {len(data)} replies")
                if any(d[2] != system for d in data):
                    failed.append(f"S{stream}F{function} callback {mode}: reply with other system bytes {data}")
                if mode == "returns-none" and data:
                    failed.append(f"S{stream}F{function}: callback returned None but a reply was sent {data}")
                if mode == "returns-reply" and wbit and len(data) != 1:
                    failed.append(f"S{stream}F{function} W: callback result not sent exactly once {data}")
                if mode == "returns-reply" and not wbit and data:
                    failed.append(f"S{stream}F{function} without W-bit: a reply was sent {data}")
                if mode == "raises" and wbit and data != [(stream, 0, system)]:
                    failed.append(f"S{stream}F{function} W: failing callback not answered by exactly one S{stream}F0 {data}")
        return {"status": "confirmed" if failed else "spurious", "failed_clauses": failed,
                "inputs": {"w": wbit, "system": system}, "observed": seen}
