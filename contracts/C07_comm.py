"""C07: the real GemHandler message gate against the E30 establish-communications rules, for all header field values.

Unit = GemHandler._on_message_received (with _is_commack_accepted and the send_response wrapper inlined), one case per
communication state and role.  Assumed call-site contracts: the transitions of CommunicationStateMachine (validated
exhaustively on the real machine by bounded/C07_api.fd_state_machine_contracts), on_commack_requested (user override:
any code), the catalogue lookup and construction of S1F14, Protocol.send_response (records the reply), the decode of
an inbound S1F14 (yields the COMMACK the body denotes, or raises for a malformed body), and
SecsHandler._handle_stream_function (the application gate, counted)."""
from pyvc.contract import *  # noqa
from pyvc.spec_intrinsics import *  # noqa

from secsgem.common.protocol import Protocol
from secsgem.common.settings import Settings
from secsgem.common.state_machine import State, WrongSourceStateError
from secsgem.gem.communication_state_machine import CommunicationState as CM, CommunicationStateMachine
from secsgem.gem.handler import GemHandler
from secsgem.hsms.header import HsmsSType
from secsgem.secs.functions.streams_functions import StreamsFunctions
from spec.ext import AbsDecoded, AbsFunction, AbsFunctionClass, AbsItem

from contracts.C05_session import message_obj


class _SMBase:
    abstract = True

    def ensures(self, old):
        return self.g_transitions == old.self.g_transitions + 1


@contract("secsgem.gem.communication_state_machine:CommunicationStateMachine.s1f13received", "C07", name="SM_s1f13received")
class SM_s1f13received(_SMBase):
    """ASSUMED at call sites, validated on the real machine (FD): WAIT_CR_FROM_HOST / WAIT_DELAY / WAIT_CRA -> COMMUNICATING,
    else WrongSourceStateError and nothing changed."""

    sm_sources, sm_target, sm_name = (CM.WAIT_CR_FROM_HOST, CM.WAIT_DELAY, CM.WAIT_CRA), CM.COMMUNICATING, "s1f13received"
    modifies = {"self._current_state": Obj(State, _state=Const(CM.COMMUNICATING)), "self.g_transitions": Int}

    def raises(self):
        return {WrongSourceStateError: self._current_state._state not in (CM.WAIT_CR_FROM_HOST, CM.WAIT_DELAY, CM.WAIT_CRA)}


@contract("secsgem.gem.communication_state_machine:CommunicationStateMachine.s1f14received", "C07", name="SM_s1f14received")
class SM_s1f14received(_SMBase):
    """ASSUMED, validated (FD): WAIT_CRA -> COMMUNICATING."""

    sm_sources, sm_target, sm_name = (CM.WAIT_CRA,), CM.COMMUNICATING, "s1f14received"
    modifies = {"self._current_state": Obj(State, _state=Const(CM.COMMUNICATING)), "self.g_transitions": Int}

    def raises(self):
        return {WrongSourceStateError: self._current_state._state is not CM.WAIT_CRA}


@contract("secsgem.gem.communication_state_machine:CommunicationStateMachine.communicationreqfail", "C07", name="SM_communicationreqfail")
class SM_communicationreqfail(_SMBase):
    """ASSUMED, validated (FD): WAIT_CRA -> WAIT_DELAY."""

    sm_sources, sm_target, sm_name = (CM.WAIT_CRA,), CM.WAIT_DELAY, "communicationreqfail"
    modifies = {"self._current_state": Obj(State, _state=Const(CM.WAIT_DELAY)), "self.g_transitions": Int}

    def raises(self):
        return {WrongSourceStateError: self._current_state._state is not CM.WAIT_CRA}


@contract("secsgem.gem.communication_state_machine:CommunicationStateMachine.communicationfail", "C07", name="SM_communicationfail")
class SM_communicationfail(_SMBase):
    """ASSUMED, validated (FD): COMMUNICATING / WAIT_CRA / WAIT_DELAY -> NOT_COMMUNICATING (the link is gone: D43)."""

    sm_sources, sm_target, sm_name = (CM.COMMUNICATING, CM.WAIT_CRA, CM.WAIT_DELAY), CM.NOT_COMMUNICATING, "communicationfail"
    modifies = {"self._current_state": Obj(State, _state=Const(CM.NOT_COMMUNICATING)), "self.g_transitions": Int}

    def raises(self):
        st = self._current_state._state
        return {WrongSourceStateError: st is not CM.COMMUNICATING and st is not CM.WAIT_CRA and st is not CM.WAIT_DELAY}


@contract("secsgem.gem.communication_state_machine:CommunicationStateMachine.select", "C07", name="SM_select")
class SM_select(_SMBase):
    """ASSUMED, validated (FD): NOT_COMMUNICATING -> WAIT_CRA (whose enter handlers send S1F13 and start T3: FD steps)."""

    sm_sources, sm_target, sm_name = (CM.NOT_COMMUNICATING,), CM.WAIT_CRA, "select"
    modifies = {"self._current_state": Obj(State, _state=Const(CM.WAIT_CRA)), "self.g_transitions": Int}

    def raises(self):
        return {WrongSourceStateError: self._current_state._state is not CM.NOT_COMMUNICATING}


SM_CONTRACTS = [SM_s1f13received, SM_s1f14received, SM_communicationreqfail, SM_communicationfail, SM_select]


@contract("secsgem.gem.handler:GemHandler.on_commack_requested", "C07", name="CommackAbs")
class CommackAbs:
    """ASSUMED (user override): any acknowledge code; recorded."""

    abstract = True
    modifies = {"self.g_commack": Int, "self.g_commack_asked": Int}
    returns = Int

    def ensures(self, old, result):
        return result == self.g_commack and self.g_commack_asked == old.self.g_commack_asked + 1


@contract("secsgem.secs.handler:SecsHandler.stream_function", "C07", name="StreamFunctionAbs7")
class StreamFunctionAbs7:
    """ASSUMED (catalogue lookup, C03)."""

    abstract = True
    returns = Obj(AbsFunctionClass, g_stream=Same("stream"), g_function=Same("function"))


@contract("spec.ext:AbsFunctionClass.__call__", "C07", name="NewFunctionAbs7")
class NewFunctionAbs7:
    """ASSUMED: instantiating a catalogue class with a value gives a function object holding that value."""

    abstract = True
    returns = Obj(AbsFunction, g_stream=Same("self.g_stream"), g_function=Same("self.g_function"), g_value=Same("value"))


@contract("secsgem.common.protocol:Protocol.send_response", "C07", name="SendResponseAbs7")
class SendResponseAbs7:
    """ASSUMED (call-out): the reply handed to the protocol is recorded."""

    abstract = True
    modifies = {"self.g_nreplies": Int, "self.g_system": Int, "self.g_last": Same("function")}
    returns = Bool

    def ensures(self, system, old):
        return self.g_nreplies == old.self.g_nreplies + 1 and self.g_system == system


@contract("secsgem.secs.functions.streams_functions:StreamsFunctions.decode", "C07", name="DecodeS1F14Abs")
class DecodeS1F14Abs:
    """ASSUMED (C03): decoding the inbound message yields the COMMACK its body denotes (ghost message.g_commack) or raises
    for a malformed body (ghost message.g_malformed)."""

    abstract = True
    returns = Obj(AbsDecoded, COMMACK=Obj(AbsItem, g_value=Same("message.g_commack"), g_empty=Same("message.g_commack_empty")))

    def raises(self, message):
        return {ValueError: message.g_malformed}


@contract("spec.ext:AbsItem.get", "C07", name="ItemGetAbs")
class ItemGetAbs:
    """ASSUMED: a binary item of one byte reads as that number; an EMPTY binary item (a well-formed body whose COMMACK has
    no byte) reads as b"" - which is not the acknowledge code 0."""

    abstract = True
    returns = OneOf(Int, Const(b""))

    def ensures(self, result):
        if isinstance(result, bytes):
            return self.g_empty
        return not self.g_empty and result == self.g_value


@contract("secsgem.secs.handler:SecsHandler._handle_stream_function", "C07", name="ApplicationGateAbs")
class ApplicationGateAbs:
    """Call-out: handing the message to the stream/function callbacks (C08) - counted."""

    abstract = True
    modifies = {"self.g_handled": Int}

    def ensures(self, old):
        return self.g_handled == old.self.g_handled + 1


STATES = [CM.DISABLED, CM.NOT_COMMUNICATING, CM.WAIT_CRA, CM.WAIT_DELAY, CM.COMMUNICATING]


def gem_message():
    m = message_obj(HsmsSType.DATA_MESSAGE)
    m.fields["g_commack"] = Int
    m.fields["g_commack_empty"] = Bool
    m.fields["g_malformed"] = Bool
    return m


@contract("secsgem.gem.handler:GemHandler._on_message_received", "C07")
class OnMessageReceived:
    """COMMUNICATING is entered only through an S1F14 with COMMACK 0 in WAIT_CRA or an inbound S1F13 answered with COMMACK
    0; an S1F14 with another code or an undecodable body goes to WAIT_DELAY; S1F13 is answered by exactly one S1F14 with the
    request's system bytes, the code asked from on_commack_requested and the role's MDLN list; no message reaches the
    stream/function callbacks unless the state is COMMUNICATING, where every message reaches them exactly once."""

    cases = [(f"{st.name}.{'host' if host else 'equipment'}", {"state": st, "host": host}) for st in STATES for host in (True, False)]
    uses = SM_CONTRACTS + [CommackAbs, StreamFunctionAbs7, NewFunctionAbs7, SendResponseAbs7, DecodeS1F14Abs, ItemGetAbs, ApplicationGateAbs]

    def inputs(state, host):
        return {"self": Obj(GemHandler,
                            _communication_state=Obj(CommunicationStateMachine, _current_state=Obj(State, _state=Const(state)), g_transitions=Int),
                            _protocol=Obj(Protocol, g_nreplies=Int, g_system=Int, g_last=Const(None)),
                            _settings=Obj(Settings, streams_functions=Obj(StreamsFunctions)),
                            _is_host=Const(host), _mdln=Str(), _softrev=Str(), g_commack=Int, g_commack_asked=Int, g_handled=Int),
                "data": {"message": gem_message()}}

    def raises():
        return {}

    def ensures(self, data, old, case):
        state, host = case["state"], case["host"]
        message = data["message"]
        h = message._blocks[0]._header
        cur = self._communication_state._current_state._state
        p = self._protocol
        n = p.g_nreplies - old.self._protocol.g_nreplies
        handled = self.g_handled - old.self.g_handled
        is13 = h._stream == 1 and h._function == 13
        is14 = h._stream == 1 and h._function == 14
        out = {"callbacks-only-when-communicating": handled == (1 if state is CM.COMMUNICATING else 0)}
        if state is CM.WAIT_CRA:
            accepted14 = is14 and not message.g_malformed and not message.g_commack_empty and message.g_commack == 0
            out["communicating-only-by-accepted-s1f14-or-accepted-s1f13"] = (cur is CM.COMMUNICATING) == ((is13 and self.g_commack == 0) or accepted14)
            out["refused-or-undecodable-s1f14-goes-to-wait-delay"] = implies(is14 and not accepted14, lambda: cur is CM.WAIT_DELAY)
            out["other-messages-change-nothing"] = implies(not is13 and not is14, lambda: cur is CM.WAIT_CRA and n == 0)
            out["s1f13-answered-once"] = n == ite(is13, 1, 0)
            out["s1f13-denied-stays"] = implies(is13 and self.g_commack != 0, lambda: cur is CM.WAIT_CRA)
        else:
            out["state-unchanged-nothing-sent"] = cur is state and n == 0
        return out

    def ensures_reply(self, data, old, case):
        """content of the S1F14 (separate clause: only meaningful on paths that sent one)"""
        if case["state"] is not CM.WAIT_CRA:
            return True
        message = data["message"]
        h = message._blocks[0]._header
        p = self._protocol
        n = p.g_nreplies - old.self._protocol.g_nreplies
        if p.g_last is None:
            return n == 0
        v = p.g_last.g_value
        return (n == 1 and p.g_system == h._system and p.g_last.g_stream == 1 and p.g_last.g_function == 14
                and v["COMMACK"] == self.g_commack and len(v["MDLN"]) == (0 if case["host"] else 2))

    def replay(case, name, model):
        """Native demonstration on a real handler brought to the case's state: S1F13 with accept / deny policy, S1F14 with
        COMMACK 0 / 1 / undecodable body, an application primary - judged by the clauses of the property."""
        import logging
        from bounded import C07_api as A
        from bounded import harness as H
        logging.disable(logging.CRITICAL)
        state, host = case["state"].name, case["host"]
        if state == "DISABLED":
            return None
        kind = "host" if host else "equipment"
        failed, seen = [], []
        with H.virtual_timers():
            for label, policy, (s, f, w, body) in (
                    ("S1F13, accepted", 0, (1, 13, True, A.S1F13_EQ if host else A.S1F13_HOST)),
                    ("S1F13, denied", 1, (1, 13, True, A.S1F13_EQ if host else A.S1F13_HOST)),
                    ("S1F14 COMMACK 0", 0, (1, 14, False, A.S1F14_OK)),
                    ("S1F14 COMMACK 1", 0, (1, 14, False, A.S1F14_DENY)),
                    ("S1F14 undecodable", 0, (1, 14, False, bytes([0x01, 0x05]))),
                    ("S1F14 empty COMMACK", 0, (1, 14, False, bytes([0x01, 0x02, 0x21, 0x00, 0x01, 0x00]))),
                    ("S1F1 W", 0, (1, 1, True, b""))):
                handler, proto, conn, calls = A.reach(kind, state, policy)
                try:
                    conn.sent.clear()
                    conn.feed(H.frame(0, 0x33445566, s, f, w, body))
                    after = A.comm(handler)
                    replies = [(x["stream"], x["function"], x["system"]) for x in conn.frames() if x["stype"] == 0 and x["system"] == 0x33445566]
                    seen.append({"in": label, "state": f"{state} -> {after}", "replies": replies, "callbacks": list(calls)})
                    if state != "COMMUNICATING" and calls:
                        failed.append(f"{label} in {state}: handed to the stream/function callbacks {calls}")
                    if state == "WAIT_CRA":
                        want = {"S1F13, accepted": "COMMUNICATING", "S1F14 COMMACK 0": "COMMUNICATING", "S1F13, denied": "WAIT_CRA",
                                "S1F14 COMMACK 1": "WAIT_DELAY", "S1F14 undecodable": "WAIT_DELAY", "S1F14 empty COMMACK": "WAIT_DELAY", "S1F1 W": "WAIT_CRA"}[label]
                        if after != want:
                            failed.append(f"{label} in WAIT_CRA: state {after}, expected {want}")
                        if label.startswith("S1F13") and replies != [(1, 14, 0x33445566)]:
                            failed.append(f"{label}: replies {replies}, expected exactly one S1F14 with the request's system bytes")
                    elif after != state:
                        failed.append(f"{label} in {state}: state changed to {after}")
                finally:
                    H.shutdown(proto, conn)
        return {"status": "confirmed" if failed else "spurious", "failed_clauses": failed, "inputs": {"state": state, "role": kind}, "observed": seen}


@contract("secsgem.gem.handler:GemHandler.on_connection_closed", "C07")
class OnConnectionClosed:
    """Loss of the link leaves COMMUNICATING and ends an attempt in progress (WAIT_CRA, WAIT_DELAY): -> NOT_COMMUNICATING;
    DISABLED and NOT_COMMUNICATING are unchanged."""

    cases = [(st.name, {"state": st}) for st in STATES]
    uses = [SM_communicationfail]

    def inputs(state):
        return {"self": Obj(GemHandler, _communication_state=Obj(CommunicationStateMachine, _current_state=Obj(State, _state=Const(state)), g_transitions=Int)),
                "_connection": Const(None)}

    def raises():
        return {}

    def ensures(self, case):
        cur = self._communication_state._current_state._state
        return cur is (CM.NOT_COMMUNICATING if case["state"] in (CM.COMMUNICATING, CM.WAIT_CRA, CM.WAIT_DELAY) else case["state"])


@contract("secsgem.gem.handler:GemHandler._on_communicating", "C07")
class OnLinkSelected:
    """The protocol's 'communicating' event (link selected) starts the establish-communications attempt exactly from
    NOT_COMMUNICATING; from any other state the transition is refused (WrongSourceStateError, state unchanged)."""

    cases = [(st.name, {"state": st}) for st in STATES]
    uses = [SM_select]

    def inputs(state):
        return {"self": Obj(GemHandler, _communication_state=Obj(CommunicationStateMachine, _current_state=Obj(State, _state=Const(state)), g_transitions=Int)),
                "_data": Const(None)}

    def raises(case):
        return {WrongSourceStateError: case["state"] is not CM.NOT_COMMUNICATING}

    def ensures(self, case):
        return self._communication_state._current_state._state is CM.WAIT_CRA
