"""C15: the recursive-descent reader of SML text at the TOKEN level (secsgem/secs/sml.py, secsgem/secs/item*.py).

The tokens of a parser are a heap region of any size (one object per token, its text a symbolic string); `_tokens` is the
list of all of them.  Two ghost marks per token, tied to the text by the pre-condition: g_open = 1 iff the token is "<",
g_close = 1 iff it is ">".  What is proved for EVERY token sequence:
  * termination: every loop consumes a token per iteration (variant = tokens left), every recursive call starts later;
  * a reader that returns has consumed a bracket-balanced segment that ends with a ">" token: an item is never returned
    for a segment with a missing closing bracket (the reader runs into the end of the token list: IndexError);
  * otherwise it raises.
The tokenizer (text -> tokens) and the values read are not part of these contracts (bounded pass)."""
from pyvc.contract import *  # noqa
from pyvc.spec_intrinsics import *  # noqa

from secsgem.secs.sml import SMLParser, SMLToken, SMLParseError
from secsgem.secs.item import Item

def sample_tokens(rnd):
    """native samples for the cross-check: short token lists, mostly well-formed items"""
    pool = ["<", ">", "[", "]", "L", "U1", "A", "1", "2", '"ab"', "B", "0x1"]
    if rnd.random() < 0.5:
        toks = rnd.choice([["<", "U1", "1", ">"], ["<", "L", "<", "U1", "1", "2", ">", "<", "A", '"ab"', ">", ">"], ["<", "L", "[", "1", "]", "<", "L", ">", ">"],
                           ["<", "L", "<", "U1", ">"], ["<", "L", "[", "2", "]", "<", "B", "1", ">", ">"]])
    else:
        toks = [rnd.choice(pool) for _ in range(rnd.randint(1, 9))]
    return [{"_value": t, "_line": 1, "_col": k + 1, "_parser": None, "g_open": int(t == "<"), "g_close": int(t == ">")} for k, t in enumerate(toks)]


TOKENS = Region("tokens", SMLToken, sampler=sample_tokens, _value=Str(), _line=Int, _col=Int, g_open=Int, g_close=Int)


def parser_obj():
    return Obj(SMLParser, _tokens=RegionList(TOKENS), _token_counter=Int(-1, None))


def native_parser(rnd):
    """a real SMLParser object over a sampled token list, positioned somewhere in it (cross-check / run-time reading)"""
    p = object.__new__(SMLParser)
    toks = []
    for vals in sample_tokens(rnd):
        t = object.__new__(SMLToken)
        for f, v in vals.items():
            object.__setattr__(t, f, v)
        toks.append(t)
    for t in toks:
        t.g_region = toks
        t._parser = None
    p._tokens = toks
    p._token_counter = rnd.randint(-1, len(toks) - 1)
    return p


def ntok(p):
    return len(p._tokens)


def marks_ok(p):
    """ghost marks agree with the token texts"""
    return forall(0, ntok(p), lambda k: p._tokens[k].g_open == (1 if p._tokens[k]._value == "<" else 0)
                  and p._tokens[k].g_close == (1 if p._tokens[k]._value == ">" else 0))


def parser_ok(p):
    return -1 <= p._token_counter and p._token_counter < ntok(p) and marks_ok(p)


def opens(p, a, b):
    """number of "<" tokens among the tokens a .. b-1"""
    R = region_of(p._tokens[0])
    return prefix_sum(field_seq(R, "g_open"), b) - prefix_sum(field_seq(R, "g_open"), a)


def closes(p, a, b):
    R = region_of(p._tokens[0])
    return prefix_sum(field_seq(R, "g_close"), b) - prefix_sum(field_seq(R, "g_close"), a)


def tokens_unchanged(p, p0):
    return ntok(p) == ntok(p0)


# =============================================================================================== token access (real code)
@contract("secsgem.secs.sml:SMLParser.get_token", "C15")
class GetToken:
    """the next token, the position advanced by exactly one; IndexError exactly at the end of the token list"""

    cases = None
    returns = Elem(TOKENS)
    modifies = {"self._token_counter": Int}

    def inputs():
        return {"self": parser_obj()}

    def samples(rnd):
        for _ in range(60):
            yield {"self": native_parser(rnd)}

    def requires(self):
        return parser_ok(self)

    def raises(self):
        return {IndexError: self._token_counter + 1 >= ntok(self)}

    def ensures(self, old, result):
        return {"position-advanced-by-one": self._token_counter == old.self._token_counter + 1,
                "returns-the-token-at-the-new-position": key_of(result) == self._token_counter,
                "still-ok": parser_ok(self)}


@contract("secsgem.secs.sml:SMLParser.peek_token", "C15")
class PeekToken:
    """the token `ahead` positions further, nothing consumed; IndexError beyond the end"""

    cases = None
    returns = Elem(TOKENS)

    def inputs():
        return {"self": parser_obj(), "ahead": Int(1, None)}

    def samples(rnd):
        for _ in range(60):
            yield {"self": native_parser(rnd), "ahead": rnd.choice([1, 1, 1, 2, 3])}

    def requires(self):
        return parser_ok(self)

    def raises(self, ahead):
        return {IndexError: self._token_counter + ahead >= ntok(self)}

    def ensures(self, ahead, old, result):
        return {"nothing-consumed": self._token_counter == old.self._token_counter,
                "returns-the-token-ahead": key_of(result) == self._token_counter + ahead}


def native_demo(case, name, model):
    """Native demonstration used as replay by the reader contracts: the real Item.from_sml on texts with a missing closing
    bracket (must raise) and on their completed twins (must return an item that prints back to an equivalent text)."""
    from secsgem.secs.items import Item as _Item
    broken = ["< L < U1 1 >", "< L", "< U1 1", "< L [1] < U1 1 >", "< L < L > ", "< A \"x\"", "< B 0x1", "< BOOLEAN 0x1", "< L < U1 1 > < A \"a\" >",
              "< L [2] < U1 1 > < U1 2 >", "< F4 1.5", "< L < L < L > >"]
    whole = ["< L < U1 1 > >", "< L >", "< U1 1 >", "< L [1] < U1 1 > >", "< L < L > >", "< A \"x\" >", "< B 0x1 >", "< BOOLEAN 0x1 >", "< F4 1.5 >"]
    failed, seen = [], []
    for text in broken:
        try:
            item = _Item.from_sml(text)
            failed.append(f"an item was returned for the text {text!r} with a missing closing bracket: {item!r}")
        except Exception as exc:
            seen.append((text, type(exc).__name__))
    for text in whole:
        try:
            item = _Item.from_sml(text)
            again = _Item.from_sml(item.to_sml())
            if again.to_sml() != item.to_sml():
                failed.append(f"{text!r} does not survive printing and reading again")
        except Exception as exc:
            failed.append(f"the well-formed text {text!r} is rejected: {type(exc).__name__}: {exc}"[:200])
    if not failed:
        return None
    return {"status": "confirmed", "failed_clauses": failed[:6], "inputs": {"texts": broken + whole}, "observed": seen[:6]}


# =============================================================================================== call-outs
@contract("secsgem.secs.sml:SMLToken.exception", "C15", name="TokenExceptionAbs")
class TokenExceptionAbs:
    """ASSUMED: builds the parse error object for this token (message text and source line are not part of the contract)."""

    abstract = True
    returns = Obj(SMLParseError)


@contract("spec.ext:AbsSubParser.__call__", "C15", name="SubParserAbs")
class SubParserAbs:
    """What _read_items needs from the reader of one sub-item (proved for Item._read_item below, which is the reader of list
    members; the readers of scalar members are the token loops of the item classes): it either raises or consumes at least
    one token, stays inside the token list and the segment it consumed is bracket-balanced."""

    abstract = True
    returns = Int
    modifies = {"parser._token_counter": Int}

    def requires(parser):
        return parser_ok(parser)

    def raises():
        return {Exception: fresh_bool("sub_reader_raises")}

    def ensures(parser, old):
        c0, c1 = old.parser._token_counter, parser._token_counter
        return (c1 > c0 and c1 < ntok(parser)
                and opens(parser, c0 + 1, c1 + 1) == closes(parser, c0 + 1, c1 + 1))


# =============================================================================================== Item._read_length
@contract("secsgem.secs.item:Item._read_length", "C15")
class ReadLength:
    """two tokens consumed, the second one must be "]" """

    cases = None
    returns = Elem(TOKENS)
    modifies = {"parser._token_counter": Int}
    uses = [GetToken, TokenExceptionAbs]

    def inputs():
        return {"cls": Const(Item), "parser": parser_obj()}

    def samples(rnd):
        for _ in range(60):
            yield {"cls": Item, "parser": native_parser(rnd)}

    def requires(parser):
        return parser_ok(parser)

    def raises(parser):
        c, n = parser._token_counter, ntok(parser)
        return {IndexError: c + 2 >= n, SMLParseError: c + 2 < n and parser._tokens[c + 2]._value != "]"}

    def ensures(parser, old, result):
        return {"two-tokens-consumed": parser._token_counter == old.parser._token_counter + 2,
                "returns-the-length-token": key_of(result) == old.parser._token_counter + 1,
                "still-ok": parser_ok(parser)}


# =============================================================================================== Item._read_items
@contract("secsgem.secs.item:Item._read_items", "C15")
class ReadItems:
    """The members of a list, after "<" "L" have been consumed, for EVERY token sequence and any sub-reader obeying
    SubParserAbs.  Terminates (each iteration consumes at least one token); a normal return has consumed up to and
    including a ">" token, the consumed segment holds exactly one more ">" than "<" (the list's own closing bracket), and
    one item per call of the sub-reader is returned; a missing closing bracket ends in an exception (IndexError at the end
    of the tokens), never in a returned list."""

    cases = None
    may_raise = [Exception]
    text_conversions_abstracted = True      # int(<token text>): raises ValueError or yields some integer
    uses = [GetToken, PeekToken, ReadLength, SubParserAbs, TokenExceptionAbs]
    returns = SeqOf("list", "int")
    modifies = {"parser._token_counter": Int}

    def inputs():
        from spec.ext import AbsSubParser
        return {"cls": Const(Item), "parser": parser_obj(), "sub_parser": Obj(AbsSubParser)}

    def requires(parser):
        return parser_ok(parser)

    def raises():
        return {}

    def ensures(parser, old, result):
        c0, c1 = old.parser._token_counter, parser._token_counter
        return {"ends-with-a-closing-bracket": c1 > c0 and c1 < ntok(parser) and parser._tokens[c1]._value == ">",
                "one-more-close-than-open": closes(parser, c0 + 1, c1 + 1) == opens(parser, c0 + 1, c1 + 1) + 1}

    replay = native_demo

    def inv(parser, old, items, count, length):
        c0, c = old.parser._token_counter, parser._token_counter
        # (the token taken as "[length]" is not looked at before the end: it counts as whatever bracket it is until then)
        return (parser_ok(parser) and c >= c0 and count >= 0 and len(items) == count
                and closes(parser, c0 + 1, c + 1) - opens(parser, c0 + 1, c + 1) == (0 if length is None else length.g_close - length.g_open))

    def variant(parser):
        return ntok(parser) - parser._token_counter

    loops = {1: Loop(a=inv, decreases=variant, modifies=["parser._token_counter"])}


# =============================================================================================== token loops of the scalar item classes
from secsgem.secs.item_number import ItemNumber                      # noqa: E402
from secsgem.secs.item_b import ItemB                                # noqa: E402
from secsgem.secs.item_boolean import ItemBOOLEAN                    # noqa: E402
from secsgem.secs.item_str import ItemStr, ItemA                     # noqa: E402
from secsgem.secs.items import ItemU1, ItemI8, ItemF4, ItemL         # noqa: E402


class _ScalarLoop:
    """After "<" and the type name: value tokens up to the closing ">".  Terminates (a token per iteration); a normal return
    has consumed zero or more tokens none of which is a bracket, then a ">" - so the segment holds exactly one more ">"
    than "<"; a bracket among the values or a missing ">" ends in an exception (ValueError from the conversion, parse
    error, IndexError at the end of the tokens)."""

    may_raise = [Exception]
    text_conversions_abstracted = True      # int()/float()/strip()/encode() of a token text: raises or yields SOME value
    uses = [GetToken, PeekToken, TokenExceptionAbs]
    # as a call-site contract (from FromSml): the values read are an opaque handle there
    returns = Int
    modifies = {"parser._token_counter": Int}


    def requires(parser):
        return parser_ok(parser)

    def raises():
        return {}

    def ensures(parser, old):
        c0, c1 = old.parser._token_counter, parser._token_counter
        return {"ends-with-a-closing-bracket": c1 > c0 and c1 < ntok(parser) and parser._tokens[c1]._value == ">",
                "no-bracket-among-the-values": opens(parser, c0 + 1, c1) == 0 and closes(parser, c0 + 1, c1) == 0,
                "one-more-close-than-open": closes(parser, c0 + 1, c1 + 1) == opens(parser, c0 + 1, c1 + 1) + 1}

    replay = native_demo

    def inv(parser, old):
        c0, c = old.parser._token_counter, parser._token_counter
        return parser_ok(parser) and c >= c0 and opens(parser, c0 + 1, c + 1) == 0 and closes(parser, c0 + 1, c + 1) == 0

    def variant(parser):
        return ntok(parser) - parser._token_counter


@contract("secsgem.secs.item_number:ItemNumber._read_sml_token", "C15")
class NumberTokens(_ScalarLoop):
    cases = [("U1", {"klass": ItemU1}), ("I8", {"klass": ItemI8}), ("F4", {"klass": ItemF4})]

    def inputs(klass):
        return {"cls": Const(klass), "parser": parser_obj()}

    def loops(klass):
        return {1: Loop(a=_ScalarLoop.inv, decreases=_ScalarLoop.variant, modifies=["parser._token_counter"],
                        types={"data": SeqOf("list", "float" if klass is ItemF4 else "int")})}


@contract("secsgem.secs.item_b:ItemB._read_sml_token", "C15")
class BinaryTokens(_ScalarLoop):
    cases = None

    def inputs():
        return {"cls": Const(ItemB), "parser": parser_obj()}

    loops = {1: Loop(a=_ScalarLoop.inv, decreases=_ScalarLoop.variant, modifies=["parser._token_counter"])}


@contract("secsgem.secs.item_boolean:ItemBOOLEAN._read_sml_token", "C15")
class BooleanTokens(_ScalarLoop):
    cases = None

    def inputs():
        return {"cls": Const(ItemBOOLEAN), "parser": parser_obj()}

    loops = {1: Loop(a=_ScalarLoop.inv, decreases=_ScalarLoop.variant, modifies=["parser._token_counter"])}


@contract("secsgem.secs.item_str:ItemStr._read_sml_token", "C15")
class TextTokens(_ScalarLoop):
    cases = None

    def inputs():
        return {"cls": Const(ItemA), "parser": parser_obj()}

    loops = {1: Loop(a=_ScalarLoop.inv, decreases=_ScalarLoop.variant, modifies=["parser._token_counter"])}


# =============================================================================================== Item._read_item and Item.from_sml
@contract("secsgem.secs.item:Item._import_inherited", "C15", name="ImportInheritedAbs")
class ImportInheritedAbs:
    """ASSUMED: importing the item modules (registers the classes by their SML names) does not touch a parser."""

    abstract = True


@contract("secsgem.secs.item:Item.__init__", "C15", name="ItemInitAbs")
class ItemInitAbs:
    """ASSUMED: building the item object from the values read (validation may raise) does not touch the parser."""

    abstract = True

    def raises():
        return {Exception: fresh_bool("constructor_raises")}


@contract("secsgem.secs.item:Item.from_sml", "C15", name="FromSmlUse")
class FromSmlUse:
    """Call-site view of the reader of one typed item after "<" and the type name have been consumed - what is proved for
    the real from_sml of each item class below (FromSml[...]): raises, or consumes up to and including a ">" such that the
    segment holds exactly one more ">" than "<"."""

    abstract = True
    returns = Int
    modifies = {"sml._token_counter": Int}

    def requires(sml):
        return parser_ok(sml)

    def raises():
        return {Exception: fresh_bool("typed_reader_raises")}

    def ensures(sml, old):
        c0, c1 = old.sml._token_counter, sml._token_counter
        return (c1 > c0 and c1 < ntok(sml) and sml._tokens[c1]._value == ">" and parser_ok(sml)
                and closes(sml, c0 + 1, c1 + 1) == opens(sml, c0 + 1, c1 + 1) + 1)


@contract("secsgem.secs.item:Item._read_item", "C15")
class ReadItem:
    """One complete item "<" type ... ">" for EVERY token sequence: raises (not "<", unknown type name, end of the tokens,
    whatever the typed reader raises), or returns after consuming a bracket-balanced segment that starts with "<" and ends
    with ">" - this is also what Item._read_items needs from the reader of a list member (SubParserAbs)."""

    cases = None
    may_raise = [Exception]
    uses = [GetToken, TokenExceptionAbs, FromSmlUse]
    returns = Int
    modifies = {"parser._token_counter": Int}

    def inputs():
        return {"cls": Const(Item), "parser": parser_obj()}

    def requires(parser):
        return parser_ok(parser)

    def raises():
        return {}

    replay = native_demo

    def ensures(parser, old):
        c0, c1 = old.parser._token_counter, parser._token_counter
        return {"starts-with-an-opening-bracket": parser._tokens[c0 + 1]._value == "<",
                "ends-with-a-closing-bracket": c1 >= c0 + 3 and c1 < ntok(parser) and parser._tokens[c1]._value == ">",
                "balanced": opens(parser, c0 + 1, c1 + 1) == closes(parser, c0 + 1, c1 + 1),
                "type-name-is-no-bracket": parser._tokens[c0 + 2]._value != "<" and parser._tokens[c0 + 2]._value != ">"}


@contract("secsgem.secs.item:Item.from_sml", "C15")
class FromSml:
    """The real from_sml with a parser positioned (a) before an item (cls is Item: reads "<" type ... ">", balanced) or (b)
    after "<" and the type name (typed classes: the values / members up to the matching ">")."""

    cases = [("Item", {"klass": Item}), ("L", {"klass": ItemL}), ("U1", {"klass": ItemU1}), ("F4", {"klass": ItemF4}), ("A", {"klass": ItemA}),
             ("B", {"klass": ItemB}), ("BOOLEAN", {"klass": ItemBOOLEAN})]
    may_raise = [Exception]

    replay = native_demo

    def inputs(klass):
        return {"cls": Const(klass), "sml": parser_obj()}

    def requires(sml):
        return parser_ok(sml)

    def raises():
        return {}

    def ensures(sml, old, case):
        c0, c1 = old.sml._token_counter, sml._token_counter
        extra = 0 if case["klass"] is Item else 1
        return {"ends-with-a-closing-bracket": c1 > c0 and c1 < ntok(sml) and sml._tokens[c1]._value == ">",
                "bracket-balance": closes(sml, c0 + 1, c1 + 1) == opens(sml, c0 + 1, c1 + 1) + extra}


FromSml.uses = [ImportInheritedAbs, ItemInitAbs, ReadItem, ReadItems, NumberTokens, BinaryTokens, BooleanTokens, TextTokens]


# =============================================================================================== the sub-reader ItemL hands to _read_items
@contract("secsgem.secs.item_l:ItemL._read_sml_token", "C15")
class ListMemberReader:
    """`ItemL.from_sml` passes `cls._read_sml_token` - ItemL's own override - to `_read_items` as the reader of one member.
    This is the real function behind the assumed sub-reader contract SubParserAbs: through
    ReadItem it either raises or consumes at least one token, stays inside the token list and the segment it consumed is
    bracket-balanced - exactly the clauses SubParserAbs assumes, here as obligations on the real code."""

    cases = None
    may_raise = [Exception]
    uses = [ReadItem]

    def inputs():
        return {"cls": Const(ItemL), "parser": parser_obj()}

    def requires(parser):
        return parser_ok(parser)

    def raises():
        return {}

    def ensures(parser, old):
        c0, c1 = old.parser._token_counter, parser._token_counter
        return {"consumes-at-least-one-token": c1 > c0,
                "stays-inside-the-token-list": c1 < ntok(parser),
                "consumed-segment-is-bracket-balanced": opens(parser, c0 + 1, c1 + 1) == closes(parser, c0 + 1, c1 + 1)}
