"""C12: the link handler S2F35 of the real CollectionEventCapability is transactional and keeps the configuration
consistent - bounded shapes (0..2 existing links holding 0..2 reports, requests of 1..2 events with 0..2 report ids),
all ids symbolic (so every coincidence between requested and existing ids is covered), tables of known events and
defined reports symbolic.

Call-outs by assumed contracts: the decode of the request (C03: a list of (CEID, [RPTID]) records), item.get(), the
construction of S2F36.  A-KEY: decoded items stand for their values as dictionary keys."""
from pyvc.contract import *  # noqa
from pyvc.spec_intrinsics import *  # noqa

from secsgem.common.settings import Settings
from secsgem.gem.collection_event import CollectionEvent
from secsgem.gem.collection_event_link import CollectionEventLink
from secsgem.gem.collection_event_report import CollectionEventReport
from secsgem.gem.equipmenthandler import GemEquipmentHandler
from secsgem.secs.functions.streams_functions import StreamsFunctions
from spec.ext import AbsArray, AbsDecoded, AbsFunction, AbsFunctionClass, AbsItem, AbsReportList

from contracts.C13_constants import ItemGetAbs13, StreamFunctionAbs13, NewFunctionAbs13


def item():
    return Obj(AbsItem, g_value=Int)


def event(n_reports):
    return Obj(AbsDecoded, CEID=item(), RPTID=Obj(AbsArray, items=FixedList(*[item() for _ in range(n_reports)])))


def link(n_reports):
    return Obj(CollectionEventLink, _reports=FixedList(*[Int for _ in range(n_reports)]), enabled=Bool, _collection_event=Const(None))


@contract("secsgem.secs.functions.streams_functions:StreamsFunctions.decode", "C12", name="DecodeS2F35Abs")
class DecodeS2F35Abs:
    """ASSUMED (C03): the decoded S2F35 carries the list of its (CEID, [RPTID]) records (ghost: the request quantified over)."""

    abstract = True
    returns = Obj(AbsDecoded, DATA=Same("self.g_req"))


LINK_SHAPES = {"no-links": [], "one-link-1": [1], "one-link-2": [2], "two-links": [1, 1]}
REQ_SHAPES = {"e0": [0], "e1": [1], "e2": [2], "e1-e1": [1, 1], "e0-e1": [0, 1], "e2-e0": [2, 0]}


def find(items, key):
    """the link stored under key in a list of (key, link) pairs, or None (forks on the comparisons)"""
    for k, v in items:
        if k == key:
            return v
    return None


def same_list(a, b):
    if len(a) != len(b):
        return False
    ok = True
    for x, y in zip(a, b):
        ok = ok and x == y
    return ok


@contract("secsgem.gem.collection_event_capability:CollectionEventCapability._on_s02f35", "C12")
class OnS2F35:
    """S2F35: LRACK 0 exactly when every CEID is known, every RPTID defined and none of them already linked to its event;
    a refused request changes nothing; an accepted one removes the links of events with an empty list, appends to existing
    links in request order and creates new (disabled) links; every linked report is defined afterwards (Inv12)."""

    cases = [(f"{ln}.{rq}", {"links": ln, "req": rq}) for ln in LINK_SHAPES for rq in REQ_SHAPES]
    uses = [DecodeS2F35Abs, ItemGetAbs13, StreamFunctionAbs13, NewFunctionAbs13]

    def inputs(links, req):
        entries = [(Int, link(n)) for n in LINK_SHAPES[links]]
        return {"self": Obj(GemEquipmentHandler,
                            _collection_events=MapOf(CollectionEvent),
                            _registered_reports=MapOf(CollectionEventReport),
                            _registered_collection_events=SymDict(*entries),
                            _settings=Obj(Settings, streams_functions=Obj(StreamsFunctions, g_req=FixedList(*[event(n) for n in REQ_SHAPES[req]])))),
                "_handler": Const(None), "message": Const(None)}

    def requires(self):
        keys = list(self._registered_collection_events.keys())
        ok = True
        for a in range(len(keys)):
            for b in range(a + 1, len(keys)):
                ok = ok and keys[a] != keys[b]
        req = self._settings.streams_functions.g_req
        for a in range(len(req)):
            for b in range(a + 1, len(req)):
                ok = ok and req[a].CEID.g_value != req[b].CEID.g_value      # events of one request are distinct (bounded shape)
        # Inv12 before: every linked report is defined
        for lk in self._registered_collection_events.values():
            for r in lk._reports:
                ok = ok and r in self._registered_reports
        return ok

    def raises():
        return {}

    def ensures(self, old, result):
        req = self._settings.streams_functions.g_req
        old_items = list(old.self._registered_collection_events.items())
        new_items = list(self._registered_collection_events.items())
        known = self._collection_events
        defined = self._registered_reports
        acceptable = True
        for ev in req:
            c = ev.CEID.g_value
            acceptable = acceptable and c in known
            lk0 = find(old_items, c)
            for it in ev.RPTID.items:
                r = it.g_value
                acceptable = acceptable and r in defined
                if lk0 is not None:
                    for r0 in lk0._reports:
                        acceptable = acceptable and r0 != r
        lrack = result.g_value
        out = {"s2f36": result.g_stream == 2 and result.g_function == 36,
               "lrack-0-iff-acceptable": (lrack == 0) == acceptable}
        if not acceptable:
            same = len(new_items) == len(old_items)
            for k0, lk0 in old_items:
                lk = find(new_items, k0)
                same = same and lk is not None and same_list(lk._reports, lk0._reports) and lk.enabled == lk0.enabled
            out["refused-changes-nothing"] = same
            return out
        eff = True
        for ev in req:
            c = ev.CEID.g_value
            lk0 = find(old_items, c)
            lk = find(new_items, c)
            want = [it.g_value for it in ev.RPTID.items]
            if len(want) == 0:
                eff = eff and lk is None
            else:
                before = list(lk0._reports) if lk0 is not None else []
                eff = eff and lk is not None and same_list(lk._reports, before + want) and lk.enabled == (lk0.enabled if lk0 is not None else False)
        out["accepted-has-e5-effect"] = eff
        untouched = True
        for k0, lk0 in old_items:
            hit = False
            for ev in req:
                hit = hit or ev.CEID.g_value == k0
            if not hit:
                lk = find(new_items, k0)
                untouched = untouched and lk is not None and same_list(lk._reports, lk0._reports) and lk.enabled == lk0.enabled
        out["other-links-untouched"] = untouched
        inv = True
        for k, lk in new_items:
            for r in lk._reports:
                inv = inv and r in defined
        out["every-linked-report-is-defined"] = inv
        return out

    def replay(case, name, model):
        """Native demonstration: request sequences around S2F35 on a real equipment handler through real messages, judged by
        the reference model of the bounded pass (acknowledge code, S6F16 of every event after every step)."""
        import logging
        from bounded import C12_api as A
        from bounded.C01_api import Fail
        logging.disable(logging.CRITICAL)
        fails = Fail()
        define = ("define", [(900, [1002]), (901, [1003])])
        seqs = [
            [define, ("link", [(1, [900])]), ("link", [(1, [901])]), ("enable", (True, []))],                  # append in order
            [define, ("link", [(1, [900])]), ("link", [(1, [900])])],                                            # already linked
            [define, ("link", [(1, [900, 901])]), ("link", [(2, [901]), (1, [555])])],                           # unknown report: all or nothing
            [define, ("link", [(1, [901, 900])]), ("link", [(1, [])]), ("link", [(1, [900])]), ("enable", (True, []))],   # unlink, link again
            [define, ("link", [(77, [900])]), ("link", [(2, [900]), (1, [901])]), ("enable", (True, [])), ("trigger", 1)],
        ]
        for s in seqs:
            A.run_sequence(s, fails, {"replay": True})
        failed = [f"{f['obligation']}: {f['detail']} {str(f['witness'])[:160]}" for f in fails]
        return {"status": "confirmed" if failed else "spurious", "failed_clauses": failed[:5], "inputs": {"sequences": len(seqs)}}


# =============================================================================================== consumer side (O64)
from secsgem.gem.data_value import DataValue  # noqa: E402
from secsgem.gem.status_variable import StatusVariable  # noqa: E402


@contract("secsgem.gem.status_data_collection_capability:StatusDataCollectionCapability._get_sv_value", "C12", name="SvValueAbs")
class SvValueAbs:
    """ASSUMED (call-out, C13): the current value of a status variable (ghost g_val)."""

    abstract = True
    returns = Int

    def ensures(self, status_variable, result):
        return result == status_variable.g_val


@contract("secsgem.gem.data_value_capability:DataValueCapability._get_dv_value", "C12", name="DvValueAbs")
class DvValueAbs:
    """ASSUMED (call-out): the current value of a data value (ghost g_val)."""

    abstract = True
    returns = Int

    def ensures(self, data_value, result):
        return result == data_value.g_val


BUILD_SHAPES = {"1-report-0-vars": ([1], [0]), "1-report-2-vars": ([1], [2]), "2-reports": ([2], [1, 2]), "report-linked-twice-shape": ([2], [1])}


@contract("secsgem.gem.collection_event_capability:CollectionEventCapability._build_collection_event", "C12")
class BuildCollectionEvent:
    """O64: under the consistency invariant (every linked report is defined) building the event's report list performs no
    failing lookup and yields, in link order, one entry per linked report with the current values of that report's known
    variables in the report's order (status variables first choice, then data values; unknown ids are skipped)."""

    cases = [(k, {"shape": k}) for k in BUILD_SHAPES]
    uses = [SvValueAbs, DvValueAbs]

    def inputs(shape):
        link_reports, report_vars = BUILD_SHAPES[shape]
        return {"self": Obj(GemEquipmentHandler,
                            _registered_collection_events=SymDict((Int, link(link_reports[0]))),
                            _registered_reports=SymDict(*[(Int, Obj(CollectionEventReport, vars=FixedList(*[Int for _ in range(n)]))) for n in report_vars]),
                            _status_variables=MapOf(StatusVariable, g_val=Int), _data_values=MapOf(DataValue, g_val=Int)),
                "ceid": Int}

    def requires(self, ceid):
        ok = ceid in self._registered_collection_events
        keys = list(self._registered_reports.keys())
        for a in range(len(keys)):
            for b in range(a + 1, len(keys)):
                ok = ok and keys[a] != keys[b]
        for lk in self._registered_collection_events.values():
            for r in lk._reports:
                ok = ok and r in self._registered_reports          # Inv12
        return ok

    def raises():
        return {}

    def ensures(self, ceid, result):
        lk = self._registered_collection_events[ceid]
        out = {"one-entry-per-linked-report-in-link-order": len(result) == len(lk._reports)}
        ok_ids, ok_vals = True, True
        for i in range(len(lk._reports)):
            if i >= len(result):
                break
            r = lk._reports[i]
            ok_ids = ok_ids and result[i]["RPTID"] == r
            rep = self._registered_reports[r]
            want = []
            for v in rep.vars:
                if v in self._status_variables:
                    want = want + [self._status_variables[v].g_val]
                elif v in self._data_values:
                    want = want + [self._data_values[v].g_val]
            got = result[i]["V"]
            ok_vals = ok_vals and len(got) == len(want)
            for a, b in zip(got, want):
                ok_vals = ok_vals and a == b
        out["report-ids"] = ok_ids
        out["current-values-of-known-variables-in-order"] = ok_vals
        return out


# =============================================================================================== S2F33 (define / delete reports)
def report_entry(n_vids):
    return Obj(AbsDecoded, RPTID=item(), VID=Obj(AbsArray, items=FixedList(*[item() for _ in range(n_vids)])))


def report_obj(n_vars=1):
    return Obj(CollectionEventReport, rptid=Int, vars=Obj(AbsArray, items=FixedList(*[item() for _ in range(n_vars)])))


@contract("secsgem.secs.functions.streams_functions:StreamsFunctions.decode", "C12", name="DecodeS2F33Abs")
class DecodeS2F33Abs:
    """ASSUMED (C03): the decoded S2F33 carries the list of its (RPTID, [VID]) records."""

    abstract = True
    returns = Obj(AbsDecoded, DATA=Same("self.g_req"))


STATE33 = {"nothing": ([], []), "1-report": ([1], []), "2-reports": ([1, 1], []), "1-report-linked": ([1], [1]), "2-reports-linked-twice": ([1, 1], [2]),
           "2-reports-2-links": ([1, 1], [1, 1])}
REQ33 = {"delete-all": [], "delete-one": [0], "define-1": [1], "define-2vids": [2], "define+delete": [1, 0], "delete+define": [0, 1]}


def vids_of(rep):
    return [it.g_value for it in rep.vars.items]


@contract("secsgem.gem.collection_event_capability:CollectionEventCapability._on_s02f33", "C12")
class OnS2F33:
    """S2F33: DRACK 0 exactly when no entry redefines an existing report and every variable id is known; a refused request
    changes nothing; an empty request deletes all reports and links; an entry without variables deletes that report and
    removes it from every link (links left empty disappear); an entry with variables defines the report with exactly those
    variables; other reports and links are untouched; every linked report is defined afterwards (Inv12)."""

    cases = [(f"{st}.{rq}", {"state": st, "req": rq}) for st in STATE33 for rq in REQ33]
    uses = [DecodeS2F33Abs, StreamFunctionAbs13, NewFunctionAbs13]

    def inputs(state, req):
        reports, links = STATE33[state]
        return {"self": Obj(GemEquipmentHandler,
                            _registered_reports=SymDict(*[(Int, report_obj(n)) for n in reports]),
                            _registered_collection_events=SymDict(*[(Int, link(n)) for n in links]),
                            _status_variables=MapOf(StatusVariable), _data_values=MapOf(DataValue),
                            _settings=Obj(Settings, streams_functions=Obj(StreamsFunctions, g_req=FixedList(*[report_entry(n) for n in REQ33[req]])))),
                "_handler": Const(None), "message": Const(None)}

    def requires(self):
        ok = True
        for d in (self._registered_reports, self._registered_collection_events):
            keys = list(d.keys())
            for a in range(len(keys)):
                for b in range(a + 1, len(keys)):
                    ok = ok and keys[a] != keys[b]
        req = self._settings.streams_functions.g_req
        for a in range(len(req)):
            for b in range(a + 1, len(req)):
                ok = ok and req[a].RPTID.g_value != req[b].RPTID.g_value      # entries of one request name distinct reports (bounded shape)
        for lk in self._registered_collection_events.values():
            ok = ok and len(lk._reports) > 0
            for r in lk._reports:
                ok = ok and r in self._registered_reports          # Inv12 before
        return ok

    def raises():
        return {}

    def ensures(self, old, result):
        req = self._settings.streams_functions.g_req
        reps0 = list(old.self._registered_reports.items())
        reps = list(self._registered_reports.items())
        links0 = list(old.self._registered_collection_events.items())
        links = list(self._registered_collection_events.items())
        acceptable = True
        for e in req:
            r = e.RPTID.g_value
            if find(reps0, r) is not None and len(e.VID.items) > 0:
                acceptable = False
            for it in e.VID.items:
                acceptable = acceptable and (it.g_value in self._status_variables or it.g_value in self._data_values)
        out = {"s2f34": result.g_stream == 2 and result.g_function == 34,
               "drack-0-iff-acceptable": (result.g_value == 0) == acceptable}
        if not acceptable:
            same = len(reps) == len(reps0) and len(links) == len(links0)
            for k0, rep0 in reps0:
                rep = find(reps, k0)
                same = same and rep is not None and same_list(vids_of(rep), vids_of(rep0))
            for k0, lk0 in links0:
                lk = find(links, k0)
                same = same and lk is not None and same_list(lk._reports, lk0._reports) and lk.enabled == lk0.enabled
            out["refused-changes-nothing"] = same
            return out
        if len(req) == 0:
            out["empty-request-deletes-everything"] = len(reps) == 0 and len(links) == 0
            return out
        eff = True
        deleted = []
        for e in req:
            r = e.RPTID.g_value
            rep = find(reps, r)
            if len(e.VID.items) == 0:
                deleted = deleted + [r]
                eff = eff and rep is None
            else:
                eff = eff and rep is not None and same_list(vids_of(rep), [it.g_value for it in e.VID.items])
        out["entries-have-e5-effect"] = eff
        untouched = True
        for k0, rep0 in reps0:
            named = False
            for e in req:
                named = named or e.RPTID.g_value == k0
            if not named:
                rep = find(reps, k0)
                untouched = untouched and rep is not None and same_list(vids_of(rep), vids_of(rep0))
        out["other-reports-untouched"] = untouched
        lk_ok = True
        for k0, lk0 in links0:
            want = []
            for r0 in lk0._reports:
                gone = False
                for d in deleted:
                    gone = gone or r0 == d
                if not gone:
                    want = want + [r0]
            lk = find(links, k0)
            if len(want) == 0:
                lk_ok = lk_ok and lk is None
            else:
                lk_ok = lk_ok and lk is not None and same_list(lk._reports, want) and lk.enabled == lk0.enabled
        out["deleted-reports-leave-every-link-empty-links-disappear"] = lk_ok and len(links) <= len(links0)
        inv = True
        for k, lk in links:
            for r in lk._reports:
                inv = inv and find(reps, r) is not None
        out["every-linked-report-is-defined"] = inv
        return out


# =============================================================================================== S2F37 / S6F15
@contract("secsgem.gem.collection_event_capability:CollectionEventCapability._set_ce_state", "C12")
class SetCeState:
    """enable / disable: an empty list addresses every linked event; the answer is True exactly when every listed event is
    linked; listed linked events take the flag, all other links keep theirs; no link appears, disappears or changes its reports."""

    cases = [(f"links{a}.ceids{b}", {"nlinks": a, "nceids": b}) for a in (0, 1, 2) for b in (0, 1, 2)]

    def inputs(nlinks, nceids):
        return {"self": Obj(GemEquipmentHandler, _registered_collection_events=SymDict(*[(Int, link(1)) for _ in range(nlinks)])),
                "ceed": Bool, "ceids": FixedList(*[Int for _ in range(nceids)])}

    def requires(self):
        keys = list(self._registered_collection_events.keys())
        ok = True
        for a in range(len(keys)):
            for b in range(a + 1, len(keys)):
                ok = ok and keys[a] != keys[b]
        return ok

    def raises():
        return {}

    def ensures(self, ceed, ceids, old, result):
        links0 = list(old.self._registered_collection_events.items())
        links = list(self._registered_collection_events.items())
        all_linked = True
        for c in ceids:
            all_linked = all_linked and find(links0, c) is not None
        ok = len(links) == len(links0)
        for k0, lk0 in links0:
            lk = find(links, k0)
            ok = ok and lk is not None and same_list(lk._reports, lk0._reports)
            if lk is not None:
                listed = len(ceids) == 0
                for c in ceids:
                    listed = listed or c == k0
                ok = ok and lk.enabled == (ceed if listed else lk0.enabled)
        return {"answer": result == all_linked, "flags-and-frame": ok}


@contract("secsgem.gem.collection_event_capability:CollectionEventCapability._build_collection_event", "C12", name="BuildAbs")
class BuildAbs:
    """The verified _build_collection_event (BuildCollectionEvent above) as its caller sees it: requires the event to be
    linked (no failing lookup), returns that event's report list."""

    abstract = True
    returns = Obj(AbsReportList, g_ceid=Same("ceid"))

    def requires(self, ceid):
        return ceid in self._registered_collection_events


@contract("secsgem.secs.functions.streams_functions:StreamsFunctions.decode", "C12", name="DecodeS6F15Abs")
class DecodeS6F15Abs:
    """ASSUMED (C03): the decoded S6F15 is its CEID item."""

    abstract = True
    returns = Obj(AbsItem, g_value=Same("self.g_ceid"))


@contract("secsgem.gem.collection_event_capability:CollectionEventCapability._on_s06f15", "C12")
class OnS6F15:
    """S6F15 is always answered by S6F16 (never an abort) naming the requested event: with the event's report list exactly
    when the event is linked - enabled or not: CEED governs the unsolicited S6F11 only (D48) -, with an empty list otherwise."""

    cases = [(f"links{a}", {"nlinks": a}) for a in (0, 1, 2)]
    uses = [DecodeS6F15Abs, ItemGetAbs13, BuildAbs, StreamFunctionAbs13, NewFunctionAbs13]

    def inputs(nlinks):
        return {"self": Obj(GemEquipmentHandler, _registered_collection_events=SymDict(*[(Int, link(1)) for _ in range(nlinks)]),
                            _settings=Obj(Settings, streams_functions=Obj(StreamsFunctions, g_ceid=Int))),
                "_handler": Const(None), "message": Const(None)}

    def requires(self):
        keys = list(self._registered_collection_events.keys())
        ok = True
        for a in range(len(keys)):
            for b in range(a + 1, len(keys)):
                ok = ok and keys[a] != keys[b]
        return ok

    def raises():
        return {}

    def ensures(self, result):
        c = self._settings.streams_functions.g_ceid
        lk = find(list(self._registered_collection_events.items()), c)
        v = result.g_value
        out = {"s6f16-for-the-requested-event": result.g_stream == 6 and result.g_function == 16 and v["CEID"] == c and v["DATAID"] == 1}
        if lk is not None:
            out["reports-of-the-event"] = type(v["RPT"]) is AbsReportList and v["RPT"].g_ceid == c
        else:
            out["empty-report-list"] = len(v["RPT"]) == 0
        return out
