"""C06: system-bytes allocation (sequential core of 'each request carries distinct system bytes')."""
from pyvc.contract import *  # noqa
from pyvc.spec_intrinsics import *  # noqa

from secsgem.hsms.protocol import HsmsProtocol
from secsgem.secsi.protocol import SecsIProtocol
import threading

_LOCK = threading.Lock()


@contract("secsgem.common.protocol:Protocol.get_next_system_counter", "C06")
class NextSystemCounter:
    """O36: result == (old + 1) mod 2^32 and the stored counter equals the result; so any run of fewer than 2^32
    consecutive calls returns pairwise distinct values (lemma below)."""

    cases = [("hsms", {"cls": HsmsProtocol}), ("secsi", {"cls": SecsIProtocol})]

    def inputs(cls):
        return {"self": Obj(cls, _system_counter=Int(0, 2 ** 32 - 1), _system_counter_lock=Const(_LOCK))}

    def raises():
        return {}

    def ensures(self, old, result):
        want = ite(old.self._system_counter == 2 ** 32 - 1, 0, old.self._system_counter + 1)
        return result == want and self._system_counter == want and 0 <= result < 2 ** 32


@contract("secsgem.common.protocol:Protocol.get_next_system_counter", "C06", name="LemmaDistinctSystemBytes")
class LemmaDistinctSystemBytes:
    """From NextSystemCounter: the k-th call after counter value c returns (c + k) mod 2^32, hence two calls that are
    j and k steps away (1 <= j < k < 2^32 + j, i.e. fewer than 2^32 ids outstanding) return different system bytes."""

    lemma = True
    cases = None

    def goals():
        import z3
        c, j, k = z3.Int("in:c"), z3.Int("in:j"), z3.Int("in:k")
        M = 2 ** 32
        return {"distinct-within-2^32": ([0 <= c, c < M, 1 <= j, j < k, k - j < M], (c + j) % M != (c + k) % M,
                                         {"in:c": {"kind": "int", "term": c}, "in:j": {"kind": "int", "term": j}, "in:k": {"kind": "int", "term": k}})}


# =============================================================================================== routing (O40)
from contracts.C05_session import OnMessage, PutNowaitAbs, FireAbs, DecodeForLogAbs  # noqa: E402
from contracts.C16_secsi import hdr_obj as secsi_hdr_obj  # noqa: E402
from secsgem.common.events import EventProducer  # noqa: E402
from secsgem.secs.functions.streams_functions import StreamsFunctions  # noqa: E402
from secsgem.secsi.message import SecsIBlock, SecsIMessage  # noqa: E402
from secsgem.secsi.settings import SecsISettings  # noqa: E402
from spec.ext import AbsQueue  # noqa: E402


@contract("secsgem.hsms.protocol:HsmsProtocol._on_connection_message_received", "C06", name="HsmsRouting")
class HsmsRouting(OnMessage):
    """O40 for HSMS (the same unit as C05's OnMessage, all 36 cases): a message whose system bytes have a waiting
    requester goes to that requester's queue exactly once and to no other queue and raises no message_received event -
    data messages and control responses alike, in every session state, for all 2^32 system byte values and any set of
    other open transactions; without a requester a data message in SELECTED raises exactly one message_received."""


@contract("secsgem.secsi.protocol:SecsIProtocol._on_connection_message_received", "C06")
class SecsIRouting:
    """O40 for SECS-I: routed to exactly the requester with these system bytes, else one message_received."""

    cases = None
    uses = [PutNowaitAbs, FireAbs, DecodeForLogAbs]

    def inputs():
        return {"self": Obj(SecsIProtocol, _response_queues=MapOf(AbsQueue, g_puts=Int),
                            _event_producer=Obj(EventProducer, g_delivered=Int, g_other=Int),
                            _settings=Obj(SecsISettings, streams_functions=Obj(StreamsFunctions))),
                "source": Const(None),
                "message": Obj(SecsIMessage, _blocks=FixedList(Obj(SecsIBlock, _header=secsi_hdr_obj(), _data=Bytes())))}

    def requires(message):
        return 0 <= message._blocks[0]._header._system < 2 ** 32

    def raises():
        return {}

    def ensures(self, message, old):
        sys = message._blocks[0]._header._system
        q, q0 = self._response_queues, old.self._response_queues
        # (a message with W-bit is a primary of the peer, never a reply - also with the system bytes of an own open transaction: D40)
        was_open = (sys in q0) and not message._blocks[0]._header._require_response
        return {
            "routed-to-requester-exactly-once-iff-open": q[sys].g_puts - q0[sys].g_puts == ite(was_open, 1, 0),
            "delivered-to-application-exactly-once-iff-no-requester": self._event_producer.g_delivered - old.self._event_producer.g_delivered == ite(was_open, 0, 1),
            "other-requesters-untouched": forall(0, 2 ** 32, lambda k: implies(k != sys, lambda: q[k].g_puts == q0[k].g_puts)),
        }

    def replay(case, name, model):
        """Native demonstration: a real SecsIProtocol with one open transaction; a message with the requester's system bytes
        and one with other system bytes are handed to the real handler."""
        import logging
        import queue as _q
        logging.disable(logging.CRITICAL)
        from bounded import harness as H
        import secsgem.common
        from secsgem.secsi.header import SecsIHeader
        proto, conn, log = H.make_secsi(secsgem.common.DeviceType.HOST)
        failed = []
        try:
            sys_open = int(model.get("in:message._blocks[0]._header._system") or 77) & 0xFFFFFFFF
            q = proto._get_queue_for_system(sys_open)
            other = proto._get_queue_for_system(sys_open ^ 0x5A)
            for sysb, expect_queue in ((sys_open, True), ((sys_open + 1000) & 0xFFFFFFFF, False)):
                log["message_received"].clear()
                before = (q.qsize(), other.qsize())
                msg = SecsIMessage(SecsIHeader(sysb, 0, 1, 2, 1, False, False, True), b"")
                proto._on_connection_message_received(proto, msg)
                dq, do = q.qsize() - before[0], other.qsize() - before[1]
                dl = len(log["message_received"])
                if expect_queue and (dq, do, dl) != (1, 0, 0):
                    failed.append(f"message for the waiting requester: queued {dq}x, other queue {do}x, delivered to the application {dl}x")
                if not expect_queue and (dq, do, dl) != (0, 0, 1):
                    failed.append(f"message nobody waits for: queued {dq}/{do}x, delivered to the application {dl}x")
        finally:
            H.shutdown(proto, conn)
        return {"status": "confirmed" if failed else "spurious", "failed_clauses": failed, "inputs": {"open_system": sys_open}}
