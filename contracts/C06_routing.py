"""C06: system-bytes allocation (sequential core of 'each request carries distinct system bytes')."""
from pyvc.contract import *  # noqa
from pyvc.spec_intrinsics import *  # noqa

from secsgem.hsms.protocol import HsmsProtocol
from secsgem.secsi.protocol import SecsIProtocol
import threading

_LOCK = threading.Lock()


@contract("secsgem.common.protocol:Protocol.get_next_system_counter", "C06")
class NextSystemCounter:
    """O36: result == (old + 1) mod 2^32 and the stored counter equals the result; so any run of fewer than 2^32
    consecutive calls returns pairwise distinct values (lemma below)."""

    cases = [("hsms", {"cls": HsmsProtocol}), ("secsi", {"cls": SecsIProtocol})]

    def inputs(cls):
        return {"self": Obj(cls, _system_counter=Int(0, 2 ** 32 - 1), _system_counter_lock=Const(_LOCK))}

    def raises():
        return {}

    def ensures(self, old, result):
        want = ite(old.self._system_counter == 2 ** 32 - 1, 0, old.self._system_counter + 1)
        return result == want and self._system_counter == want and 0 <= result < 2 ** 32


@contract("secsgem.common.protocol:Protocol.get_next_system_counter", "C06", name="LemmaDistinctSystemBytes")
class LemmaDistinctSystemBytes:
    """From NextSystemCounter: the k-th call after counter value c returns (c + k) mod 2^32, hence two calls that are
    j and k steps away (1 <= j < k < 2^32 + j, i.e. fewer than 2^32 ids outstanding) return different system bytes."""

    lemma = True
    cases = None

    def goals():
        import z3
        c, j, k = z3.Int("in:c"), z3.Int("in:j"), z3.Int("in:k")
        M = 2 ** 32
        return {"distinct-within-2^32": ([0 <= c, c < M, 1 <= j, j < k, k - j < M], (c + j) % M != (c + k) % M,
                                         {"in:c": {"kind": "int", "term": c}, "in:j": {"kind": "int", "term": j}, "in:k": {"kind": "int", "term": k}})}
