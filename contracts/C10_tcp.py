"""C10: TcpConnection.send_data under the POSIX contract of a non-blocking stream socket."""
import errno

from pyvc.contract import *  # noqa
from pyvc.spec_intrinsics import *  # noqa
from spec.ext import AbsSocket

from secsgem.common.tcp_connection import TcpConnection
from secsgem.common.tcp_client_connection import TcpClientConnection


@contract("spec.ext:AbsSocket.send", "C10", name="SocketSendExt")
class SocketSendExt:
    """ASSUMED (POSIX, A-EXT): send(data) on a non-blocking stream socket either raises OSError (nothing accepted) or
    returns n with 1 <= n <= len(data) (0 iff data is empty) after the kernel accepted exactly data[:n] - a short
    count is legal whenever the send buffer fills up."""

    abstract = True
    modifies = {"self.wire": Bytes()}
    returns = Int

    def raises(self, data):
        return {OSError: (fresh_bool("send_fails"), {"errno": fresh_int("errno")})}

    def ensures(self, data, old, result):
        w0 = old.self.wire
        return (0 <= result <= len(data) and implies(len(data) > 0, result >= 1)
                and len(self.wire) == len(w0) + result
                and forall(0, len(w0), lambda t: self.wire[t] == w0[t])
                and forall(len(w0), len(w0) + result, lambda u: self.wire[u] == data[u - len(w0)]))


@contract("secsgem.common.tcp_connection:TcpConnection.send_data", "C10")
class SendData:
    """O56/O57: True is returned only after the kernel accepted *all* bytes of `data`, in order, once; False only after
    an error other than EWOULDBLOCK/EAGAIN.  Every message size and every pacing of the peer is covered by the
    quantification over the counts `send` may return."""

    cases = None
    uses = [SocketSendExt]

    def inputs():
        return {"self": Obj(TcpClientConnection, _sock=Obj(AbsSocket, wire=Bytes())), "data": Bytes()}

    def raises():
        return {}

    def ensures(self, data, old, result):
        w0 = old.self._sock.wire
        w = self._sock.wire
        return implies(result, lambda: len(w) == len(w0) + len(data)
                       and forall(0, len(w0), lambda t: w[t] == w0[t])
                       and forall(len(w0), len(w0) + len(data), lambda u: w[u] == data[u - len(w0)]))

    def replay_prepare(args, model):
        """Realise the environment of a counter-model: a scripted socket returning the counts the model chose."""
        import contextlib
        import secsgem.common.tcp_connection as T

        class ScriptedSocket(AbsSocket):
            def __init__(self, wire):
                self.wire = bytearray(wire)
                self.calls = 0

            def __deepcopy__(self, memo):
                c = ScriptedSocket(self.wire)
                return c

            def send(self, data):
                self.calls += 1
                n = model.get(f"in:call:AbsSocket.send#{self.calls}.result", len(data))
                n = max(1 if data else 0, min(int(n), len(data)))
                self.wire += data[:n]
                return n

        args["self"]._sock = ScriptedSocket(args["self"]._sock.wire)

        @contextlib.contextmanager
        def ctx():
            real = T.select.select
            T.select.select = lambda r, w, x, t=None: (list(r), list(w), list(x))
            try:
                yield
            finally:
                T.select.select = real
        return ctx()

    def inv_outer(self, data, remaining, retry, old):
        w0 = old.self._sock.wire
        w = self._sock.wire
        k = len(data) - len(remaining)
        return (0 <= k <= len(data) and len(w) == len(w0) + k
                and forall(0, len(w0), lambda t: w[t] == w0[t])
                and forall(len(w0), len(w0) + k, lambda u: w[u] == data[u - len(w0)])
                and forall(0, len(remaining), lambda t: remaining[t] == data[k + t])
                and (retry or len(remaining) == 0))

    def inv_select():
        return True

    loops = {1: Loop(a=inv_outer, modifies=["self._sock.wire"]), 2: Loop(a=inv_select)}
