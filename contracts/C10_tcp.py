"""C10: TcpConnection.send_data under the POSIX contract of a non-blocking stream socket."""
import errno

from pyvc.contract import *  # noqa
from pyvc.spec_intrinsics import *  # noqa
from spec.ext import AbsSocket

from secsgem.common.tcp_connection import TcpConnection
from secsgem.common.tcp_client_connection import TcpClientConnection


@contract("spec.ext:AbsSocket.send", "C10", name="SocketSendExt")
class SocketSendExt:
    """ASSUMED (POSIX, A-EXT): send(data) on a non-blocking stream socket either raises OSError (nothing accepted) or
    returns n with 1 <= n <= len(data) (0 iff data is empty) after the kernel accepted exactly data[:n] - a short
    count is legal whenever the send buffer fills up."""

    abstract = True
    modifies = {"self.wire": Bytes()}
    returns = Int

    def raises(self, data):
        return {OSError: (fresh_bool("send_fails"), {"errno": fresh_int("errno")})}

    def ensures(self, data, old, result):
        w0 = old.self.wire
        return (0 <= result <= len(data) and implies(len(data) > 0, result >= 1)
                and len(self.wire) == len(w0) + result
                and forall(0, len(w0), lambda t: self.wire[t] == w0[t])
                and forall(len(w0), len(w0) + result, lambda u: self.wire[u] == data[u - len(w0)]))


@contract("secsgem.common.tcp_connection:TcpConnection.send_data", "C10")
class SendData:
    """O56/O57: True is returned only after the kernel accepted *all* bytes of `data`, in order, once; False only after
    an error other than EWOULDBLOCK/EAGAIN.  Every message size and every pacing of the peer is covered by the
    quantification over the counts `send` may return."""

    cases = None
    uses = [SocketSendExt]

    def inputs():
        return {"self": Obj(TcpClientConnection, _sock=Obj(AbsSocket, wire=Bytes()), _disconnecting=Bool, _stop_thread=Bool), "data": Bytes()}

    def raises():
        return {}

    def ensures(self, data, old, result):
        w0 = old.self._sock.wire
        w = self._sock.wire
        return implies(result, lambda: len(w) == len(w0) + len(data)
                       and forall(0, len(w0), lambda t: w[t] == w0[t])
                       and forall(len(w0), len(w0) + len(data), lambda u: w[u] == data[u - len(w0)]))

    def replay_prepare(args, model):
        """Realise the environment of a counter-model: a scripted socket returning the counts the model chose."""
        import contextlib
        import secsgem.common.tcp_connection as T

        class ScriptedSocket(AbsSocket):
            def __init__(self, wire):
                self.wire = bytearray(wire)
                self.calls = 0

            def __deepcopy__(self, memo):
                c = ScriptedSocket(self.wire)
                return c

            def send(self, data):
                self.calls += 1
                n = model.get(f"in:call:AbsSocket.send#{self.calls}.result", len(data))
                n = max(1 if data else 0, min(int(n), len(data)))
                self.wire += data[:n]
                return n

        args["self"]._sock = ScriptedSocket(args["self"]._sock.wire)

        @contextlib.contextmanager
        def ctx():
            real = T.select.select
            T.select.select = lambda r, w, x, t=None: (list(r), list(w), list(x))
            try:
                yield
            finally:
                T.select.select = real
        return ctx()

    def inv_outer(self, data, remaining, retry, old):
        w0 = old.self._sock.wire
        w = self._sock.wire
        k = len(data) - len(remaining)
        return (0 <= k <= len(data) and len(w) == len(w0) + k
                and forall(0, len(w0), lambda t: w[t] == w0[t])
                and forall(len(w0), len(w0) + k, lambda u: w[u] == data[u - len(w0)])
                and forall(0, len(remaining), lambda t: remaining[t] == data[k + t])
                and (retry or len(remaining) == 0))

    def inv_select():
        return True

    # the two flags read while waiting for a writable socket belong to other threads (disconnect(), the receiver thread): any
    # value at every iteration
    loops = {1: Loop(a=inv_outer, modifies=["self._sock.wire", "self._disconnecting", "self._stop_thread"]),
             2: Loop(a=inv_select, modifies=["self._disconnecting", "self._stop_thread"])}


# =============================================================================================== HSMS send queue (O58)
from secsgem.common.block_send_info import BlockSendInfo  # noqa: E402
from secsgem.common.connection import Connection  # noqa: E402
from secsgem.hsms.protocol import HsmsProtocol  # noqa: E402
from spec.ext import AbsQueue  # noqa: E402

MIB = 1024 * 1024


@contract("spec.ext:AbsQueue.empty", "C10", name="SendQueueEmptyAbs10")
class SendQueueEmptyAbs10:
    """ASSUMED (A-EXT): ghost view of the send queue; other threads may add blocks."""

    abstract = True
    modifies = {"self.g_pending": Int}
    returns = Bool

    def ensures(self, old, result):
        return self.g_pending >= old.self.g_pending and self.g_pending >= 0 and result == (self.g_pending == 0)


@contract("spec.ext:AbsQueue.get", "C10", name="SendQueueGetAbs10")
class SendQueueGetAbs10:
    """ASSUMED (A-EXT), with the call-site obligation that a block is pending (the sender never parks in get()).  The block
    is any frame of 1 byte .. 3 MiB (bounded shape: the chunk list is unrolled; larger frames: bounded pass)."""

    abstract = True
    modifies = {"self.g_pending": Int, "self.g_owner._Protocol__connection.g_mark": Int}
    returns = Obj(BlockSendInfo, _data=Bytes(min_len=1, max_len=3 * MIB), g_owner=Same("self.g_owner"), g_resolved=Const(False))

    def requires(self):
        return self.g_pending >= 1

    def ensures(self, old):
        c = self.g_owner._Protocol__connection
        # ghost: where on the wire this block starts (nothing of it has been sent when it is taken from the queue)
        return self.g_pending == old.self.g_pending - 1 and c.g_mark == len(c.g_wire)


@contract("secsgem.common.connection:Connection.send_data", "C10", name="SendDataUse")
class SendDataUse:
    """The contract proved for TcpConnection.send_data above (SendData), as seen by its caller: True only after all bytes
    were appended to the wire in order; False after any prefix."""

    abstract = True
    modifies = {"self.g_wire": ByteArray(), "self.g_last_ok": Bool}
    returns = Bool

    def ensures(self, data, old, result):
        n0 = len(old.self.g_wire)
        w = self.g_wire
        return (self.g_last_ok == result and n0 <= len(w) and len(w) <= n0 + len(data)
                and forall(0, n0, lambda t: w[t] == old.self.g_wire[t])
                and forall(n0, len(w), lambda u: w[u] == data[u - n0])
                and implies(result, lambda: len(w) == n0 + len(data)))


@contract("secsgem.common.block_send_info:BlockSendInfo.resolve", "C10", name="ResolveAbs10")
class ResolveAbs10:
    """Call-out contract: a block is resolved once; with success only when the last transport call succeeded and the wire
    grew, since the block was taken from the queue, by exactly the block's bytes (all chunks, in order, ONCE - nothing
    more, nothing twice); with failure right after a failed transport call, the wire then holding a prefix of the block."""

    abstract = True
    modifies = {"self.g_resolved": Bool}

    def requires(self, result):
        c = self.g_owner._Protocol__connection
        w = c.g_wire
        n = len(self._data)
        return {"resolved-once": not self.g_resolved,
                "result-is-the-last-transport-result": result == c.g_last_ok,
                "success-only-after-exactly-the-blocks-bytes": implies(result, lambda: len(w) == c.g_mark + n),
                "never-more-than-the-blocks-bytes": c.g_mark <= len(w) and len(w) <= c.g_mark + n,
                "bytes-in-order": forall(c.g_mark, len(w), lambda u: w[u] == self._data[u - c.g_mark])}

    def ensures(self):
        return self.g_resolved


@contract("secsgem.hsms.protocol:HsmsProtocol._process_send_queue", "C10")
class ProcessSendQueue:
    """O58: every queued frame is handed to the transport in 1 MiB chunks, in order; it is resolved with success exactly
    after all its chunks were accepted (the wire then ends with the frame's bytes) and with failure at the first refused
    chunk, after which the loop stops; the sender never parks in get()."""

    cases = None
    uses = [SendQueueEmptyAbs10, SendQueueGetAbs10, SendDataUse, ResolveAbs10]

    def inputs():
        return {"self": Obj(HsmsProtocol,
                            _send_queue=Obj(AbsQueue, g_pending=Int(0, None), g_owner=Root()),
                            _Protocol__connection=Obj(Connection, g_wire=ByteArray(), g_last_ok=Bool, g_mark=Int))}

    def raises():
        return {}

    def ensures(self, old):
        w, w0 = self._Protocol__connection.g_wire, old.self._Protocol__connection.g_wire
        return {"wire-only-grows": len(w) >= len(w0) and forall(0, len(w0), lambda t: w[t] == w0[t])}

    def inv_pending(self, old):
        return self._send_queue.g_pending >= 0

    def inv_wire(self, old):
        w, w0 = self._Protocol__connection.g_wire, old.self._Protocol__connection.g_wire
        return len(w) >= len(w0) and forall(0, len(w0), lambda t: w[t] == w0[t])

    loops = {1: Loop(pending=inv_pending, wire=inv_wire,
                     modifies=["self._send_queue.g_pending", "self._Protocol__connection.g_wire", "self._Protocol__connection.g_last_ok",
                               "self._Protocol__connection.g_mark"])}

    def replay(case, name, model):
        """Native demonstration: the real loop on a real queue of frames of 1 B, 1 MiB, 1 MiB + 1 and 2.5 MiB with a recording
        transport (all chunks accepted), then with a transport that refuses the second chunk."""
        import logging
        import queue as _queue
        logging.disable(logging.CRITICAL)
        failed, seen = [], []

        class Conn:
            def __init__(self, fail_at=None):
                self.wire, self.calls, self.fail_at = bytearray(), 0, fail_at

            def send_data(self, data):
                self.calls += 1
                if self.fail_at is not None and self.calls >= self.fail_at:
                    return False
                self.wire += data
                return True

        for fail_at in (None, 2):
            proto = object.__new__(HsmsProtocol)
            null = logging.getLogger("verif.null")
            proto._logger = proto._communication_logger = null
            proto._Protocol__connection = Conn(fail_at)
            proto._send_queue = _queue.Queue()
            frames = [bytes([7]), bytes(range(256)) * 4096, bytes(range(256)) * 4096 + b"\x01", (bytes(range(251)) * 10444)[:2 * MIB + MIB // 2]]
            if fail_at:
                frames = frames[3:] + frames[:1]
            infos = [BlockSendInfo(f) for f in frames]
            for b in infos:
                proto._send_queue.put(b)
            try:
                proto._process_send_queue()
            except Exception as exc:  # noqa
                failed.append(f"raised {type(exc).__name__}: {exc}")
            got = [b._result.name for b in infos]
            wire = bytes(proto._Protocol__connection.wire)
            seen.append({"transport_fails_at_call": fail_at, "results": got, "wire_bytes": len(wire)})
            if fail_at is None:
                if got != ["SENT_OK"] * 4:
                    failed.append(f"all chunks accepted but results {got}")
                if wire != b"".join(frames):
                    failed.append(f"wire ({len(wire)} bytes) is not the concatenation of the frames ({sum(map(len, frames))} bytes) in order")
            else:
                if got[0] != "SENT_ERROR":
                    failed.append(f"second chunk refused but the frame was resolved {got[0]}")
                if got[1] != "NOT_SENT":
                    failed.append(f"the loop went on after a refused chunk: {got}")
                if wire != frames[0][:MIB]:
                    failed.append("wire after the refused chunk is not exactly the first chunk")
        return {"status": "confirmed" if failed else "spurious", "failed_clauses": failed, "inputs": {"frames": "1 B, 1 MiB, 1 MiB + 1, 2.5 MiB"}, "observed": seen}
