"""C11: the host-request handlers and the on-line probe of the real StateModelsCapability against the E30 control model.

The control state space is finite and is enumerated exhaustively on real handlers by bounded/C11_api (FD).  These VC units
add what enumeration samples: the on-line attempt succeeds exactly when the probe is answered by S1F2 - for ANY reply
header (stream, function, system bytes) -, and the acknowledge codes / requested transitions / collection events of
S1F15, S1F17 for every control state.  Transitions of ControlStateMachine are call-outs that are only counted here (their
effect incl. the forwarding enter handlers is what the FD pass checks on the real machine)."""
from pyvc.contract import *  # noqa
from pyvc.spec_intrinsics import *  # noqa

from secsgem.common.state_machine import State
from secsgem.gem.collection_event import CollectionEventId
from secsgem.gem.communication_state_machine import CommunicationState as CM, CommunicationStateMachine
from secsgem.gem.control_state_machine import ControlState as CT, ControlStateMachine
from secsgem.gem.equipmenthandler import GemEquipmentHandler
from secsgem.hsms.header import HsmsSType
from spec.ext import AbsFunction, AbsFunctionClass

from contracts.C05_session import message_obj


class _Counted:
    abstract = True
    modifies = {"self.g_calls": Int, "self.g_last": Int}


@contract("secsgem.gem.control_state_machine:ControlStateMachine.attempt_online_success", "C11", name="CT_success")
class CT_success(_Counted):
    """Call-out: transition requested (counted, code 1; its effect incl. forwarding handlers is checked by FD on the real machine)."""

    def ensures(self, old):
        return self.g_calls == old.self.g_calls + 1 and self.g_last == 1


@contract("secsgem.gem.control_state_machine:ControlStateMachine.attempt_online_fail_host_offline", "C11", name="CT_fail_host_offline")
class CT_fail_host_offline(_Counted):
    """Call-out: transition requested (counted, code 2)."""

    def ensures(self, old):
        return self.g_calls == old.self.g_calls + 1 and self.g_last == 2


@contract("secsgem.gem.control_state_machine:ControlStateMachine.remote_online", "C11", name="CT_remote_online")
class CT_remote_online(_Counted):
    """Call-out: transition requested (counted, code 3)."""

    def ensures(self, old):
        return self.g_calls == old.self.g_calls + 1 and self.g_last == 3


@contract("secsgem.gem.control_state_machine:ControlStateMachine.remote_offline", "C11", name="CT_remote_offline")
class CT_remote_offline(_Counted):
    """Call-out: transition requested (counted, code 4)."""

    def ensures(self, old):
        return self.g_calls == old.self.g_calls + 1 and self.g_last == 4


@contract("secsgem.secs.handler:SecsHandler.are_you_there", "C11", name="ProbeAbs")
class ProbeAbs:
    """ASSUMED (call-out): the S1F1 probe returns the reply message (any header) or None (no reply / send failure)."""

    abstract = True
    modifies = {"self.g_probes": Int, "self.g_reply_none": Bool, "self.g_reply_stream": Int, "self.g_reply_function": Int}
    returns = Optional(message_obj(HsmsSType.DATA_MESSAGE))

    def ensures(self, old, result):
        if result is None:
            return self.g_probes == old.self.g_probes + 1 and self.g_reply_none
        h = result._blocks[0]._header
        return (self.g_probes == old.self.g_probes + 1 and not self.g_reply_none and self.g_reply_stream == h._stream
                and self.g_reply_function == h._function)


@contract("secsgem.gem.collection_event_capability:CollectionEventCapability.trigger_collection_events", "C11", name="TriggerAbs")
class TriggerAbs:
    """Call-out: collection events raised (counted, last id list recorded; enabled filter and report content: C12)."""

    abstract = True
    modifies = {"self.g_triggers": Int, "self.g_last_ceids": Same("ceids")}

    def ensures(self, old):
        return self.g_triggers == old.self.g_triggers + 1


@contract("secsgem.secs.handler:SecsHandler.stream_function", "C11", name="StreamFunctionAbs11")
class StreamFunctionAbs11:
    abstract = True
    returns = Obj(AbsFunctionClass, g_stream=Same("stream"), g_function=Same("function"))


@contract("spec.ext:AbsFunctionClass.__call__", "C11", name="NewFunctionAbs11")
class NewFunctionAbs11:
    abstract = True
    returns = Obj(AbsFunction, g_stream=Same("self.g_stream"), g_function=Same("self.g_function"), g_value=Same("value"))


CONTROL_STATES = [CT.EQUIPMENT_OFFLINE, CT.ATTEMPT_ONLINE, CT.HOST_OFFLINE, CT.ONLINE, CT.ONLINE_LOCAL, CT.ONLINE_REMOTE]
ONLINE = (CT.ONLINE, CT.ONLINE_LOCAL, CT.ONLINE_REMOTE)


def handler_obj(state, comm=CM.COMMUNICATING):
    return Obj(GemEquipmentHandler,
               _control_state=Obj(ControlStateMachine, _current_state=Obj(State, _state=Const(state)), g_calls=Int, g_last=Int),
               _communication_state=Obj(CommunicationStateMachine, _current_state=Obj(State, _state=Const(comm))),
               g_probes=Int, g_triggers=Int, g_last_ceids=Const(None), g_reply_none=Bool, g_reply_stream=Int, g_reply_function=Int)


@contract("secsgem.gem.state_models_capability:StateModelsCapability._on_s01f15", "C11")
class OnS1F15:
    """S1F15 (request off-line): OFLACK 0 always; the remote_offline transition and the EQUIPMENT_OFFLINE collection event
    are requested exactly when the equipment is on-line."""

    cases = [(st.name, {"state": st}) for st in CONTROL_STATES]
    uses = [CT_remote_offline, TriggerAbs, StreamFunctionAbs11, NewFunctionAbs11]

    def inputs(state):
        return {"self": handler_obj(state), "_handler": Const(None), "_message": Const(None)}

    def raises():
        return {}

    def ensures(self, old, result, case):
        online = case["state"] in ONLINE
        calls = self._control_state.g_calls - old.self._control_state.g_calls
        trig = self.g_triggers - old.self.g_triggers
        return {
            "s1f16-oflack-0": result.g_stream == 1 and result.g_function == 16 and result.g_value == 0,
            "offline-transition-iff-online": calls == (1 if online else 0) and implies(calls == 1, lambda: self._control_state.g_last == 4),
            "equipment-offline-event-iff-online": trig == (1 if online else 0),
        }

    def ensures_event_id(self, case):
        if case["state"] not in ONLINE:
            return True
        return len(self.g_last_ceids) == 1 and self.g_last_ceids[0] == CollectionEventId.EQUIPMENT_OFFLINE.value


@contract("secsgem.gem.state_models_capability:StateModelsCapability._on_s01f17", "C11")
class OnS1F17:
    """S1F17 (request on-line): ONLACK 0 and the remote_online transition exactly from HOST_OFFLINE; ONLACK 2 when already
    on-line; ONLACK 1 (not allowed) otherwise; no transition in the last two cases."""

    cases = [(st.name, {"state": st}) for st in CONTROL_STATES]
    uses = [CT_remote_online, StreamFunctionAbs11, NewFunctionAbs11]

    def inputs(state):
        return {"self": handler_obj(state), "_handler": Const(None), "_message": Const(None)}

    def raises():
        return {}

    def ensures(self, old, result, case):
        st = case["state"]
        want = 0 if st is CT.HOST_OFFLINE else 2 if st in ONLINE else 1
        calls = self._control_state.g_calls - old.self._control_state.g_calls
        return {
            "s1f18-onlack": result.g_stream == 1 and result.g_function == 18 and result.g_value == want,
            "online-transition-iff-host-offline": calls == (1 if st is CT.HOST_OFFLINE else 0) and implies(calls == 1, lambda: self._control_state.g_last == 3),
        }


@contract("secsgem.gem.state_models_capability:StateModelsCapability._get_control_state_id", "C11")
class ControlStateId:
    """The CONTROL_STATE status value: 1..5 for the five stable states of E30."""

    cases = [(st.name, {"state": st}) for st in CONTROL_STATES]

    def inputs(state):
        return {"self": handler_obj(state)}

    def raises():
        return {}

    def ensures(self, result, case):
        want = {CT.EQUIPMENT_OFFLINE: 1, CT.ATTEMPT_ONLINE: 2, CT.HOST_OFFLINE: 3, CT.ONLINE_LOCAL: 4, CT.ONLINE_REMOTE: 5}.get(case["state"], -1)
        return result == want


@contract("secsgem.gem.state_models_capability:StateModelsCapability._on_control_state_attempt_online", "C11")
class AttemptOnline:
    """The on-line attempt: without established communication no probe is sent and the attempt fails to HOST_OFFLINE; else
    exactly one S1F1 probe, success exactly when a reply arrives whose header says S1F2 (any other stream/function, S1F0,
    or no reply: fail to HOST_OFFLINE); exactly one of the two outcome transitions is requested."""

    cases = [(cm.name, {"comm": cm}) for cm in (CM.COMMUNICATING, CM.NOT_COMMUNICATING, CM.WAIT_CRA, CM.WAIT_DELAY, CM.DISABLED)]
    uses = [ProbeAbs, CT_success, CT_fail_host_offline]

    def inputs(comm):
        return {"self": handler_obj(CT.ATTEMPT_ONLINE, comm), "_": Const(None)}

    def raises():
        return {}

    def ensures(self, old, case):
        probes = self.g_probes - old.self.g_probes
        calls = self._control_state.g_calls - old.self._control_state.g_calls
        return {
            "one-outcome-transition": calls == 1,
            "probe-iff-communicating": probes == (1 if case["comm"] is CM.COMMUNICATING else 0),
            "success-iff-probe-answered-by-s1f2": (self._control_state.g_last == 1) == (
                probes == 1 and not self.g_reply_none and self.g_reply_stream == 1 and self.g_reply_function == 2),
            "otherwise-host-offline": self._control_state.g_last == 1 or self._control_state.g_last == 2,
        }


def _c11_replay(kind, case):
    """Native demonstration on a real equipment handler (in-memory link, scripted host): S1F15 / S1F17 from the case's state,
    resp. the on-line attempt against each probe outcome, judged by the E30 clauses of the property."""
    import logging
    from bounded import C11_api as A
    from bounded import harness as H
    from spec import e5ref as R
    logging.disable(logging.CRITICAL)
    failed, seen = [], []
    with H.virtual_timers():
        if kind in ("s1f15", "s1f17"):
            state = case["state"].name
            if state in ("ATTEMPT_ONLINE", "ONLINE"):
                return None     # transient states: not reachable as a resting state through the public operations
            handler, proto, conn = A.build("EQUIPMENT_OFFLINE", "REMOTE", "s1f2")
            try:
                A.drive_to(handler, conn, state, "REMOTE")
                if A.current(handler) != state:
                    return None
                conn.sent.clear()
                fn = 15 if kind == "s1f15" else 17
                conn.feed(H.frame(0, 0x51525354, 1, fn, True, b""))
                rsp = [f for f in conn.frames() if f["stype"] == 0 and f["system"] == 0x51525354]
                code = R.parse(rsp[0]["body"])[0][1][0] if len(rsp) == 1 and rsp[0]["function"] == fn + 1 else None
                after = A.current(handler)
                seen.append({"state": state, "request": f"S1F{fn}", "ack": code, "after": after})
                online = state in ("ONLINE_LOCAL", "ONLINE_REMOTE")
                if kind == "s1f15":
                    if code != 0:
                        failed.append(f"S1F15 in {state}: OFLACK {code}, expected 0")
                    if after != ("HOST_OFFLINE" if online else state):
                        failed.append(f"S1F15 in {state}: state {after}")
                else:
                    want = 0 if state == "HOST_OFFLINE" else 2 if online else 1
                    if code != want:
                        failed.append(f"S1F17 in {state}: ONLACK {code}, expected {want}")
                    if (state == "HOST_OFFLINE") != (after in ("ONLINE_LOCAL", "ONLINE_REMOTE") and state == "HOST_OFFLINE") or (state != "HOST_OFFLINE" and after != state):
                        failed.append(f"S1F17 in {state}: state {after}")
            finally:
                H.shutdown(proto, conn)
        else:
            for probe in ("s1f2", "s1f0", "none"):
                handler, proto, conn = A.build("EQUIPMENT_OFFLINE", "REMOTE", probe)
                try:
                    handler.control_switch_online()
                    after = A.current(handler)
                    seen.append({"probe_answer": probe, "after": after})
                    if (after in ("ONLINE_LOCAL", "ONLINE_REMOTE")) != (probe == "s1f2"):
                        failed.append(f"on-line attempt with probe answer {probe}: state {after}")
                finally:
                    H.shutdown(proto, conn)
    return {"status": "confirmed" if failed else "spurious", "failed_clauses": failed, "inputs": {"case": {k: getattr(v, "name", v) for k, v in case.items()}}, "observed": seen}


OnS1F15.replay = staticmethod(lambda case, name, model: _c11_replay("s1f15", case))
OnS1F17.replay = staticmethod(lambda case, name, model: _c11_replay("s1f17", case))
AttemptOnline.replay = staticmethod(lambda case, name, model: _c11_replay("attempt", case))
