"""C01 / C02: the list containers (Array = open list, List = record) over ABSTRACT children.

A child is any object that obeys the abstract codec contract (spec.ext.AbsVar): encode() returns its bytes g_enc,
decode(data, p) consumes one item starting at p and returns the position after it.  Every concrete variable class is
verified against exactly this shape in C01_variables (encode == item bytes, decode returns start + header + payload), so
the container proofs compose with them and, through the containers being AbsVar-shaped themselves, with any nesting
depth.  The element count is a case split 0..3 (bounded-shape: the loops are unrolled; the engine has no model for
lists of objects of symbolic length) - children contents, positions, k and old contents are symbolic."""
from pyvc.contract import *  # noqa
from pyvc.spec_intrinsics import *  # noqa
from spec import e5
from spec.ext import AbsVar

import secsgem.secs.variables as V
import secsgem.secs.variables.functions as VF

WIDTHS = (0, 1, 2, 3)


def child():
    return Obj(AbsVar, g_enc=Bytes(), g_from=Int, g_to=Int)


@contract("spec.ext:AbsVar.encode", "C01", name="ChildEncodeAbs")
class ChildEncodeAbs:
    """ASSUMED at call sites (abstract codec contract, shown for every concrete class in C01_variables): the child's bytes."""

    abstract = True
    returns = Bytes()

    def ensures(self, result):
        return len(result) == len(self.g_enc) and forall(0, len(result), lambda t: result[t] == self.g_enc[t])


@contract("spec.ext:AbsVar.decode", "C01", name="ChildDecodeAbs")
class ChildDecodeAbs:
    """ASSUMED at call sites (abstract codec contract): decodes one item starting at `start`, returns the position after it."""

    abstract = True
    modifies = {"self.g_from": Int, "self.g_to": Int}
    returns = Int

    def ensures(self, data, start, result):
        return self.g_from == start and self.g_to == result and start <= result


@contract("secsgem.secs.variables.functions:generate", "C01", name="GenerateAbs")
class GenerateAbs:
    """ASSUMED (C19): a fresh variable object for the item definition."""

    abstract = True
    returns = Obj(AbsVar, g_enc=Bytes(), g_from=Const(-1), g_to=Const(-1))


def concat_at(result, start, children):
    """result[start:] == enc(c0) ++ enc(c1) ++ ... exactly; -> (ok, end)"""
    ok = True
    off = start
    for c in children:
        ok = ok and seq_eq_at(result, off, c.g_enc)
        off = off + len(c.g_enc)
    return ok and len(result) == off


@contract("secsgem.secs.variables.array:Array.encode", "C01")
class ArrayEncode:
    """O13: L header with the minimal length bytes ++ the children's encodings, in order, nothing else."""

    cases = [(f"n{n}", {"n": n}) for n in WIDTHS]
    uses = [ChildEncodeAbs]

    def inputs(n):
        return {"self": Obj(V.Array, data=FixedList(*[child() for _ in range(n)]), count=Int)}

    def raises():
        return {}

    def ensures(self, result, case):
        n = case["n"]
        return seq_eq_at(result[:2], 0, e5.header_min(0, n)) and concat_at(result, 2, self.data)


@contract("secsgem.secs.variables.array:Array.decode", "C01")
class ArrayDecode:
    """O14 (also C02): for any k, an L item announcing n elements is decoded into exactly n fresh children, child j from
    where child j-1 ended, the first right after the header; the position after the last child is returned; whatever the
    array held before is gone."""

    cases = [(f"n{n}-k{k}", {"n": n, "k": k}) for n in WIDTHS for k in (1, 2, 3)]
    uses = [ChildDecodeAbs, GenerateAbs]

    def inputs(n, k):
        return {"self": Obj(V.Array, data=FixedList(child()), count=Int, item_decriptor=Const(V.U1)), "data": Bytes(min_len=1), "start": Int(0, None)}

    def requires(self, data, start, case):
        k = case["k"]
        return start + 1 + k <= len(data) and data[start] == k and e5.uint_at(data, start + 1, k) == case["n"]

    def raises():
        return {}

    def ensures(self, data, start, result, case):
        n, k = case["n"], case["k"]
        first = start + 1 + k
        out = {"element-count": len(self.data) == n}
        if n == 0:
            out["position"] = result == first
            return out
        out["first-child-right-after-header"] = self.data[0].g_from == first
        ok = True
        for j in range(1, n):
            ok = ok and self.data[j].g_from == self.data[j - 1].g_to
        out["children-back-to-back"] = ok
        out["position"] = result == self.data[n - 1].g_to
        return out


@contract("secsgem.secs.variables.list_type:List.encode", "C01")
class ListEncode:
    """record: L header ++ the fields' encodings in field order"""

    cases = [(f"n{n}", {"n": n}) for n in WIDTHS[1:]]
    uses = [ChildEncodeAbs]

    def inputs(n):
        return {"self": Obj(V.List, data={f"F{j}": child() for j in range(n)})}

    def raises():
        return {}

    def ensures(self, result, case):
        n = case["n"]
        return seq_eq_at(result[:2], 0, e5.header_min(0, n)) and concat_at(result, 2, [self.data[f"F{j}"] for j in range(n)])


@contract("secsgem.secs.variables.list_type:List.decode", "C01")
class ListDecode:
    """record: an L item announcing exactly the record's field count decodes field j from where field j-1 ended"""

    cases = [(f"n{n}-k{k}", {"n": n, "k": k}) for n in WIDTHS[1:] for k in (1, 2, 3)]
    uses = [ChildDecodeAbs]

    def inputs(n, k):
        return {"self": Obj(V.List, data={f"F{j}": child() for j in range(n)}), "data": Bytes(min_len=1), "start": Int(0, None)}

    def requires(self, data, start, case):
        k = case["k"]
        return start + 1 + k <= len(data) and data[start] == k and e5.uint_at(data, start + 1, k) == case["n"]

    def raises():
        return {}

    def ensures(self, data, start, result, case):
        n, k = case["n"], case["k"]
        f = [self.data[f"F{j}"] for j in range(n)]
        ok = f[0].g_from == start + 1 + k
        for j in range(1, n):
            ok = ok and f[j].g_from == f[j - 1].g_to
        return {"fields-back-to-back-from-header": ok, "position": result == f[n - 1].g_to}


# =============================================================================================== Array.encode for ANY number of children
# The children are a heap region of symbolic size (any element count, no case split): child k has the bytes g_enc[k] of
# length g_len[k]; the encoding is the L header followed by the children's bytes at the offsets given by the prefix sums
# of the lengths.
def sample_kids(rnd):
    """native samples for the cross-check / run-time reading: 0..6 children with arbitrary short encodings"""
    out = []
    for _ in range(rnd.choice((0, 1, 2, 3, 6))):
        enc = bytes(rnd.getrandbits(8) for _ in range(rnd.choice((0, 1, 2, 5))))
        out.append({"g_enc": enc, "g_len": len(enc), "g_from": -1, "g_to": -1})
    return out


KIDS = Region("children", AbsVar, sampler=sample_kids, g_enc=Bytes(), g_len=Int)


def kids_ok(data):
    return forall(0, len(data), lambda k: data[k].g_len == len(data[k].g_enc))


def lens(data):
    return field_seq(region_of(data[0]), "g_len")


def children_at(result, h, data, upto):
    """result[h + sum of the lengths before child k + j] == byte j of child k, for every child k < upto"""
    return forall(0, upto, lambda k: forall(0, data[k].g_len, lambda j: result[h + prefix_sum(lens(data), k) + j] == data[k].g_enc[j]))


def hlen(n):
    return 4 if n > 0xFFFF else (3 if n > 0xFF else 2)


@contract("secsgem.secs.variables.array:Array.encode", "C01", name="ArrayEncodeAny")
class ArrayEncodeAny:
    """O13 for every element count n (0 .. 2**24-1, beyond that ValueError): the result is the L header with the minimal
    number of length bytes followed by the encodings of all children in order, nothing else."""

    cases = None
    uses = [ChildEncodeAbs]

    def inputs():
        return {"self": Obj(V.Array, data=RegionList(KIDS), count=Int)}

    def requires(self):
        return kids_ok(self.data)

    def raises(self):
        return {ValueError: len(self.data) > 0xFFFFFF}

    def ensures(self, result):
        n = len(self.data)
        h = hlen(n)
        return {"header": seq_eq_at(result, 0, e5.header_min(0, n)),
                "length": len(result) == h + prefix_sum(lens(self.data), n),
                "children-in-order": children_at(result, h, self.data, n)}

    def inv(self, result, i):
        n = len(self.data)
        h = hlen(n)
        return (seq_eq_at(result, 0, e5.header_min(0, n))
                and len(result) == h + prefix_sum(lens(self.data), i)
                and forall(0, i, lambda k: prefix_sum(lens(self.data), k) + self.data[k].g_len <= prefix_sum(lens(self.data), i) and prefix_sum(lens(self.data), k) >= 0)
                and children_at(result, h, self.data, i))

    loops = {1: Loop(a=inv)}


# =============================================================================================== Array.decode for ANY element count
class AbsDescriptor:
    """The item definition an open list creates its elements from; ghost g_made counts the objects created so far."""


NEWKIDS = Region("new_children", AbsVar, g_from=Int, g_to=Int)


@contract("secsgem.secs.variables.functions:generate", "C01", name="GenerateNextAbs")
class GenerateNextAbs:
    """ASSUMED (C19): a fresh variable object for the item definition - fresh = the next object of the region of objects
    this call sequence creates (object number g_made), distinct from every object created before."""

    abstract = True
    returns = Elem(NEWKIDS)
    modifies = {"data_format.g_made": Int}

    def requires(data_format):
        return 0 <= data_format.g_made and data_format.g_made < region_size(data_format.g_region)

    def ensures(data_format, old, result):
        return key_of(result) == old.data_format.g_made and data_format.g_made == old.data_format.g_made + 1


@contract("spec.ext:AbsVar.decode", "C01", name="ChildDecodeAnyAbs")
class ChildDecodeAnyAbs:
    """ASSUMED at call sites (abstract codec contract, as ChildDecodeAbs): decodes one item starting at `start` and returns the
    position after it; only this object's ghost positions change."""

    abstract = True
    modifies = {"self.g_from": Int, "self.g_to": Int}
    returns = Int

    def ensures(self, start, result):
        return self.g_from == start and self.g_to == result and result >= start


@contract("secsgem.secs.variables.array:Array.decode", "C01", name="ArrayDecodeAny")
class ArrayDecodeAny:
    """O14 (also C02) for EVERY announced element count n and k = 1..3 length bytes: exactly n fresh children are created,
    child 0 is decoded right after the header, child j from where child j-1 ended, the position after the last child is
    returned, and whatever the array held before is gone.  The objects created are the next n objects of a heap region of
    symbolic size; the new list is a list of region objects of symbolic length."""

    cases = [(f"k{k}", {"k": k}) for k in (1, 2, 3)]
    uses = [ChildDecodeAnyAbs, GenerateNextAbs]

    def replay(case, name, model):
        """Native demonstration: real open lists of U1 / U2 / A items with 0, 1, 2, 3, 300 and 70000 elements, encoded by the
        independent reference encoder with k length bytes, decoded by the real Array into an array that held something
        else before: the values read back, their number and the position returned."""
        from spec import e5ref as R
        k = case["k"]
        failed = []
        for typ, cls, mk_val in (("U1", V.U1, lambda j: j % 251), ("U2", V.U2, lambda j: (j * 7) % 65536), ("A", V.String, lambda j: "x" * (j % 4))):
            for n in (0, 1, 2, 3, 300, 70000):
                if (k == 1 and n > 255) or (k == 2 and n > 65535):
                    continue
                vals = [mk_val(j) for j in range(n)]
                kids = [(typ, [v]) if typ != "A" else ("A", v) for v in vals]
                body = b"".join(R.encode(c) for c in kids)
                data = b"\xAA" + R.header(0, n, k) + body + b"\xBB"
                arr = V.Array(cls, [mk_val(5), mk_val(6)])
                try:
                    end = arr.decode(data, 1)
                except Exception as exc:
                    failed.append(f"{typ} x {n}, k={k}: {type(exc).__name__}: {exc}"[:160])
                    continue
                got = arr.get()
                if end != len(data) - 1:
                    failed.append(f"{typ} x {n}, k={k}: returned position {end}, the item ends at {len(data) - 1}")
                if list(got) != vals:
                    failed.append(f"{typ} x {n}, k={k}: {len(got)} values read back, first difference at {next((i for i, (a, b) in enumerate(zip(got, vals)) if a != b), min(len(got), len(vals)))}")
        if not failed:
            return None
        return {"status": "confirmed", "failed_clauses": failed[:6], "inputs": {"element_counts": [0, 1, 2, 3, 300, 70000], "length_bytes": k}}

    def inputs(k):
        return {"self": Obj(V.Array, data=FixedList(child()), count=Int, item_decriptor=Obj(AbsDescriptor, g_made=Int(0, None), g_region=NEWKIDS)),
                "data": Bytes(min_len=1), "start": Int(0, None)}

    def requires(self, data, start, case):
        k = case["k"]
        d = self.item_decriptor
        return (start + 1 + k <= len(data) and data[start] == k
                and d.g_made + e5.uint_at(data, start + 1, k) <= region_size(d.g_region))

    def raises():
        return {}

    def ensures(self, data, start, result, old, case):
        k = case["k"]
        n = e5.uint_at(data, start + 1, k)
        first = start + 1 + k
        m0 = old.self.item_decriptor.g_made
        return {"element-count": len(self.data) == n,
                "fresh-children-in-creation-order": forall(0, n, lambda j: key_of(self.data[j]) == m0 + j),
                "first-child-right-after-header": implies(n >= 1, lambda: self.data[0].g_from == first),
                "children-back-to-back": forall(1, n, lambda j: self.data[j].g_from == self.data[j - 1].g_to),
                "position": result == (first if n == 0 else self.data[n - 1].g_to)}

    def inv(self, data, start, text_pos, i, old, case):
        k = case["k"]
        n = e5.uint_at(data, start + 1, k)
        first = start + 1 + k
        d = self.item_decriptor
        m0 = old.self.item_decriptor.g_made
        return (len(self.data) == i and d.g_made == m0 + i
                and forall(0, i, lambda j: key_of(self.data[j]) == m0 + j)
                and implies(i >= 1, lambda: self.data[0].g_from == first)
                and forall(1, i, lambda j: self.data[j].g_from == self.data[j - 1].g_to)
                and text_pos == (first if i == 0 else self.data[i - 1].g_to))

    loops = {1: Loop(a=inv, types={"self.data": ElemList(NEWKIDS)},
                     modifies=["self.item_decriptor.g_made", "region:new_children.g_from", "region:new_children.g_to"])}
