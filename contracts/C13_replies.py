"""C13 (reply clauses): S1F3 and S2F13 answer with exactly the requested items in request order - the current value for a
known id, an empty item for an unknown id; repeated ids repeat.  Requests of 1..3 ids (bounded shape), ids and tables
symbolic.  The value of an item is its getter's result (call-out: _get_sv_value / _get_ec_value, ghost g_val)."""
from pyvc.contract import *  # noqa
from pyvc.spec_intrinsics import *  # noqa

import secsgem.secs.data_items as DI
import secsgem.secs.variables as V
from secsgem.common.settings import Settings
from secsgem.gem.equipment_constant import EquipmentConstant
from secsgem.gem.equipmenthandler import GemEquipmentHandler
from secsgem.gem.status_variable import StatusVariable
from secsgem.secs.functions.streams_functions import StreamsFunctions
from spec.ext import AbsArray, AbsItem

from contracts.C12_reports import SvValueAbs, item
from contracts.C13_constants import StreamFunctionAbs13, NewFunctionAbs13


class _DataItems:
    SV = DI.SV
    ECV = DI.ECV


class _SF:
    """the part of the settings the handlers look at: the data item classes (real) and the decode call-out"""
    data_items = _DataItems

    def decode(self, message):
        raise NotImplementedError("external")


@contract("contracts.C13_replies:_SF.decode", "C13", name="DecodeIdListAbs")
class DecodeIdListAbs:
    """ASSUMED (C03): the decoded request is the list of its id items."""

    abstract = True
    returns = Same("self.g_req")


@contract("secsgem.gem.equipment_constants_capability:EquipmentConstantsCapability._get_ec_value", "C13", name="EcValueAbs")
class EcValueAbs:
    """ASSUMED (call-out): the current value of an equipment constant (ghost g_val)."""

    abstract = True
    returns = Int

    def ensures(self, equipment_constant, result):
        return result == equipment_constant.g_val


def reply_ok(result, ids, table, stream, function):
    v = result.g_value
    ok = result.g_stream == stream and result.g_function == function and len(v) == len(ids)
    for i in range(len(ids)):
        if i >= len(v):
            break
        known = ids[i].g_value in table
        if known:
            ok = ok and v[i] == table[ids[i].g_value].g_val
        else:
            ok = ok and type(v[i]) is V.Array and len(v[i].data) == 0
    return ok


def handler_obj(n):
    return Obj(GemEquipmentHandler,
               _status_variables=MapOf(StatusVariable, g_val=Int), _equipment_constants=MapOf(EquipmentConstant, g_val=Int),
               _settings=Obj(Settings, _streams_functions=Obj(_SF, g_req=Obj(AbsArray, items=FixedList(*[item() for _ in range(n)])))))


@contract("secsgem.gem.status_data_collection_capability:StatusDataCollectionCapability._on_s01f03", "C13")
class OnS1F3:
    """S1F4 lists exactly the requested status variables in request order: current value if known, empty item if not."""

    cases = [(f"n{n}", {"n": n}) for n in (1, 2, 3)]
    uses = [DecodeIdListAbs, SvValueAbs, StreamFunctionAbs13, NewFunctionAbs13]

    def inputs(n):
        return {"self": handler_obj(n), "_handler": Const(None), "message": Const(None)}

    def raises():
        return {}

    def ensures(self, result):
        return reply_ok(result, self._settings._streams_functions.g_req.items, self._status_variables, 1, 4)


@contract("secsgem.gem.equipment_constants_capability:EquipmentConstantsCapability._on_s02f13", "C13")
class OnS2F13:
    """S2F14 lists exactly the requested equipment constants in request order: current value if known, empty item if not."""

    cases = [(f"n{n}", {"n": n}) for n in (1, 2, 3)]
    uses = [DecodeIdListAbs, EcValueAbs, StreamFunctionAbs13, NewFunctionAbs13]

    def inputs(n):
        return {"self": handler_obj(n), "_handler": Const(None), "message": Const(None)}

    def raises():
        return {}

    def ensures(self, result):
        return reply_ok(result, self._settings._streams_functions.g_req.items, self._equipment_constants, 2, 14)


# =============================================================================================== S1F3 / S2F13 for ANY number of requested ids
# The requested ids are a heap region of decoded id items (any number n >= 1; the empty request "all variables" is the bounded
# pass's); every entry of the reply is a NEW object of the region of reply entries - created either by the value getter (a
# call-out: kind 'value', the variable's current value) or by the code itself as the empty item `Array(SV, [])` (kind 'empty').
from spec.ext import AbsVar  # noqa: E402

IDS = Region("requested_ids", AbsItem, g_value=Int)
ENTRIES = Region("reply_entries", AbsVar, g_empty=Bool, g_val=Int)


@contract("secsgem.gem.status_data_collection_capability:StatusDataCollectionCapability._get_sv_value", "C13", name="SvValueNewAbs")
class SvValueNewAbs:
    """ASSUMED (call-out, as SvValueAbs): a new value object holding the variable's current value (ghost g_val)."""

    abstract = True
    returns_new = ENTRIES

    def ensures(status_variable, result):
        return (not result.g_empty) and result.g_val == status_variable.g_val


@contract("secsgem.gem.equipment_constants_capability:EquipmentConstantsCapability._get_ec_value", "C13", name="EcValueNewAbs")
class EcValueNewAbs:
    abstract = True
    returns_new = ENTRIES

    def ensures(equipment_constant, result):
        return (not result.g_empty) and result.g_val == equipment_constant.g_val


@contract("secsgem.secs.variables.array:Array.__init__", "C13", name="EmptyItemNewAbs")
class EmptyItemNewAbs:
    """ASSUMED: `Array(<data item>, [])` builds the empty item E5 prescribes for an unknown id (C01: Array over no children
    encodes as L[0]); as a reply entry: kind 'empty'."""

    abstract = True
    creates = ENTRIES

    def requires(value):
        return len(value) == 0

    def ensures(self):
        return self.g_empty


def native_reply_demo(stream, function):
    """Native demonstration (replay of the any-count reply contracts): the real handler over real messages, requests of 1, 2, 3,
    40 and 600 ids mixing known, unknown and repeated ids: one entry per id in request order, value or empty item."""
    def run(case, name, model):
        import logging
        from bounded import C13_api as A
        logging.disable(logging.CRITICAL)
        table = A.SV if stream == 1 else A.EC
        known = [k for k in table if not isinstance(k, str)]
        failed = []
        for n in (1, 2, 3, 40, 600):
            ids = [(known[j % len(known)] if j % 3 != 1 else 900000 + j) for j in range(n)]
            sess = A.Session()
            try:
                got = sess.ask(stream, function, ("L", [A.idtree(i) for i in ids]))
                if not (isinstance(got, tuple) and got[0] == "L"):
                    failed.append(f"{n} ids: no list reply ({str(got)[:60]})")
                    continue
                items = got[1]
                if len(items) != n:
                    failed.append(f"{n} ids requested, {len(items)} entries in the reply")
                    continue
                cur = sess.handler.status_variables if stream == 1 else sess.handler.equipment_constants
                for j, (i, it) in enumerate(zip(ids, items)):
                    if i in table:
                        if A.num(it) is None or float(A.num(it)) != float(cur[i].value):
                            failed.append(f"{n} ids: entry {j} for the known id {i} is {str(it)[:40]}, current value {cur[i].value}")
                            break
                    elif it != ("L", []):
                        failed.append(f"{n} ids: entry {j} for the unknown id {i} is {str(it)[:40]}, expected the empty item")
                        break
            finally:
                sess.close()
        if not failed:
            return None
        return {"status": "confirmed", "failed_clauses": failed[:6], "inputs": {"request_sizes": [1, 2, 3, 40, 600]}}
    return run


def handler_any():
    return Obj(GemEquipmentHandler,
               _status_variables=MapOf(StatusVariable, g_val=Int), _equipment_constants=MapOf(EquipmentConstant, g_val=Int),
               _settings=Obj(Settings, _streams_functions=Obj(_SF, g_req=RegionList(IDS))))


def reply_any(result, ids, table, stream, function):
    v = result.g_value
    n = len(ids)
    return {"function": result.g_stream == stream and result.g_function == function,
            "one-entry-per-requested-id": len(v) == n,
            "entries-are-distinct-new-objects-in-request-order": forall(0, n, lambda j: key_of(v[j]) == key_of(v[0]) + j),
            "known-id-current-value": forall(0, n, lambda j: implies(ids[j].g_value in table, lambda: not v[j].g_empty and v[j].g_val == table[ids[j].g_value].g_val)),
            "unknown-id-empty-item": forall(0, n, lambda j: implies(not (ids[j].g_value in table), lambda: v[j].g_empty))}


@contract("secsgem.gem.status_data_collection_capability:StatusDataCollectionCapability._on_s01f03", "C13", name="OnS1F3Any")
class OnS1F3Any:
    """S1F4 for ANY number n >= 1 of requested ids: one entry per id, in request order, the variable's current value for a known
    id, the empty item for an unknown one; repeated ids repeat."""

    cases = None
    uses = [DecodeIdListAbs, SvValueNewAbs, EmptyItemNewAbs, StreamFunctionAbs13, NewFunctionAbs13]
    replay = native_reply_demo(1, 3)

    def inputs():
        return {"self": handler_any(), "_handler": Const(None), "message": Const(None), }

    def requires(self):
        return len(self._settings._streams_functions.g_req) >= 1

    def raises():
        return {}

    def ensures(self, result):
        return reply_any(result, self._settings._streams_functions.g_req, self._status_variables, 1, 4)

    def inv(self, responses, i):
        ids = self._settings._streams_functions.g_req
        table = self._status_variables
        made = allocated(the_region(ENTRIES))
        return (len(responses) == i
                and forall(0, i, lambda j: key_of(responses[j]) == made - i + j)
                and forall(0, i, lambda j: implies(ids[j].g_value in table, lambda: not responses[j].g_empty and responses[j].g_val == table[ids[j].g_value].g_val))
                and forall(0, i, lambda j: implies(not (ids[j].g_value in table), lambda: responses[j].g_empty)))

    loops = {1: Loop(a=inv, types={"responses": ElemList(ENTRIES)}, modifies=["alloc:reply_entries", "region:reply_entries.g_empty", "region:reply_entries.g_val"])}


@contract("secsgem.gem.equipment_constants_capability:EquipmentConstantsCapability._on_s02f13", "C13", name="OnS2F13Any")
class OnS2F13Any:
    """S2F14 for ANY number n >= 1 of requested ids: one entry per id, in request order, the constant's current value for a known
    id, the empty item for an unknown one; repeated ids repeat."""

    cases = None
    uses = [DecodeIdListAbs, EcValueNewAbs, EmptyItemNewAbs, StreamFunctionAbs13, NewFunctionAbs13]
    replay = native_reply_demo(2, 13)

    def inputs():
        return {"self": handler_any(), "_handler": Const(None), "message": Const(None)}

    def requires(self):
        return len(self._settings._streams_functions.g_req) >= 1

    def raises():
        return {}

    def ensures(self, result):
        return reply_any(result, self._settings._streams_functions.g_req, self._equipment_constants, 2, 14)

    def inv(self, responses, i):
        ids = self._settings._streams_functions.g_req
        table = self._equipment_constants
        made = allocated(the_region(ENTRIES))
        return (len(responses) == i
                and forall(0, i, lambda j: key_of(responses[j]) == made - i + j)
                and forall(0, i, lambda j: implies(ids[j].g_value in table, lambda: not responses[j].g_empty and responses[j].g_val == table[ids[j].g_value].g_val))
                and forall(0, i, lambda j: implies(not (ids[j].g_value in table), lambda: responses[j].g_empty)))

    loops = {1: Loop(a=inv, types={"responses": ElemList(ENTRIES)}, modifies=["alloc:reply_entries", "region:reply_entries.g_empty", "region:reply_entries.g_val"])}
