"""C13 (reply clauses): S1F3 and S2F13 answer with exactly the requested items in request order - the current value for a
known id, an empty item for an unknown id; repeated ids repeat.  Requests of 1..3 ids (bounded shape), ids and tables
symbolic.  The value of an item is its getter's result (call-out: _get_sv_value / _get_ec_value, ghost g_val)."""
from pyvc.contract import *  # noqa
from pyvc.spec_intrinsics import *  # noqa

import secsgem.secs.data_items as DI
import secsgem.secs.variables as V
from secsgem.common.settings import Settings
from secsgem.gem.equipment_constant import EquipmentConstant
from secsgem.gem.equipmenthandler import GemEquipmentHandler
from secsgem.gem.status_variable import StatusVariable
from secsgem.secs.functions.streams_functions import StreamsFunctions
from spec.ext import AbsArray, AbsItem

from contracts.C12_reports import SvValueAbs, item
from contracts.C13_constants import StreamFunctionAbs13, NewFunctionAbs13


class _DataItems:
    SV = DI.SV
    ECV = DI.ECV


class _SF:
    """the part of the settings the handlers look at: the data item classes (real) and the decode call-out"""
    data_items = _DataItems

    def decode(self, message):
        raise NotImplementedError("external")


@contract("contracts.C13_replies:_SF.decode", "C13", name="DecodeIdListAbs")
class DecodeIdListAbs:
    """ASSUMED (C03): the decoded request is the list of its id items."""

    abstract = True
    returns = Same("self.g_req")


@contract("secsgem.gem.equipment_constants_capability:EquipmentConstantsCapability._get_ec_value", "C13", name="EcValueAbs")
class EcValueAbs:
    """ASSUMED (call-out): the current value of an equipment constant (ghost g_val)."""

    abstract = True
    returns = Int

    def ensures(self, equipment_constant, result):
        return result == equipment_constant.g_val


def reply_ok(result, ids, table, stream, function):
    v = result.g_value
    ok = result.g_stream == stream and result.g_function == function and len(v) == len(ids)
    for i in range(len(ids)):
        if i >= len(v):
            break
        known = ids[i].g_value in table
        if known:
            ok = ok and v[i] == table[ids[i].g_value].g_val
        else:
            ok = ok and type(v[i]) is V.Array and len(v[i].data) == 0
    return ok


def handler_obj(n):
    return Obj(GemEquipmentHandler,
               _status_variables=MapOf(StatusVariable, g_val=Int), _equipment_constants=MapOf(EquipmentConstant, g_val=Int),
               _settings=Obj(Settings, _streams_functions=Obj(_SF, g_req=Obj(AbsArray, items=FixedList(*[item() for _ in range(n)])))))


@contract("secsgem.gem.status_data_collection_capability:StatusDataCollectionCapability._on_s01f03", "C13")
class OnS1F3:
    """S1F4 lists exactly the requested status variables in request order: current value if known, empty item if not."""

    cases = [(f"n{n}", {"n": n}) for n in (1, 2, 3)]
    uses = [DecodeIdListAbs, SvValueAbs, StreamFunctionAbs13, NewFunctionAbs13]

    def inputs(n):
        return {"self": handler_obj(n), "_handler": Const(None), "message": Const(None)}

    def raises():
        return {}

    def ensures(self, result):
        return reply_ok(result, self._settings._streams_functions.g_req.items, self._status_variables, 1, 4)


@contract("secsgem.gem.equipment_constants_capability:EquipmentConstantsCapability._on_s02f13", "C13")
class OnS2F13:
    """S2F14 lists exactly the requested equipment constants in request order: current value if known, empty item if not."""

    cases = [(f"n{n}", {"n": n}) for n in (1, 2, 3)]
    uses = [DecodeIdListAbs, EcValueAbs, StreamFunctionAbs13, NewFunctionAbs13]

    def inputs(n):
        return {"self": handler_obj(n), "_handler": Const(None), "message": Const(None)}

    def raises():
        return {}

    def ensures(self, result):
        return reply_ok(result, self._settings._streams_functions.g_req.items, self._equipment_constants, 2, 14)
