"""C01/C02: SECS-II variable codec against SEMI E5 (spec/e5.py)."""
from pyvc.contract import *  # noqa
from pyvc.spec_intrinsics import *  # noqa
from spec import e5

import secsgem.secs.variables as V

NUMERIC = [V.U1, V.U2, V.U4, V.U8, V.I1, V.I2, V.I4, V.I8, V.F4, V.F8]
ALL_LEAF = NUMERIC + [V.String, V.JIS8, V.Binary, V.Boolean]


@contract("secsgem.secs.variables.base:Base.encode_item_header", "C01")
class EncodeItemHeader:
    """O1/O2: exact header bytes with the minimal number of length bytes, ValueError exactly outside 0..0xFFFFFF."""

    cases = [(c.__name__, {"cls": c}) for c in ALL_LEAF + [V.Array, V.List]]

    def inputs(cls):
        return {"self": Obj(cls), "length": Int}

    def raises(length):
        return {ValueError: length < 0 or length > 0xFFFFFF}

    def ensures(self, length, result):
        return result == e5.header_min(self.format_code, length)


@contract("secsgem.secs.variables.base:Base.decode_item_header", "C01")
class DecodeItemHeader:
    """O3/O4: for every k in 1..3 (also non-minimal), header(fc, n, k) at text_pos decodes to (pos+1+k, fc, n)."""

    cases = [(f"{c.__name__}-k{k}", {"cls": c, "k": k}) for c in (V.U1, V.F8, V.String, V.Binary, V.Boolean, V.Array) for k in (1, 2, 3)]

    def inputs(cls, k):
        return {"self": Obj(cls), "data": Bytes(min_len=1), "text_pos": Int(0, None)}

    def requires(self, data, text_pos, case):
        return text_pos + 1 + case["k"] <= len(data) and data[text_pos] % 4 == case["k"]

    def raises(self, data, text_pos):
        return {ValueError: data[text_pos] // 4 != self.format_code}

    def ensures(self, data, text_pos, result, case):
        k = case["k"]
        n = result[2]
        return (result[0] == text_pos + 1 + k and result[1] == self.format_code and 0 <= n < 256 ** k
                and seq_eq_at(data, text_pos, e5.header(self.format_code, n, k)))
