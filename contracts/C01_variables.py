"""C01/C02: SECS-II variable codec against SEMI E5 (spec/e5.py)."""
from pyvc.contract import *  # noqa
from pyvc.spec_intrinsics import *  # noqa
from spec import e5

import secsgem.secs.variables as V
from contracts import lemmas_float as LF

NUMERIC = [V.U1, V.U2, V.U4, V.U8, V.I1, V.I2, V.I4, V.I8, V.F4, V.F8]
ALL_LEAF = NUMERIC + [V.String, V.JIS8, V.Binary, V.Boolean]


@contract("secsgem.secs.variables.base:Base.encode_item_header", "C01")
class EncodeItemHeader:
    """O1/O2: exact header bytes with the minimal number of length bytes, ValueError exactly outside 0..0xFFFFFF."""

    cases = [(c.__name__, {"cls": c}) for c in ALL_LEAF + [V.Array, V.List]]

    def inputs(cls):
        return {"self": Obj(cls), "length": Int}

    def raises(length):
        return {ValueError: length < 0 or length > 0xFFFFFF}

    def ensures(self, length, result):
        return result == e5.header_min(self.format_code, length)


@contract("secsgem.secs.variables.base:Base.decode_item_header", "C01")
class DecodeItemHeader:
    """O3/O4: for every k in 1..3 (also non-minimal), header(fc, n, k) at text_pos decodes to (pos+1+k, fc, n)."""

    cases = [(f"{c.__name__}-k{k}", {"cls": c, "k": k}) for c in (V.U1, V.F8, V.String, V.Binary, V.Boolean, V.Array) for k in (1, 2, 3)]

    def inputs(cls, k):
        return {"self": Obj(cls), "data": Bytes(min_len=1), "text_pos": Int(0, None)}

    def requires(self, data, text_pos, case):
        return text_pos + 1 + case["k"] <= len(data) and data[text_pos] % 4 == case["k"]

    def raises(self, data, text_pos):
        return {ValueError: data[text_pos] // 4 != self.format_code}

    def samples(rnd, cls, k):
        for _ in range(30):
            pos = rnd.choice((0, 0, 2, 5))
            fc = cls.format_code if rnd.random() < 0.7 else rnd.randint(0, 63)
            body = bytes([fc * 4 + k]) + bytes(rnd.choice((0, 1, 0xFF, rnd.getrandbits(8))) for _ in range(k + rnd.choice((0, 4))))
            yield {"self": object.__new__(cls), "data": bytes(rnd.getrandbits(8) for _ in range(pos)) + body, "text_pos": pos}

    def ensures(self, data, text_pos, result, case):
        k = case["k"]
        n = result[2]
        return (result[0] == text_pos + 1 + k and result[1] == self.format_code and 0 <= n < 256 ** k
                and seq_eq_at(data, text_pos, e5.header(self.format_code, n, k)))


def _decode_samples(rnd, cls, k, payloads, make_self):
    """Concrete inputs for the cross-check of decode contracts: valid items with k length bytes at a random offset."""
    import spec.e5ref as R
    for payload in payloads:
        prefix = bytes(rnd.getrandbits(8) for _ in range(rnd.choice((0, 1, 3))))
        tail = bytes(rnd.getrandbits(8) for _ in range(rnd.choice((0, 2))))
        try:
            item = R.header(cls.format_code, len(payload), k) + payload
        except R.E5Error:
            continue
        yield {"self": make_self(), "data": prefix + item + tail, "start": len(prefix)}


def _obj(cls, **fields):
    o = object.__new__(cls)
    for f, v in fields.items():
        object.__setattr__(o, f, v)
    return o


# =============================================================================================== numbers
def elem(cls):
    return Float if cls._base_type is float else Int


def in_bounds(self, v):
    """What BaseNumber.set lets through (for floats NaN passes both comparisons)."""
    return not (v < self._min or v > self._max)


def inv_T(self):
    return forall(0, len(self.value), lambda j: in_bounds(self, self.value[j]))


NUM_CASES = [(c.__name__, {"cls": c}) for c in NUMERIC]


@contract("secsgem.secs.variables.base_number:BaseNumber._set_list", "C01")
class NumSetList:
    """O5 (list form): stores exactly the given elements or raises ValueError exactly when one is out of the
    class bounds or the list is longer than `count`."""

    cases = NUM_CASES

    def inputs(cls):
        return {"self": Obj(cls, value=ListOf(elem(cls)), count=Int), "value": ListOf(elem(cls))}

    def raises(self, value):
        return {ValueError: 0 <= self.count < len(value)
                or exists(0, len(value), lambda j: not in_bounds(self, value[j]))}

    def ensures(self, value):
        return len(self.value) == len(value) and forall(
            0, len(value), lambda j: e5.num_eq(self.format_code, self.value[j], value[j]))

    def inv_1(self, new_list, value, i):
        return len(new_list) == i and forall(
            0, i, lambda j: e5.num_eq(self.format_code, new_list[j], value[j]) and in_bounds(self, value[j]))

    def loops(cls):
        return {1: Loop(a=NumSetList.inv_1, types={"new_list": ListOf(elem(cls))})}


@contract("secsgem.secs.variables.base_number:BaseNumber.set", "C01")
class NumSet:
    """O5: set(list) behaves as _set_list; set(scalar) stores [scalar] or raises ValueError when out of bounds."""

    cases = [(f"{c.__name__}-{form}", {"cls": c, "form": form}) for c in NUMERIC for form in ("list", "scalar")]
    uses = [NumSetList]

    def inputs(cls, form):
        v = ListOf(elem(cls)) if form == "list" else elem(cls)
        return {"self": Obj(cls, value=ListOf(elem(cls)), count=Int), "value": v}

    def raises(self, value, case):
        if case["form"] == "list":
            return {ValueError: 0 <= self.count < len(value)
                    or exists(0, len(value), lambda j: not in_bounds(self, value[j]))}
        return {ValueError: not in_bounds(self, value)}

    def ensures(self, value, case):
        if case["form"] == "list":
            return len(self.value) == len(value) and forall(
                0, len(value), lambda j: e5.num_eq(self.format_code, self.value[j], value[j]))
        return len(self.value) == 1 and e5.num_eq(self.format_code, self.value[0], value)

    def modifies(cls, form=None):
        return {"self.value": ListOf(elem(cls))}


# use of _set_list from set: what it may modify
NumSetList.modifies = staticmethod(lambda cls, form=None, **kw: {"self.value": ListOf(elem(cls))})


@contract("secsgem.secs.variables.base_number:BaseNumber.encode", "C01")
class NumEncode:
    """O6/O7: under the class invariant the bytes are exactly item(fc, payload): canonical header, then every
    element big-endian in order; no struct.error/OverflowError; ValueError exactly when the payload exceeds 2^24-1."""

    cases = NUM_CASES

    def inputs(cls):
        return {"self": Obj(cls, value=ListOf(elem(cls)), count=Int)}

    def requires(self):
        return inv_T(self)

    def raises(self):
        return {ValueError: len(self.value) * e5.num_size(self.format_code) > 0xFFFFFF}

    def ensures(self, result):
        fc = self.format_code
        size = e5.num_size(fc)
        n = len(self.value)
        hl = e5.hlen(n * size)
        return (len(result) == hl + n * size
                and seq_eq_at(result, 0, e5.header_min(fc, n * size))
                and forall(0, n, lambda j: seq_eq_at(result, hl + size * j, e5.num_bytes(fc, self.value[j]))))

    def inv_1(self, result, i):
        fc = self.format_code
        size = e5.num_size(fc)
        n = len(self.value)
        hl = e5.hlen(n * size)
        return (len(result) == hl + i * size
                and seq_eq_at(result, 0, e5.header_min(fc, n * size))
                and forall(0, i, lambda j: seq_eq_at(result, hl + size * j, e5.num_bytes(fc, self.value[j]))))

    loops = {1: Loop(a=inv_1)}


@contract("secsgem.secs.variables.base_number:BaseNumber.decode", "C01")
class NumDecode:
    """O8 (also C02): for every k in 1..3 - minimal or not - an item header(fc, n, k) ++ payload at `start`
    leaves value == the numbers the payload denotes, returns start+1+k+n and raises nothing (ValueError only
    when the item definition limits the element count).  Floats: every finite bit pattern."""

    cases = [(f"{c.__name__}-k{k}", {"cls": c, "k": k}) for c in NUMERIC for k in (1, 2, 3)]
    uses = [(NumSet, lambda case: {"cls": case["cls"], "form": "list"})]

    def inputs(cls, k):
        return {"self": Obj(cls, value=ListOf(elem(cls)), count=Int), "data": Bytes(min_len=1), "start": Int(0, None)}

    def requires(self, data, start, case):
        k = case["k"]
        fc = self.format_code
        size = e5.num_size(fc)
        if not (start + 1 + k <= len(data) and data[start] == fc * 4 + k):
            return False
        n = e5.uint_at(data, start + 1, k)
        return (n % size == 0 and start + 1 + k + n <= len(data)
                and forall(0, n // size, lambda j: is_finite(e5.num_value(fc, data, start + 1 + k + size * j))))

    def raises(self, data, start, case):
        n = e5.uint_at(data, start + 1, case["k"])
        return {ValueError: 0 <= self.count < n // e5.num_size(self.format_code)}

    def ensures(self, data, start, result, case):
        k = case["k"]
        fc = self.format_code
        size = e5.num_size(fc)
        n = e5.uint_at(data, start + 1, k)
        return (result == start + 1 + k + n and len(self.value) == n // size
                and forall(0, n // size, lambda j: e5.num_eq(fc, self.value[j], e5.num_value(fc, data, start + 1 + k + size * j))))

    def inv_1(self, result, text_pos, data, start, i, case):
        k = case["k"]
        fc = self.format_code
        size = e5.num_size(fc)
        return (len(result) == i and text_pos == start + 1 + k + size * i
                and forall(0, i, lambda j: e5.num_eq(fc, result[j], e5.num_value(fc, data, start + 1 + k + size * j))))

    def loops(cls, k):
        return {1: Loop(a=NumDecode.inv_1, types={"result": ListOf(elem(cls))})}

    def axioms(cls, k):
        # finite decoded floats pass the bounds check: lemma LemmaFloatBounds/decode-range (proved separately)
        return [LF.range_axiom(cls)] if cls._base_type is float else []

    def samples(rnd, cls, k):
        import struct
        size = cls._bytes
        pls = [b"", bytes(size), b"\xff" * size * 2]
        for _ in range(12):
            n = rnd.randint(0, 4)
            if cls._base_type is float:
                vals = [rnd.choice((0.0, 1.5, -2.25, 1e10, cls._max, cls._min, 1e-40)) for _ in range(n)]
                pls.append(b"".join(struct.pack(">" + cls._struct_code, v) for v in vals))
            else:
                pls.append(bytes(rnd.getrandbits(8) for _ in range(n * size)))
        return _decode_samples(rnd, cls, k, pls, lambda: _obj(cls, value=[1] if cls._base_type is int else [1.0], count=rnd.choice((-1, -1, 0, 2, 100))))


# =============================================================================================== text
import secsgem.common.codec_jis_x_0201 as JIS

TEXT = [V.String, V.JIS8]
TEXT_CASES = [(c.__name__, {"cls": c}) for c in TEXT]


def codec_tables():
    return {"jis-8": {"encode": dict(JIS.jis8_encoding_map), "decode": dict(JIS.jis8_decoding_map)}}


def inv_text(self):
    return forall(0, len(self.value), lambda j: e5.text_encodable(self.format_code, ord(self.value[j])))


@contract("secsgem.secs.variables.base_text:BaseText.set", "C01")
class TextSet:
    """O9 (set): a str is stored unchanged (UnicodeEncodeError exactly when a character has no code unit,
    ValueError exactly when longer than a positive count); bytes are stored as the characters they denote."""

    cases = [(f"{c.__name__}-{form}", {"cls": c, "form": form}) for c in TEXT for form in ("str", "bytes")]
    codec_tables = staticmethod(codec_tables)

    def inputs(cls, form):
        return {"self": Obj(cls, value=Str(), count=Int), "value": Str() if form == "str" else Bytes()}

    def raises(self, value, case):
        if case["form"] == "str":
            bad = exists(0, len(value), lambda j: not e5.text_encodable(self.format_code, ord(value[j])))
            return {UnicodeEncodeError: bad, ValueError: not bad and 0 < self.count < len(value)}
        return {ValueError: 0 < self.count < len(value)}

    def ensures(self, value, case):
        fc = self.format_code
        if case["form"] == "str":
            return len(self.value) == len(value) and forall(0, len(value), lambda j: ord(self.value[j]) == ord(value[j]))
        return len(self.value) == len(value) and forall(
            0, len(value), lambda j: ord(self.value[j]) == e5.text_char(fc, value[j]))


@contract("secsgem.secs.variables.base_text:BaseText.encode", "C01")
class TextEncode:
    """O9: bytes are canonical header ++ one code unit per character."""

    cases = TEXT_CASES
    codec_tables = staticmethod(codec_tables)

    def inputs(cls):
        return {"self": Obj(cls, value=Str(), count=Int)}

    def requires(self):
        return inv_text(self)

    def raises(self):
        return {ValueError: len(self.value) > 0xFFFFFF}

    def ensures(self, result):
        fc = self.format_code
        n = len(self.value)
        hl = e5.hlen(n)
        return (len(result) == hl + n and seq_eq_at(result, 0, e5.header_min(fc, n))
                and forall(0, n, lambda j: result[hl + j] == e5.text_byte(fc, ord(self.value[j]))))


@contract("secsgem.secs.variables.base_text:BaseText.decode", "C01")
class TextDecode:
    """O10 (also C02): any k; restores exactly the characters the payload denotes, whatever the object held before."""

    cases = [(f"{c.__name__}-k{k}", {"cls": c, "k": k}) for c in TEXT for k in (1, 2, 3)]
    codec_tables = staticmethod(codec_tables)

    def inputs(cls, k):
        return {"self": Obj(cls, value=Str(), count=Int), "data": Bytes(min_len=1), "start": Int(0, None)}

    def requires(self, data, start, case):
        k = case["k"]
        if not (start + 1 + k <= len(data) and data[start] == self.format_code * 4 + k):
            return False
        return start + 1 + k + e5.uint_at(data, start + 1, k) <= len(data)

    def raises(self, data, start, case):
        return {ValueError: 0 < self.count < e5.uint_at(data, start + 1, case["k"])}

    def ensures(self, data, start, result, case):
        k = case["k"]
        fc = self.format_code
        n = e5.uint_at(data, start + 1, k)
        return (result == start + 1 + k + n and len(self.value) == n
                and forall(0, n, lambda j: ord(self.value[j]) == e5.text_char(fc, data[start + 1 + k + j])))

    def samples(rnd, cls, k):
        pls = [b"", b"A", bytes(range(256)), b"\x5c\x7e\xa1\xdf\xff\x00"] + [bytes(rnd.getrandbits(8) for _ in range(rnd.randint(0, 9))) for _ in range(8)]
        return _decode_samples(rnd, cls, k, pls, lambda: _obj(cls, value="old", count=rnd.choice((-1, 0, 3, 1000))))


# =============================================================================================== binary
@contract("secsgem.secs.variables.binary:Binary.set", "C01")
class BinarySet:
    """O11 (set): bytes/bytearray are stored byte for byte; an int 0..255 as one byte."""

    cases = [(form, {"form": form}) for form in ("bytes", "bytearray", "int")]

    def inputs(form):
        v = {"bytes": Bytes(), "bytearray": ByteArray(), "int": Int}[form]
        return {"self": Obj(V.Binary, value=ByteArray(), count=Int), "value": v}

    def raises(self, value, case):
        if case["form"] == "int":
            return {ValueError: not 0 <= value <= 255 or 0 < self.count < 1}
        return {ValueError: 0 < self.count < len(value)}

    def ensures(self, value, case):
        if case["form"] == "int":
            return len(self.value) == 1 and self.value[0] == value
        return len(self.value) == len(value) and forall(0, len(value), lambda j: self.value[j] == value[j])


@contract("secsgem.secs.variables.binary:Binary.encode", "C01")
class BinaryEncode:
    cases = None

    def inputs():
        return {"self": Obj(V.Binary, value=ByteArray(), count=Int)}

    def raises(self):
        return {ValueError: len(self.value) > 0xFFFFFF}

    def ensures(self, result):
        n = len(self.value)
        hl = e5.hlen(n)
        return (len(result) == hl + n and seq_eq_at(result, 0, e5.header_min(0o10, n))
                and forall(0, n, lambda j: result[hl + j] == self.value[j]))


@contract("secsgem.secs.variables.binary:Binary.decode", "C01")
class BinaryDecode:
    """O11 (also C02): decode restores exactly the payload *whatever the object held before* (List.decode and
    user code re-use objects), for every k."""

    cases = [(f"k{k}", {"k": k}) for k in (1, 2, 3)]

    def inputs(k):
        return {"self": Obj(V.Binary, value=ByteArray(), count=Int), "data": Bytes(min_len=1), "start": Int(0, None)}

    def requires(self, data, start, case):
        k = case["k"]
        if not (start + 1 + k <= len(data) and data[start] == 0o10 * 4 + k):
            return False
        return start + 1 + k + e5.uint_at(data, start + 1, k) <= len(data)

    def raises(self, data, start, case):
        return {ValueError: 0 < self.count < e5.uint_at(data, start + 1, case["k"])}

    def ensures(self, data, start, result, case):
        k = case["k"]
        n = e5.uint_at(data, start + 1, k)
        return (result == start + 1 + k + n and len(self.value) == n
                and forall(0, n, lambda j: self.value[j] == data[start + 1 + k + j]))

    def samples(rnd, k):
        pls = [b"", b"\x00", bytes(range(256))] + [bytes(rnd.getrandbits(8) for _ in range(rnd.randint(0, 9))) for _ in range(8)]
        return _decode_samples(rnd, V.Binary, k, pls, lambda: _obj(V.Binary, value=bytearray(b"old"), count=rnd.choice((-1, 0, 3, 1000))))


# =============================================================================================== boolean
@contract("secsgem.secs.variables.boolean:Boolean.set", "C01")
class BooleanSet:
    cases = [(form, {"form": form}) for form in ("list", "bool")]

    def inputs(form):
        return {"self": Obj(V.Boolean, value=ListOf(Bool), count=Int), "value": ListOf(Bool) if form == "list" else Bool}

    def raises(self, value, case):
        if case["form"] == "list":
            return {ValueError: 0 <= self.count < len(value)}
        return {ValueError: False}

    def ensures(self, value, case):
        if case["form"] == "list":
            return len(self.value) == len(value) and forall(0, len(value), lambda j: self.value[j] == value[j])
        return len(self.value) == 1 and self.value[0] == value

    def modifies(form=None):
        return {"self.value": ListOf(Bool)}


@contract("secsgem.secs.variables.boolean:Boolean.encode", "C01")
class BooleanEncode:
    """O12: one byte per element, 0x01 for True and 0x00 for False."""

    cases = None

    def inputs():
        return {"self": Obj(V.Boolean, value=ListOf(Bool), count=Int)}

    def raises(self):
        return {ValueError: len(self.value) > 0xFFFFFF}

    def ensures(self, result):
        n = len(self.value)
        hl = e5.hlen(n)
        return (len(result) == hl + n and seq_eq_at(result, 0, e5.header_min(0o11, n))
                and forall(0, n, lambda j: result[hl + j] == ite(self.value[j], 1, 0)))

    def inv_1(self, result, i):
        n = len(self.value)
        hl = e5.hlen(n)
        return (len(result) == hl + i and seq_eq_at(result, 0, e5.header_min(0o11, n))
                and forall(0, i, lambda j: result[hl + j] == ite(self.value[j], 1, 0)))

    loops = {1: Loop(a=inv_1)}


@contract("secsgem.secs.variables.boolean:Boolean.decode", "C01")
class BooleanDecode:
    """O12 (also C02): every non-zero byte denotes True."""

    cases = [(f"k{k}", {"k": k}) for k in (1, 2, 3)]
    uses = [(BooleanSet, lambda case: {"form": "list"})]

    def inputs(k):
        return {"self": Obj(V.Boolean, value=ListOf(Bool), count=Int), "data": Bytes(min_len=1), "start": Int(0, None)}

    def requires(self, data, start, case):
        k = case["k"]
        if not (start + 1 + k <= len(data) and data[start] == 0o11 * 4 + k):
            return False
        return start + 1 + k + e5.uint_at(data, start + 1, k) <= len(data)

    def raises(self, data, start, case):
        return {ValueError: 0 <= self.count < e5.uint_at(data, start + 1, case["k"])}

    def ensures(self, data, start, result, case):
        k = case["k"]
        n = e5.uint_at(data, start + 1, k)
        return (result == start + 1 + k + n and len(self.value) == n
                and forall(0, n, lambda j: self.value[j] == (data[start + 1 + k + j] != 0)))

    def inv_1(self, result, text_pos, data, start, i, case):
        k = case["k"]
        return (len(result) == i and text_pos == start + 1 + k + i
                and forall(0, i, lambda j: result[j] == (data[start + 1 + k + j] != 0)))

    def loops(k):
        return {1: Loop(a=BooleanDecode.inv_1, types={"result": ListOf(Bool)})}

    def samples(rnd, k):
        pls = [b"", b"\x00", b"\x01\x00\xff\x02"] + [bytes(rnd.choice((0, 1, 2, 255)) for _ in range(rnd.randint(0, 7))) for _ in range(8)]
        return _decode_samples(rnd, V.Boolean, k, pls, lambda: _obj(V.Boolean, value=[True], count=rnd.choice((-1, 0, 3, 1000))))
