"""C02: the decode-direction contracts of the codec, registered under C02 (same real functions, same obligations)."""
from pyvc.contract import contract
from contracts import C01_variables as C1
from contracts import lemmas_float as LF


def _reg(base, target):
    cls = type(base.__name__ + "C02", (base,), {"__doc__": base.__doc__, "__module__": __name__})
    return contract(target, "C02", name=base.__name__)(cls)


DecodeItemHeader = _reg(C1.DecodeItemHeader, C1.DecodeItemHeader.target)
NumDecode = _reg(C1.NumDecode, C1.NumDecode.target)
NumSet = _reg(C1.NumSet, C1.NumSet.target)
NumSetList = _reg(C1.NumSetList, C1.NumSetList.target)
TextDecode = _reg(C1.TextDecode, C1.TextDecode.target)
BinaryDecode = _reg(C1.BinaryDecode, C1.BinaryDecode.target)
BooleanDecode = _reg(C1.BooleanDecode, C1.BooleanDecode.target)
BooleanSet = _reg(C1.BooleanSet, C1.BooleanSet.target)
EncodeItemHeader = _reg(C1.EncodeItemHeader, C1.EncodeItemHeader.target)
LemmaFloatBounds = _reg(LF.LemmaFloatBounds, LF.LemmaFloatBounds.target)

from contracts import C01_containers as CC  # noqa: E402
ArrayDecode = _reg(CC.ArrayDecode, CC.ArrayDecode.target)
ListDecode = _reg(CC.ListDecode, CC.ListDecode.target)
ArrayDecodeAny = _reg(CC.ArrayDecodeAny, CC.ArrayDecodeAny.target)
