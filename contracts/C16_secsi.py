"""C16: SECS-I block header, checksum and block codec against SEMI E4."""
from pyvc.contract import *  # noqa
from pyvc.spec_intrinsics import *  # noqa
from spec import e5, e4

import z3
import secsgem.secsi
from secsgem.secsi.header import SecsIHeader
from secsgem.secsi.message import SecsIBlock, SecsIMessage


def hdr_obj():
    return Obj(SecsIHeader, _system=Int, _device_id=Int, _stream=Int, _function=Int, _require_response=Bool,
               _block=Int, _from_equipment=Bool, _last_block=Bool)


def in_ranges(h):
    return (0 <= h._device_id < 32768 and 0 <= h._stream < 128 and 0 <= h._function < 256 and 0 <= h._block < 32768
            and 0 <= h._system < 2 ** 32)


def spec_header(h):
    return e4.header(h._device_id, h._from_equipment, h._require_response, h._stream, h._function, h._block,
                     h._last_block, h._system)


def hsum(h):
    """Sum of the ten header bytes."""
    return prefix_sum(spec_header(h), 10)


@contract("secsgem.secsi.header:SecsIHeader.encode", "C16")
class HeaderEncode:
    """O90: the 10 header bytes of E4 with R-, W- and E-bit folded in."""

    cases = None

    def inputs():
        return {"self": hdr_obj()}

    def requires(self):
        return in_ranges(self)

    def raises():
        return {}

    def ensures(self, result):
        return result == spec_header(self)


@contract("secsgem.secsi.header:SecsIHeader.decode", "C16")
class HeaderDecode:
    """O90: inverse of encode for every 10-byte string."""

    cases = None

    def inputs():
        return {"cls": Const(SecsIHeader), "data": Bytes(length=10)}

    def raises():
        return {}

    def ensures(data, result):
        return (type(result) is SecsIHeader
                and result._device_id == (data[0] % 128) * 256 + data[1] and result._from_equipment == (data[0] >= 128)
                and result._stream == data[2] % 128 and result._require_response == (data[2] >= 128)
                and result._function == data[3]
                and result._block == (data[4] % 128) * 256 + data[5] and result._last_block == (data[4] >= 128)
                and result._system == e5.uint_at(data, 6, 4)
                # inverse of encode, stated byte for byte (also the form callers use: re-encoding gives the input back)
                and spec_header(result) == data)

    def returns():
        return hdr_obj()


@contract("secsgem.common.message:Block.checksum", "C16")
class Checksum:
    """O91: checksum == sum of the header and data bytes (and therefore < 2^16 for blocks of at most 244 data bytes)."""

    cases = None

    def inputs():
        return {"self": Obj(SecsIBlock, _header=hdr_obj(), _data=Bytes())}

    def requires(self):
        return in_ranges(self._header)

    def raises():
        return {}

    def ensures(self, result):
        n = len(self._data)
        return result == hsum(self._header) + prefix_sum(self._data, n) and 0 <= result <= 255 * (10 + n)

    def inv_1(self, calculated_checksum, i):
        # i counts data bytes: the 10 header bytes form a concrete-shape prefix that the engine runs before the loop rule
        return (calculated_checksum == hsum(self._header) + prefix_sum(self._data, i)
                and 0 <= calculated_checksum <= 255 * (10 + i))

    loops = {1: Loop(a=inv_1)}
    returns = Int


@contract("secsgem.common.message:Block.encode", "C16")
class BlockEncode:
    """O92: [10 + n] ++ header ++ data ++ be16(checksum)."""

    cases = None
    uses = [Checksum]

    def inputs():
        return {"self": Obj(SecsIBlock, _header=hdr_obj(), _data=Bytes(max_len=244))}

    def requires(self):
        return in_ranges(self._header)

    def raises():
        return {}

    def ensures(self, result):
        n = len(self._data)
        cs = hsum(self._header) + prefix_sum(self._data, n)
        return (len(result) == 13 + n and result[0] == 10 + n and seq_eq_at(result, 1, spec_header(self._header))
                and forall(0, n, lambda t: result[11 + t] == self._data[t])
                and result[11 + n] * 256 + result[12 + n] == cs)


@contract("secsgem.common.message:Block.decode", "C16")
class BlockDecode:
    """O92: a byte string decodes to a block exactly when its length byte is consistent and the stored checksum equals
    the sum of the header and data bytes; otherwise None (checksum) or struct.error (length)."""

    cases = None
    uses = [Checksum, HeaderDecode]

    def inputs():
        return {"cls": Const(SecsIBlock), "data": Bytes(min_len=1)}

    def raises(data):
        import struct
        return {struct.error: data[0] < 10 or len(data) != data[0] + 3}

    def ensures(data, result):
        n = data[0] - 10
        stored = data[11 + n] * 256 + data[12 + n]
        total = prefix_sum(data[1:11], 10) + prefix_sum(data[11:11 + n], n)
        if result is None:
            return stored != total
        h = result._header
        return (stored == total and type(result) is SecsIBlock and len(result._data) == n
                and forall(0, n, lambda t: result._data[t] == data[11 + t])
                and h._device_id == (data[1] % 128) * 256 + data[2] and h._from_equipment == (data[1] >= 128)
                and h._stream == data[3] % 128 and h._require_response == (data[3] >= 128) and h._function == data[4]
                and h._block == (data[5] % 128) * 256 + data[6] and h._last_block == (data[5] >= 128)
                and h._system == e5.uint_at(data, 7, 4))


@contract("secsgem.common.message:Block.decode", "C16", name="LemmaSingleByteCorruption")
class LemmaSingleByteCorruption:
    """O93 (corruption lemma over the contract of Block.decode): for a valid encoded block e and any position p and any
    value v != e[p], decode(e[p := v]) is None or raises.  Proved from BlockDecode's accept condition
    (length byte consistent AND stored checksum == sum of header and data bytes) with the prefix-sum update law
    PS(a[p := v], n) == PS(a, n) - a[p] + v, which is shown by induction on n: base and step are discharged by z3, the
    induction schema over the naturals is applied outside the solver."""

    lemma = True
    cases = None

    def goals():
        from pyvc.values import PS
        I = z3.IntSort()
        a = z3.Array("in:a", I, I)
        p, v, i, n = z3.Int("in:p"), z3.Int("in:v"), z3.Int("in:i"), z3.Int("in:n")
        b = z3.Store(a, p, v)
        delta = lambda k: z3.If(k > p, v - z3.Select(a, p), 0)
        unfold = lambda x, k: PS(x, k + 1) == PS(x, k) + z3.Select(x, k)
        out = {}
        mv = {"in:p": {"kind": "int", "term": p}, "in:v": {"kind": "int", "term": v}, "in:i": {"kind": "int", "term": i}}
        out["sum-update.base"] = ([PS(a, 0) == 0, PS(b, 0) == 0, p >= 0], PS(b, 0) == PS(a, 0) + delta(0), mv)
        out["sum-update.step"] = ([p >= 0, i >= 0, unfold(a, i), unfold(b, i), PS(b, i) == PS(a, i) + delta(i)],
                                   PS(b, i + 1) == PS(a, i + 1) + delta(i + 1), mv)
        # corollaries used for the three kinds of positions (hs/ds: header and data sums of the valid block, st: stored)
        hs, ds, st, d = z3.Int("in:hs"), z3.Int("in:ds"), z3.Int("in:st"), z3.Int("in:d")
        hi, lo, hi2, lo2 = z3.Int("in:hi"), z3.Int("in:lo"), z3.Int("in:hi2"), z3.Int("in:lo2")
        byte = lambda x: z3.And(x >= 0, x <= 255)
        out["corrupt.header-or-data-byte"] = ([st == hs + ds, d != 0], st != hs + ds + d, {})
        out["corrupt.checksum-byte"] = ([byte(hi), byte(lo), byte(hi2), byte(lo2), z3.Or(hi != hi2, lo != lo2)],
                                         256 * hi + lo != 256 * hi2 + lo2, {})
        ln, ln2, total = z3.Int("in:len"), z3.Int("in:len2"), z3.Int("in:total")
        out["corrupt.length-byte"] = ([total == ln + 3, ln2 != ln], z3.Or(ln2 < 10, total != ln2 + 3), {})
        return out


# =============================================================================================== message split (bounded shape)
@contract("secsgem.common.message:Message._split_blocks", "C16")
class SplitBlocks:
    """O89 for bodies of up to three blocks (block count as case split, the body length is symbolic inside each case,
    so every boundary 0, 1, 243..245, 487..489, 731, 732 is covered; longer bodies: bounded pass): n = max(1, ceil(len/244))
    blocks, block i holds exactly bytes 244*i .. min(len, 244*(i+1)), numbered i+1, the end bit on exactly the last one, every
    other header field preserved - SecsIHeader.updated_with, the header constructor and the block constructor inlined."""

    cases = [("empty", {"k": 0}), ("1-block", {"k": 1}), ("2-blocks", {"k": 2}), ("3-blocks", {"k": 3})]

    def inputs(k):
        return {"cls": Const(SecsIMessage), "data": Bytes(), "header": hdr_obj(), "complete": Const(True)}

    def requires(data, header, case):
        k = case["k"]
        n = len(data)
        if k == 0:
            return n == 0
        return 244 * (k - 1) < n and n <= 244 * k

    def raises():
        return {}

    def ensures(data, header, result, case):
        k = max(1, case["k"])
        n = len(data)
        out = {"block-count": len(result) == k}
        ok_data, ok_num, ok_end, ok_rest = True, True, True, True
        for i in range(k):
            b = result[i]
            lo = 244 * i
            ln = (n - lo) if i == k - 1 else 244
            ok_data = ok_data and len(b._data) == ln and forall(0, ln, lambda t: b._data[t] == data[lo + t])
            ok_num = ok_num and b._header._block == i + 1
            ok_end = ok_end and b._header._last_block == (i == k - 1)
            h = b._header
            ok_rest = ok_rest and (h._system == header._system and h._device_id == header._device_id and h._stream == header._stream
                                   and h._function == header._function and h._from_equipment == header._from_equipment
                                   and h._require_response == header._require_response)
        out["data-partitioned-in-order-at-most-244"] = ok_data
        out["numbered-from-1"] = ok_num
        out["end-bit-on-exactly-the-last-block"] = ok_end
        out["other-header-fields-preserved"] = ok_rest
        return out


# =============================================================================================== reassembly (bounded shape)
from secsgem.secsi.protocol import SecsIProtocol  # noqa: E402


def blk():
    return Obj(SecsIBlock, _header=hdr_obj(), _data=Bytes(max_len=244))


def msg(nblocks):
    return Obj(SecsIMessage, _blocks=FixedList(*[blk() for _ in range(nblocks)]))


SHAPES = {"empty": [], "one-open-1-block": [1], "one-open-2-blocks": [2], "two-open": [1, 1]}


@contract("secsgem.common.protocol:Protocol._add_message_block", "C16")
class AddMessageBlock:
    """O94 (bounded shape: 0..2 open transactions holding 1..2 blocks; system bytes, flags and contents symbolic, open
    transactions under arbitrary - also equal to the new block's - system bytes): a continuation block (block number > 1) joins
    exactly the open message with its system bytes, at the end (arrival order), or opens a new one; a FIRST block (block number
    0 or 1) always starts a new message - blocks left over from an earlier transfer with the same system bytes that was never
    completed are dropped (D36); the message is returned exactly when the block carries the end bit and is then forgotten;
    messages of other system bytes are not touched - interleaving does not matter."""

    cases = [(f"{name}.{'first' if first else 'continuation'}-block", {"shape": name, "first": first}) for name in SHAPES for first in (True, False)]

    def inputs(shape, first):
        entries = [(Int(0, 2 ** 32 - 1), msg(n)) for n in SHAPES[shape]]
        return {"self": Obj(SecsIProtocol, _incomplete_messages=SymDict(*entries)), "block": blk()}

    def requires(self, block, case):
        keys = list(self._incomplete_messages.keys())
        distinct = True
        for a in range(len(keys)):
            for b in range(a + 1, len(keys)):
                distinct = distinct and keys[a] != keys[b]
        open_not_ended = True
        for m in self._incomplete_messages.values():
            for b in m._blocks:
                open_not_ended = open_not_ended and not b._header._last_block
        return distinct and open_not_ended and 0 <= block._header._system < 2 ** 32 and (block._header._block <= 1) == case["first"]

    def raises():
        return {}

    def ensures(self, block, old, result, case):
        sysb = block._header._system
        last = block._header._last_block
        old_items = list(old.self._incomplete_messages.items())
        new_items = list(self._incomplete_messages.items())
        hit = None
        for k0, m0 in old_items:
            if k0 == sysb:
                hit = m0
        out = {}
        if hit is None or case["first"]:
            stale = 0 if hit is None else 1      # an unfinished earlier transfer under the same system bytes is dropped
            out["returned-iff-end-bit"] = (result is not None) == last
            if result is not None:
                out["single-block-message"] = (len(result._blocks) == 1 and len(result._blocks[0]._data) == len(block._data)
                                               and forall(0, len(block._data), lambda t: result._blocks[0]._data[t] == block._data[t])
                                               and result._blocks[0]._header._system == sysb and result._blocks[0]._header._last_block)
                out["open-messages-untouched"] = len(new_items) == len(old_items) - stale and sysb not in self._incomplete_messages
            else:
                out["opened"] = (len(new_items) == len(old_items) + 1 - stale and sysb in self._incomplete_messages
                                 and len(self._incomplete_messages[sysb]._blocks) == 1)
        else:
            n0 = len(hit._blocks)
            out["returned-iff-end-bit"] = (result is not None) == last
            if result is not None:
                out["blocks-in-arrival-order"] = len(result._blocks) == n0 + 1 and result._blocks[n0] is block
                out["forgotten"] = len(new_items) == len(old_items) - 1 and sysb not in self._incomplete_messages
            else:
                out["appended"] = len(new_items) == len(old_items) and len(self._incomplete_messages[sysb]._blocks) == n0 + 1 \
                    and self._incomplete_messages[sysb]._blocks[n0] is block
        return out


@contract("secsgem.secsi.message:SecsIMessage.data", "C16")
class MessageData:
    """the body of a message is the concatenation of its blocks' data in block order (1..3 blocks, contents symbolic)"""

    cases = [(f"n{n}", {"n": n}) for n in (1, 2, 3)]

    def inputs(n):
        return {"self": msg(n)}

    def raises():
        return {}

    def ensures(self, result):
        ok = True
        off = 0
        for b in self._blocks:
            ok = ok and seq_eq_at(result, off, b._data)
            off = off + len(b._data)
        return ok and len(result) == off


@contract("secsgem.secsi.message:SecsIMessage.complete", "C16")
class MessageComplete:
    """a message is complete exactly when its last block carries the end bit"""

    cases = [(f"n{n}", {"n": n}) for n in (1, 2, 3)]

    def inputs(n):
        return {"self": msg(n)}

    def raises():
        return {}

    def ensures(self, result, case):
        return result == self._blocks[case["n"] - 1]._header._last_block
