"""C17: SECS-I line discipline of the real receiver and sender loops, against SEMI E4, in the ghost-stream view.

The bytes arriving from the peer are the ghost stream q.g_stream with read cursor q.g_cursor (as in C04): chunking of the
line does not occur in this view, so what is proved holds for every chunking.  What this endpoint writes is the ghost
wire conn.g_wire (every send_data call appends its argument)."""
from pyvc.contract import *  # noqa
from pyvc.spec_intrinsics import *  # noqa
from spec import e5, e4

import threading

from secsgem.common.byte_queue import ByteQueue
from secsgem.common.connection import Connection
from secsgem.common.protocol_dispatcher import ProtocolDispatcher
from secsgem.secsi.header import SecsIHeader
from secsgem.secsi.message import SecsIBlock
from secsgem.secsi.protocol import SecsIProtocol

from contracts.C04_hsms import BQWaitFor, BQWaitForAbs, BQLenAbs, abs_inv, bq_obj
from contracts.C16_secsi import BlockDecode as BlockDecode16, hdr_obj

ENQ, EOT, ACK, NAK = 0x05, 0x04, 0x06, 0x15


# =============================================================================================== ByteQueue single-byte methods (real code)
@contract("secsgem.common.byte_queue:ByteQueue.pop_byte", "C17")
class BQPopByte:
    """removes and returns exactly the first byte"""

    cases = None

    def inputs():
        return {"self": bq_obj()}

    def raises(self):
        return {IndexError: len(self._buffer) == 0}

    def ensures(self, old, result):
        n0 = len(old.self._buffer)
        return (result == old.self._buffer[0] and len(self._buffer) == n0 - 1
                and forall(0, n0 - 1, lambda t: self._buffer[t] == old.self._buffer[t + 1]))


@contract("secsgem.common.byte_queue:ByteQueue.wait_for_byte", "C17")
class BQWaitForByte:
    """Under the rely 'other threads only append' (through wait_for's verified contract): returns the first byte of
    (buffer ++ arrivals), removes exactly it unless peek."""

    cases = [("peek", {"peek": True}), ("pop", {"peek": False})]
    uses = [(BQWaitFor, lambda case: {"peek": case["peek"]})]

    def inputs(peek):
        return {"self": bq_obj(), "peek": Const(peek)}

    def raises():
        return {}

    def ensures(self, peek, old, result):
        n0 = len(old.self._buffer)
        keep = 0 if peek else 1
        return (implies(n0 >= 1, lambda: result == old.self._buffer[0])
                and len(self._buffer) + keep >= n0 and len(self._buffer) + keep >= 1
                and forall(0, n0 - keep, lambda t: self._buffer[t] == old.self._buffer[keep + t])
                and implies(peek, lambda: result == self._buffer[0]))


# =============================================================================================== abstract views (A-BQ-ABS, A-EXT)
@contract("secsgem.common.byte_queue:ByteQueue.wait_for_byte", "C17", name="BQWaitForByteAbs")
class BQWaitForByteAbs:
    """ASSUMED at call sites (A-BQ-ABS): the next byte of the stream, consumed unless peek."""

    abstract = True
    modifies = {"self._buffer": ByteArray(), "self.g_cursor": Int}
    returns = Int

    def requires(self):
        return abs_inv(self)

    def ensures(self, peek, old, result):
        c = old.self.g_cursor
        return (c + 1 <= len(self.g_stream) and result == self.g_stream[c] and self.g_cursor == c + ite(peek, 0, 1)
                and abs_inv(self) and implies(peek, lambda: len(self._buffer) >= 1))


@contract("secsgem.common.byte_queue:ByteQueue.pop_byte", "C17", name="BQPopByteAbs")
class BQPopByteAbs:
    """ASSUMED at call sites (A-BQ-ABS) - with the call-site obligation that a byte is buffered (no IndexError)."""

    abstract = True
    modifies = {"self._buffer": ByteArray(), "self.g_cursor": Int}
    returns = Int

    def requires(self):
        return abs_inv(self) and len(self._buffer) >= 1

    def ensures(self, old, result):
        c = old.self.g_cursor
        return (c + 1 <= len(self.g_stream) and result == self.g_stream[c] and self.g_cursor == c + 1 and abs_inv(self)
                and len(self._buffer) >= len(old.self._buffer) - 1)


@contract("secsgem.common.byte_queue:ByteQueue.wait_for", "C17", name="BQWaitForAbs17")
class BQWaitForAbs17(BQWaitForAbs):
    abstract = True


@contract("secsgem.common.byte_queue:ByteQueue.__len__", "C17", name="BQLenAbs17")
class BQLenAbs17(BQLenAbs):
    abstract = True


@contract("secsgem.common.connection:Connection.send_data", "C17", name="SendDataAbs")
class SendDataAbs:
    """ASSUMED (A-EXT): the transport appends the bytes to the line (ghost wire) and reports the outcome."""

    abstract = True
    modifies = {"self.g_wire": ByteArray()}
    returns = Bool

    def ensures(self, data, old):
        n0 = len(old.self.g_wire)
        return (len(self.g_wire) == n0 + len(data) and forall(0, n0, lambda t: self.g_wire[t] == old.self.g_wire[t])
                and forall(n0, n0 + len(data), lambda u: self.g_wire[u] == data[u - n0]))


# =============================================================================================== receiver
def checksum_ok(s, a, b):
    """the block s[a:b] (length byte, 10 header bytes, data, 2 checksum bytes) carries the sum of its header and data"""
    n = b - a - 13
    return s[b - 2] * 256 + s[b - 1] == prefix_sum(s[a + 1:a + 11], 10) + prefix_sum(s[a + 11:a + 11 + n], n)


def block_matches(block, s, a, b):
    h = block._header
    n = b - a - 13
    return (len(block._data) == n and forall(0, n, lambda t: block._data[t] == s[a + 11 + t])
            and h._device_id == (s[a + 1] % 128) * 256 + s[a + 2] and h._from_equipment == (s[a + 1] >= 128)
            and h._stream == s[a + 3] % 128 and h._require_response == (s[a + 3] >= 128) and h._function == s[a + 4]
            and h._block == (s[a + 5] % 128) * 256 + s[a + 6] and h._last_block == (s[a + 5] >= 128)
            and h._system == e5.uint_at(s, a + 7, 4))


def rx_wellformed(q):
    """g_starts: positions of the handshake byte of each announced block; block j is
    stream[starts[j]+1 : starts[j+1]] with a length byte >= 10 (A-SECSI-LEN)."""
    s = q.g_stream
    n = len(q.g_starts)
    last = q.g_starts[n - 1]
    return (q.g_starts[0] >= 0 and last <= len(s)
            # after the last complete block the stream ends inside the next announcement (or at its boundary)
            and (len(s) - last < 2 or len(s) - last < 4 + s[last + 1])
            and forall(0, n - 1, lambda j: q.g_starts[j + 1] == q.g_starts[j] + 4 + s[q.g_starts[j] + 1]
                       and q.g_starts[j] >= 0 and q.g_starts[j + 1] <= len(s) and s[q.g_starts[j] + 1] >= 10))


def wire_pairs(w, n0, m):
    """w[n0 : n0+2m] == (EOT ACK)^m"""
    return forall(0, m, lambda j: w[n0 + 2 * j] == EOT and w[n0 + 2 * j + 1] == ACK)


@contract("secsgem.common.protocol_dispatcher:ProtocolDispatcher.queue_block", "C17", name="QueueBlockAbs17")
class QueueBlockAbs17:
    """Call-out contract: the k-th block handed over is the decode of the k-th announced block of the stream, its
    checksum is right, and at that moment the line shows EOT as this endpoint's last byte (block started only after EOT,
    ACK not yet sent)."""

    abstract = True
    modifies = {"self.g_count": Int}

    def requires(self, source, block):
        q = source._receive_buffer
        k = self.g_count
        w = source._connection.g_wire
        return (0 <= k and k + 1 < len(q.g_starts) and block_matches(block, q.g_stream, q.g_starts[k] + 1, q.g_starts[k + 1])
                and checksum_ok(q.g_stream, q.g_starts[k] + 1, q.g_starts[k + 1])
                and len(w) >= 1 and w[len(w) - 1] == EOT and q.g_cursor == q.g_starts[k + 1])

    def ensures(self, old):
        return self.g_count == old.self.g_count + 1


def block_result_spec():
    return Optional(Obj(SecsIBlock, _header=hdr_obj(), _data=Bytes()))


@contract("secsgem.common.message:Block.decode", "C17", name="BlockDecode17")
class BlockDecode17(BlockDecode16):
    """C16's verified contract of SecsIBlock.decode, used at the call site."""

    abstract = True
    returns = staticmethod(block_result_spec)


@contract("secsgem.secsi.protocol:SecsIProtocol._process_received_data", "C17")
class Receive:
    """Receiver loop: every announced block is answered EOT first, read completely, then ACK after it was handed over
    (checksum right) or NAK without handing it over (checksum wrong, loop ends); blocks are handed over in order, none
    lost, none twice - for every chunking of the line."""

    cases = None
    uses = [BQWaitForByteAbs, BQPopByteAbs, BQWaitForAbs17, BQLenAbs17, SendDataAbs, QueueBlockAbs17, BlockDecode17]

    def inputs():
        q = Obj(ByteQueue, _buffer=ByteArray(), g_stream=Bytes(), g_cursor=Int(0, None), g_starts=ListOf(Int, min_len=1))
        return {"self": Obj(SecsIProtocol, _receive_buffer=q, _thread=Obj(ProtocolDispatcher, g_count=Int(0, None)),
                            _Protocol__connection=Obj(Connection, g_wire=ByteArray()))}

    def requires(self):
        q = self._receive_buffer
        k = self._thread.g_count
        return abs_inv(q) and rx_wellformed(q) and k < len(q.g_starts) and q.g_cursor == q.g_starts[k]

    def raises():
        return {}

    def ensures(self, old):
        q = self._receive_buffer
        k = self._thread.g_count
        k0 = old.self._thread.g_count
        w = self._connection.g_wire
        n0 = len(old.self._connection.g_wire)
        m = k - k0
        return {
            "wire-prefix-kept": forall(0, n0, lambda t: w[t] == old.self._connection.g_wire[t]),
            "eot-ack-per-delivered-block": m >= 0 and wire_pairs(w, n0, m),
            "ends-at-boundary-or-nak": (
                (len(w) == n0 + 2 * m and q.g_cursor == q.g_starts[k] and k < len(q.g_starts))
                or (len(w) == n0 + 2 * m + 2 and w[n0 + 2 * m] == EOT and w[n0 + 2 * m + 1] == NAK and k + 1 < len(q.g_starts)
                    and q.g_cursor == q.g_starts[k + 1] and not checksum_ok(q.g_stream, q.g_starts[k] + 1, q.g_starts[k + 1]))),
            "buffer-view": abs_inv(q),
        }

    def _v(self, old):
        q = self._receive_buffer
        return (q, self._thread.g_count, old.self._thread.g_count, self._connection.g_wire, len(old.self._connection.g_wire))

    def inv_view(self, old):
        return abs_inv(self._receive_buffer)

    def inv_count(self, old):
        q = self._receive_buffer
        k = self._thread.g_count
        return k >= old.self._thread.g_count and k < len(q.g_starts) and q.g_cursor == q.g_starts[k]

    def inv_wire_len(self, old):
        return len(self._connection.g_wire) == len(old.self._connection.g_wire) + 2 * (self._thread.g_count - old.self._thread.g_count)

    def inv_wire_prefix(self, old):
        return forall(0, len(old.self._connection.g_wire), lambda t: self._connection.g_wire[t] == old.self._connection.g_wire[t])

    def inv_wire_pairs(self, old):
        return wire_pairs(self._connection.g_wire, len(old.self._connection.g_wire), self._thread.g_count - old.self._thread.g_count)

    loops = {1: Loop(view=inv_view, count=inv_count, wirelen=inv_wire_len, wireprefix=inv_wire_prefix, wirepairs=inv_wire_pairs,
                     modifies=["self._receive_buffer._buffer", "self._receive_buffer.g_cursor", "self._thread.g_count",
                               "self._Protocol__connection.g_wire"])}

    def replay(case, name, model):
        """Native demonstration: the real receiver loop on the model's stream (from the cursor on), with a recording
        transport and dispatcher; the line transcript and the hand-overs are compared with E4."""
        import logging
        import threading
        st = model.get("in:self._receive_buffer.g_stream") or {}
        s = bytes(st.get("items") or [])
        c = model.get("in:self._receive_buffer.g_cursor") or 0
        feed = s[c:]
        if not feed:
            return None

        class Conn:
            def __init__(self):
                self.wire = bytearray()

            def send_data(self, data):
                self.wire += data
                return True

        class Disp:
            def __init__(self, conn):
                self.conn, self.got = conn, []

            def queue_block(self, source, block):
                self.got.append((bytes(block.data), block.header.system, block.header.block, bytes(self.conn.wire)))

        null = logging.getLogger("verif.null")
        null.disabled = True
        proto = object.__new__(SecsIProtocol)
        proto._logger = proto._communication_logger = null
        proto._receive_buffer = ByteQueue()
        proto._receive_buffer.append(feed)
        proto._Protocol__connection = Conn()
        proto._thread = Disp(proto._connection)
        box = {}

        def run():
            try:
                proto._process_received_data()
            except BaseException as exc:  # noqa
                box["exc"] = exc

        th = threading.Thread(target=run, daemon=True)
        th.start()
        th.join(3.0)
        # E4 reference transcript
        want_wire, want_got, pos, complete = bytearray(), [], 0, True
        while pos < len(feed):
            if pos + 1 >= len(feed) or pos + 1 + feed[pos + 1] + 3 > len(feed):
                complete = False
                break
            L = feed[pos + 1]
            rec = feed[pos + 1:pos + 1 + L + 3]
            pos += 1 + L + 3
            want_wire.append(EOT)
            if L < 10:
                complete = False
                break
            if sum(rec[1:-2]) == rec[-2] * 256 + rec[-1]:
                want_got.append((bytes(rec[11:-2]), int.from_bytes(rec[7:11], "big"), (rec[5] % 128) * 256 + rec[6]))
                want_wire.append(ACK)
            else:
                want_wire.append(NAK)
                break
        if not complete:
            return {"status": "spurious", "why": "the model's stream ends inside a block (the real loop waits for more bytes)",
                    "inputs": {"fed": feed.hex()}}
        failed = []
        if th.is_alive():
            failed.append("the receiver loop did not return although every announced block is complete")
        if "exc" in box:
            failed.append(f"raised {type(box['exc']).__name__}: {box['exc']}")
        wire = bytes(proto._connection.wire)
        if wire != bytes(want_wire):
            failed.append(f"line transcript {wire.hex()} differs from E4 {bytes(want_wire).hex()} (04 EOT, 06 ACK, 15 NAK)")
        if [g[:3] for g in proto._thread.got] != want_got:
            failed.append(f"handed over {[(g[0].hex(), g[1], g[2]) for g in proto._thread.got]}, expected {[(g[0].hex(), g[1], g[2]) for g in want_got]}")
        if any(not g[3] or g[3][-1] != EOT for g in proto._thread.got):
            failed.append("a block was handed over while the last byte on the line was not EOT")
        return {"status": "confirmed" if failed else "spurious", "failed_clauses": failed, "inputs": {"fed_to_receiver": feed.hex()},
                "observed": {"line": wire.hex(), "handed_over": len(proto._thread.got)}}


# =============================================================================================== sender
from spec.ext import AbsQueue

import secsgem.common
from secsgem.common.block_send_info import BlockSendInfo
from secsgem.secsi.settings import SecsISettings


@contract("spec.ext:AbsQueue.empty", "C17", name="SendQueueEmptyAbs")
class SendQueueEmptyAbs:
    """ASSUMED (A-EXT): ghost view of the send queue - g_pending blocks wait; other threads may add more."""

    abstract = True
    modifies = {"self.g_pending": Int}
    returns = Bool

    def ensures(self, old, result):
        return self.g_pending >= old.self.g_pending and self.g_pending >= 0 and result == (self.g_pending == 0)


@contract("spec.ext:AbsQueue.get", "C17", name="SendQueueGetAbs")
class SendQueueGetAbs:
    """ASSUMED (A-EXT) - with the call-site obligation that a block is pending (the sender never parks in get())."""

    abstract = True
    modifies = {"self.g_pending": Int, "self.g_served": Int}
    returns = Obj(BlockSendInfo, _data=Bytes(min_len=1), g_owner=Same("self.g_owner"), g_resolved=Const(False))

    def requires(self):
        return self.g_pending >= 1

    def ensures(self, old):
        return self.g_pending == old.self.g_pending - 1 and self.g_served == old.self.g_served + 1


@contract("secsgem.common.connection:Connection.send_data", "C17", name="SendDataAbsTx")
class SendDataAbsTx(SendDataAbs):
    """Sender side of the line: a block (more than one byte) may be written only when the last byte on the line from
    this side is ENQ and the last byte consumed from the peer is EOT - 'announced by ENQ, started only after EOT'."""

    abstract = True

    def requires(self, data):
        p = self.g_owner
        q = p._receive_buffer
        return implies(len(data) > 1, lambda: len(self.g_wire) >= 1 and self.g_wire[len(self.g_wire) - 1] == ENQ
                       and q.g_cursor >= 1 and q.g_stream[q.g_cursor - 1] == EOT)


@contract("secsgem.common.block_send_info:BlockSendInfo.resolve", "C17", name="ResolveAbs")
class ResolveAbs:
    """Call-out contract: a block is resolved once, with success exactly when the peer's answer to it was ACK, and at
    that moment the line shows ENQ ++ block as this side's last bytes."""

    abstract = True
    modifies = {"self.g_resolved": Bool}

    def requires(self, result):
        p = self.g_owner
        q = p._receive_buffer
        w = p._connection.g_wire
        n = len(self._data)
        return (not self.g_resolved and q.g_cursor >= 2 and result == (q.g_stream[q.g_cursor - 1] == ACK)
                and len(w) >= n + 1 and w[len(w) - n - 1] == ENQ and forall(len(w) - n, len(w), lambda u: w[u] == self._data[u - (len(w) - n)]))

    def ensures(self):
        return self.g_resolved


def tx_wellformed(q):
    """The peer is a conforming receiver (what Receive proves of the other endpoint): it answers every announced block
    with EOT and then one more byte (ACK or NAK), and does not transmit on its own (half duplex, A-HALF-DUPLEX).
    g_starts[j] is the position of the answer pair of the j-th block."""
    s = q.g_stream
    n = len(q.g_starts)
    return (q.g_starts[0] >= 0 and q.g_starts[n - 1] <= len(s)
            and forall(0, n - 1, lambda j: q.g_starts[j + 1] == q.g_starts[j] + 2 and q.g_starts[j] >= 0 and q.g_starts[j + 1] <= len(s)
                       and s[q.g_starts[j]] == EOT)
            and len(s) - q.g_starts[n - 1] < 2 and implies(len(s) - q.g_starts[n - 1] == 1, lambda: s[q.g_starts[n - 1]] == EOT))


@contract("secsgem.secsi.protocol:SecsIProtocol._process_send_queue", "C17")
class Send:
    """Sender loop: every pending block is announced by ENQ, written only after the peer's EOT was consumed, and resolved
    with success exactly when the peer answered ACK; the loop ends with the queue empty."""

    cases = [("host", {"dt": secsgem.common.DeviceType.HOST}), ("equipment", {"dt": secsgem.common.DeviceType.EQUIPMENT})]
    # Receive: the contention branch (host yields to an ENQ from the peer) calls the receiver loop; under A-HALF-DUPLEX that
    # branch is dead, its call-site obligations are discharged vacuously
    uses = [BQWaitForByteAbs, BQPopByteAbs, SendDataAbsTx, SendQueueEmptyAbs, SendQueueGetAbs, ResolveAbs, Receive]

    def inputs(dt):
        q = Obj(ByteQueue, _buffer=ByteArray(), g_stream=Bytes(), g_cursor=Int(0, None), g_starts=ListOf(Int, min_len=1))
        return {"self": Obj(SecsIProtocol, _receive_buffer=q, _settings=Obj(SecsISettings, device_type=Const(dt)),
                            _thread=Obj(ProtocolDispatcher, g_count=Int(0, None)),
                            _send_queue=Obj(AbsQueue, g_pending=Int(0, None), g_served=Int(0, None), g_owner=Root()),
                            _Protocol__connection=Obj(Connection, g_wire=ByteArray(), g_owner=Root()))}

    def requires(self):
        q = self._receive_buffer
        k = self._send_queue.g_served
        return abs_inv(q) and tx_wellformed(q) and k < len(q.g_starts) and q.g_cursor == q.g_starts[k]

    def raises():
        return {}

    def ensures(self, old):
        q = self._receive_buffer
        k = self._send_queue.g_served
        return {
            "queue-drained": self._send_queue.g_pending == 0,
            "answers-consumed-pairwise": k >= old.self._send_queue.g_served and k < len(q.g_starts) and q.g_cursor == q.g_starts[k],
            "buffer-view": abs_inv(q),
        }

    def inv_view(self, old):
        return abs_inv(self._receive_buffer)

    def inv_count(self, old):
        q = self._receive_buffer
        k = self._send_queue.g_served
        return k >= old.self._send_queue.g_served and k < len(q.g_starts) and q.g_cursor == q.g_starts[k]

    def inv_pending(self, old):
        return self._send_queue.g_pending >= 0

    loops = {1: Loop(view=inv_view, count=inv_count, pending=inv_pending,
                     modifies=["self._receive_buffer._buffer", "self._receive_buffer.g_cursor", "self._send_queue.g_pending",
                               "self._send_queue.g_served", "self._Protocol__connection.g_wire"])}

    def replay(case, name, model):
        """Native demonstration: the real sender loop with a real queue of three blocks and a peer that answers
        EOT/ACK, EOT/NAK, EOT/<other byte>; line transcript and resolve() results vs. E4."""
        import logging
        import queue as _queue
        import threading

        class Conn:
            def __init__(self):
                self.wire = bytearray()
                self.consumed_at_block = []

            def send_data(self, data):
                if len(data) > 1:
                    self.consumed_at_block.append((len(proto._receive_buffer), bytes(self.wire[-1:])))
                self.wire += data
                return True

        null = logging.getLogger("verif.null")
        null.disabled = True
        proto = object.__new__(SecsIProtocol)
        proto._logger = proto._communication_logger = null
        proto._settings = SecsISettings(port="MEM", device_type=case["dt"])
        proto._receive_buffer = ByteQueue()
        answers = bytes([EOT, ACK, EOT, NAK, EOT, 0x00])
        proto._receive_buffer.append(answers)
        proto._Protocol__connection = Conn()
        proto._send_queue = _queue.Queue()
        blocks = [BlockSendInfo(bytes([10 + i]) + bytes(range(12 + i))) for i in range(3)]
        for b in blocks:
            proto._send_queue.put(b)
        box = {}

        def run():
            try:
                proto._process_send_queue()
            except BaseException as exc:  # noqa
                box["exc"] = exc

        th = threading.Thread(target=run, daemon=True)
        th.start()
        th.join(3.0)
        failed = []
        if th.is_alive():
            failed.append("the sender loop did not return although the peer answered every block")
        if "exc" in box:
            failed.append(f"raised {type(box['exc']).__name__}: {box['exc']}")
        want = b"".join(bytes([ENQ]) + b.data for b in blocks)
        wire = bytes(proto._Protocol__connection.wire)
        if wire != want:
            failed.append(f"line transcript {wire.hex()} differs from ENQ ++ block per block: {want.hex()}")
        got = [b._result.name for b in blocks]
        if got != ["SENT_OK", "SENT_ERROR", "SENT_ERROR"]:
            failed.append(f"send results {got} for peer answers ACK, NAK, 0x00 (success only on ACK)")
        for i, (left, last) in enumerate(proto._Protocol__connection.consumed_at_block):
            if last != bytes([ENQ]) or left != len(answers) - 2 * i - 1:
                failed.append(f"block {i + 1} was written before the peer's EOT was consumed or without ENQ as the previous byte")
                break
        if not proto._send_queue.empty():
            failed.append("blocks left in the send queue")
        return {"status": "confirmed" if failed else "spurious", "failed_clauses": failed,
                "inputs": {"blocks": [b.data.hex() for b in blocks], "peer_answers": answers.hex()},
                "observed": {"line": wire.hex(), "results": got}}
