"""C13 (alarm clause): S5F1 alarm reports are sent exactly for set/clear CHANGES of alarms that are enabled at that
moment - the real AlarmCapability.set_alarm / clear_alarm for ANY alarm id, ANY table of alarms (symbolic map), any code."""
from pyvc.contract import *  # noqa
from pyvc.spec_intrinsics import *  # noqa

import secsgem.secs.data_items as DI
from secsgem.common.settings import Settings
from secsgem.gem.alarm import Alarm
from secsgem.gem.equipmenthandler import GemEquipmentHandler
from spec.ext import AbsFunction, AbsFunctionClass

from contracts.C13_constants import StreamFunctionAbs13, NewFunctionAbs13
from contracts.C11_control import TriggerAbs


class _DataItems:
    """the part of settings.data_items the alarm code looks at (real constant)"""
    ALCD = DI.ALCD


@contract("secsgem.secs.handler:SecsHandler.send_and_waitfor_response", "C13", name="SendPrimaryAbs")
class SendPrimaryAbs:
    """ASSUMED (call-out): a primary handed to the protocol is recorded (count, function object); the reply (or None) is
    of no consequence here."""

    abstract = True
    modifies = {"self.g_sent": Int, "self.g_last_fn": Same("function")}
    returns = Int

    def ensures(self, old):
        return self.g_sent == old.self.g_sent + 1


def handler_obj():
    return Obj(GemEquipmentHandler,
               _alarms=MapOf(Alarm, set=Bool, enabled=Bool, code=Int, text=Int, ce_on=Int, ce_off=Int),
               _settings=Obj(Settings, _streams_functions=Obj(_DataItemsHolder)),
               g_sent=Int, g_last_fn=Const(None), g_triggers=Int, g_last_ceids=Const(None))


class _DataItemsHolder:
    data_items = _DataItems


def alarm_ensures(self, alid, old, setting):
    a, a0 = self._alarms, old.self._alarms
    was = a0[alid].set
    change = (not was) if setting else was
    sent = self.g_sent - old.self.g_sent
    trig = self.g_triggers - old.self.g_triggers
    return {
        "report-iff-change-and-enabled": sent == ite(change and a0[alid].enabled, 1, 0),
        "state-after": a[alid].set == setting,
        "collection-event-iff-change": trig == ite(change, 1, 0),
        "other-alarms-untouched": forall(-2 ** 63, 2 ** 64, lambda k: implies(k != alid, lambda: a[k].set == a0[k].set and a[k].enabled == a0[k].enabled)),
        "enabled-flag-untouched": a[alid].enabled == a0[alid].enabled,
    }


def report_content(self, alid, old, setting):
    if self.g_last_fn is None:
        return True
    v = self.g_last_fn.g_value
    a0 = old.self._alarms
    return (self.g_last_fn.g_stream == 5 and self.g_last_fn.g_function == 1 and v["ALID"] == alid
            and v["ALCD"] == a0[alid].code + (128 if setting else 0) and v["ALTX"] == a0[alid].text)


def ce_content(self, alid, old, setting):
    if self.g_last_ceids is None:
        return True
    a0 = old.self._alarms
    return len(self.g_last_ceids) == 1 and self.g_last_ceids[0] == (a0[alid].ce_on if setting else a0[alid].ce_off)


@contract("secsgem.gem.alarm_capability:AlarmCapability.set_alarm", "C13")
class SetAlarm:
    """set_alarm: unknown id -> ValueError; already set -> nothing; else S5F1 (ALCD = code | 0x80, this ALID, its text) exactly
    when the alarm is enabled now, the alarm becomes set, its 'on' collection event is triggered; no other alarm changes."""

    cases = None
    uses = [SendPrimaryAbs, StreamFunctionAbs13, NewFunctionAbs13, TriggerAbs]

    def inputs():
        return {"self": handler_obj(), "alid": Int}

    def requires(self, alid):
        return 0 <= self._alarms[alid].code and self._alarms[alid].code < 128      # ALCD category codes (bit 8 is the set flag)

    def raises(self, alid):
        return {ValueError: alid not in self._alarms}

    def ensures(self, alid, old):
        return alarm_ensures(self, alid, old, True)

    def ensures_report(self, alid, old):
        return report_content(self, alid, old, True) and ce_content(self, alid, old, True)


@contract("secsgem.gem.alarm_capability:AlarmCapability.clear_alarm", "C13")
class ClearAlarm:
    """clear_alarm: the mirror image (ALCD = code without the set bit, 'off' collection event)."""

    cases = None
    uses = [SendPrimaryAbs, StreamFunctionAbs13, NewFunctionAbs13, TriggerAbs]

    def inputs():
        return {"self": handler_obj(), "alid": Int}

    def requires(self, alid):
        return 0 <= self._alarms[alid].code and self._alarms[alid].code < 128      # ALCD category codes (bit 8 is the set flag)

    def raises(self, alid):
        return {ValueError: alid not in self._alarms}

    def ensures(self, alid, old):
        return alarm_ensures(self, alid, old, False)

    def ensures_report(self, alid, old):
        return report_content(self, alid, old, False) and ce_content(self, alid, old, False)


def _alarm_replay(setting):
    """Native demonstration on a real equipment handler: set / clear of an enabled and of a disabled alarm, twice each."""
    import logging
    from bounded import C13_api as A
    logging.disable(logging.CRITICAL)
    failed, seen = [], []
    for enabled in (True, False):
        sess = A.Session()
        try:
            h = sess.handler
            alid = next(iter(A.AL))
            other = [k for k in A.AL if k != alid]
            h.alarms[alid].enabled = enabled
            h.alarms[alid].set = not setting
            before_other = [(h.alarms[k].set, h.alarms[k].enabled) for k in other]
            sess.s5f1.clear()
            op = h.set_alarm if setting else h.clear_alarm
            op(alid)
            first = len(sess.s5f1)
            alcd = sess.s5f1[0][1][0][1][0] if sess.s5f1 else None
            op(alid)
            second = len(sess.s5f1) - first
            seen.append({"alarm_enabled": enabled, "reports_on_change": first, "alcd": alcd, "reports_on_repeat": second, "set_after": h.alarms[alid].set})
            if first != (1 if enabled else 0):
                failed.append(f"{'set' if setting else 'clear'} of an alarm that is {'enabled' if enabled else 'disabled'}: {first} S5F1")
            if enabled and first == 1 and isinstance(alcd, int) and bool(alcd & 0x80) != setting:
                failed.append(f"ALCD {alcd:#x}: set bit does not say {'set' if setting else 'cleared'}")
            if second != 0:
                failed.append("repeating the operation (no change of the set state) sent another S5F1")
            if h.alarms[alid].set != setting or h.alarms[alid].enabled != enabled:
                failed.append("alarm state / enabled flag after the operation is wrong")
            if [(h.alarms[k].set, h.alarms[k].enabled) for k in other] != before_other:
                failed.append("another alarm was changed")
        finally:
            sess.close()
    return {"status": "confirmed" if failed else "spurious", "failed_clauses": failed, "inputs": {"operation": "set_alarm" if setting else "clear_alarm"}, "observed": seen}


SetAlarm.replay = staticmethod(lambda case, name, model: _alarm_replay(True))
ClearAlarm.replay = staticmethod(lambda case, name, model: _alarm_replay(False))


# ===================================================================== S5F3: enabling / disabling one alarm
from secsgem.secs.functions.streams_functions import StreamsFunctions  # noqa: E402
from spec.ext import AbsDecoded, AbsItem  # noqa: E402

from contracts.C13_constants import ItemGetAbs13  # noqa: E402


class _DataItems5:
    """the part of settings.data_items the S5F3 handler looks at (real constants)"""
    ACKC5 = DI.ACKC5
    ALED = DI.ALED


class _StreamsFunctions5(StreamsFunctions):
    data_items = _DataItems5


@contract("secsgem.secs.functions.streams_functions:StreamsFunctions.decode", "C13", name="DecodeS5F3Abs")
class DecodeS5F3Abs:
    """ASSUMED (C03): the decoded S5F3 is its (ALED, ALID) record (ghost: the request the unit quantifies over)."""

    abstract = True
    returns = Same("self.g_req")


@contract("secsgem.gem.alarm_capability:AlarmCapability._on_s05f03", "C13")
class OnS5F3:
    """S5F3 for ANY alarm id, ANY table of alarms and the two ALED values the library defines (128 enable, 0 disable): a
    known alarm is switched to exactly that state and acknowledged with ACKC5 0, nothing else changes (no other alarm, not
    its set state); an unknown id is answered with a non-zero ACKC5 and changes nothing."""

    cases = [("enable", {"aled": 128}), ("disable", {"aled": 0})]
    uses = [DecodeS5F3Abs, ItemGetAbs13, StreamFunctionAbs13, NewFunctionAbs13]

    def inputs(aled):
        return {"self": Obj(GemEquipmentHandler,
                            _alarms=MapOf(Alarm, set=Bool, enabled=Bool, code=Int, text=Int, ce_on=Int, ce_off=Int),
                            _settings=Obj(Settings, _streams_functions=Obj(_StreamsFunctions5, g_req=Obj(
                                AbsDecoded, ALED=Obj(AbsItem, g_value=Const(aled)), ALID=Obj(AbsItem, g_value=Int))))),
                "_handler": Const(None), "message": Const(None)}

    def raises():
        return {}

    def ensures(self, old, result):
        a, a0 = self._alarms, old.self._alarms
        req = self._settings._streams_functions.g_req
        alid, on = req.ALID.g_value, req.ALED.g_value == 128
        known = alid in a0
        return {
            "s5f4": result.g_stream == 5 and result.g_function == 4,
            "ack-0-iff-known": (result.g_value == 0) == known,
            "known-alarm-takes-the-state": implies(known, lambda: a[alid].enabled == on),
            "nothing-else-changes": forall(-2 ** 63, 2 ** 64, lambda k: a[k].set == a0[k].set and implies(k != alid or not known, lambda: a[k].enabled == a0[k].enabled)),
        }


# ===================================================================== S5F5: listing the requested alarms (bounded shape)
class _DataItems55:
    ALCD = DI.ALCD


class _StreamsFunctions55(StreamsFunctions):
    data_items = _DataItems55


@contract("secsgem.secs.functions.streams_functions:StreamsFunctions.decode", "C13", name="DecodeS5F5Abs")
class DecodeS5F5Abs:
    """ASSUMED (C03): the decoded S5F5 is its ALID vector (ghost: the request the unit quantifies over)."""

    abstract = True
    returns = Same("self.g_req")


@contract("spec.ext:AbsItem.get", "C13", name="ItemGetIdsAbs")
class ItemGetIdsAbs:
    """ASSUMED: the decoded vector item returns the list of the ids it carries."""

    abstract = True
    returns = Same("self.g_ids")


@contract("secsgem.gem.alarm_capability:AlarmCapability._on_s05f05", "C13")
class OnS5F5:
    """S5F5 naming 1 or 2 alarm ids (bounded shape; any ids, any table of alarms, any coincidence of the two ids): S5F6
    lists exactly the requested alarms that exist, in request order (a repeated id twice), each with its id, its text and
    ALCD = category code with bit 8 showing the current set state; the table itself is not touched.  The request naming no
    id (all alarms) and longer requests: bounded pass."""

    cases = [(f"n{n}", {"n": n}) for n in (1, 2)]
    uses = [DecodeS5F5Abs, ItemGetIdsAbs, StreamFunctionAbs13, NewFunctionAbs13]

    def inputs(n):
        return {"self": Obj(GemEquipmentHandler,
                            _alarms=MapOf(Alarm, set=Bool, enabled=Bool, code=Int(0, 127), text=Int, ce_on=Int, ce_off=Int),
                            _settings=Obj(Settings, _streams_functions=Obj(_StreamsFunctions55, g_req=Obj(
                                AbsItem, g_ids=FixedList(*[Int for _ in range(n)]))))),
                "_handler": Const(None), "message": Const(None)}

    def requires(self):
        # ALCD category codes (bit 8 is the set flag)
        ok = True
        for i in self._settings._streams_functions.g_req.g_ids:
            ok = ok and 0 <= self._alarms[i].code and self._alarms[i].code < 128
        return ok

    def raises():
        return {}

    def ensures(self, old, result):
        a, a0 = self._alarms, old.self._alarms
        ids = self._settings._streams_functions.g_req.g_ids
        rows = result.g_value
        want = [i for i in ids if i in a0]
        out = {"s5f6": result.g_stream == 5 and result.g_function == 6,
               "exactly-the-existing-requested-alarms": len(rows) == len(want),
               "table-untouched": forall(-2 ** 63, 2 ** 64, lambda k: a[k].set == a0[k].set and a[k].enabled == a0[k].enabled)}
        if len(rows) == len(want):
            for j in range(len(want)):
                out[f"row-{j}"] = (rows[j]["ALID"] == want[j] and rows[j]["ALTX"] == a0[want[j]].text
                                   and rows[j]["ALCD"] == a0[want[j]].code + (128 if a0[want[j]].set else 0))
        return out
